------------------------------- MODULE BlockSync -------------------------------
(***************************************************************************)
(* Block sync ("fast sync", the v2 reactor of blockchain/): the PROCESSOR.  *)
(*                                                                         *)
(* Property C01, second clause: "a node that catches up by block sync only *)
(* ever adopts blocks that correct validators committed", and the block-   *)
(* sync part of C18: "block-sync input from peers never crashes the        *)
(* processor".                                                             *)
(*                                                                         *)
(* This module transcribes blockchain/processor.go (pcState.handle, one    *)
(* operator per event) over blockchain/processor_context.go (pContext:     *)
(* verifyCommit = kaiState.Validators.VerifyCommit, saveBlock =            *)
(* store.SaveBlock, applyBlock = BlockExecutor.ApplyBlock).  It is written *)
(* in functional style (state record + operators returning [st, res]) so   *)
(* that the same operators serve                                           *)
(*   - the exhaustive model of the processor alone (MC_BlockSync: every    *)
(*     interleaving of events, honest and lying peers),                    *)
(*   - the per-transition dump that is replayed into the real pcState over *)
(*     a real pContext / BlockExecutor / BlockOperations / cstate store,   *)
(*   - the model of the whole reactor (BlockSyncReactor.tla: scheduler,    *)
(*     the two routines' priority queues and the routing of demux).        *)
(*                                                                         *)
(* ABSTRACTION OF A BLOCK.  What the processor looks at is                 *)
(*   block.Height(), the block id (header hash + part-set header of the    *)
(*   serialised block) and block.LastCommit(); what ApplyBlock looks at is *)
(*   whether the block is a valid child of the state.  A block is the      *)
(*   record                                                                *)
(*     [k, h]   its name: kind and height (kinds below)                    *)
(*     id       its block id; distinct blocks have distinct ids (C13)      *)
(*     lc       its LastCommit: [for, ht, sig] = the block id and height   *)
(*              the commit names and, per validator index of the set of    *)
(*              height h-1, "A" absent | "B" a valid precommit signature   *)
(*              for `for` | "N" a valid precommit signature for nil |      *)
(*              "X" a signature that does not verify for that validator    *)
(*     par      the id of the block it extends (Header.LastBlockID)        *)
(*     valid    whether ApplyBlock accepts it on top of `par`              *)
(*                                                                         *)
(* THE COMMITTED CHAIN is G(1) .. G(MaxH): the blocks the correct          *)
(* validators committed, each carrying a +2/3 commit for its predecessor.  *)
(* Honest peers serve G only.  Lying peers serve anything that passes the  *)
(* wire codec (reactor.Receive: DecodeMsg, ValidateMsg = BlockFromProto +  *)
(* Block.ValidateBasic), in any order, at any time:                        *)
(*   F(h)   a sibling of G(h): valid child of G(h-1), other proposer,      *)
(*          carrying the genuine commit for G(h-1); nobody committed it    *)
(*   min/exa/bel(h)  G(h) with its LastCommit thinned out to just above /  *)
(*          exactly / below two thirds of the power (still for G(h-1))     *)
(*   nil(h) child of F(h-1) whose LastCommit names F(h-1) and holds the    *)
(*          Byzantine validator's precommit for F(h-1) plus VALID NIL      *)
(*          precommits of the correct validators (from a failed round)     *)
(*   wst(h) child of F(h-1), LastCommit for F(h-1) signed by a different   *)
(*          validator set (other keys)                                     *)
(*   sam(h) the header of G(h) (same header hash!) with the LastCommit's   *)
(*          round field altered: only the part-set header differs          *)
(*   wht(h) G(h) whose LastCommit carries the wrong height                 *)
(*   bod(h) the header and LastCommit of G(h) with a tampered body (an     *)
(*          extra transaction): same header hash, other part-set header;   *)
(*          the reactor's codec refuses it (DataHash), the processor is    *)
(*          given it nevertheless (defence in depth)                       *)
(*   old(h) child of F(h-1) whose LastCommit names F(h-1) and is signed by  *)
(*          validators holding +2/3 of the power of the set that WAS in     *)
(*          force before the validator-set change at ChangeH and who have   *)
(*          left the set since (they are outside the fault assumption once  *)
(*          they have left); exists for h > ChangeH only                    *)
(* and, OUTSIDE the fault assumption of C01 (validators with +2/3 of the   *)
(* power sign what no correct validator would; used to show that the       *)
(* invariants are not vacuous and to bind the applyBlock panic):           *)
(*   ffF(h) child of F(h-1) with a full commit for F(h-1)                  *)
(*   bad(h) an invalid child of G(h-1) (wrong app hash)                    *)
(*   fbd(h) child of bad(h-1) with a full commit for bad(h-1)              *)
(*                                                                         *)
(* THE JOIN WITH THE CONSENSUS CLAUSE (KardiaBFT Agreement + C02           *)
(* VerifyCommit): a commit with more than two thirds of valid for-block    *)
(* precommits exists only for committed blocks.  `WithinFaultAssumption`   *)
(* states it for the universe of a model.                                  *)
(***************************************************************************)
EXTENDS Integers, Sequences, FiniteSets, TLC

CONSTANTS Power,    \* sequence of voting powers of validator set "A" (in force from the first height); index =
                    \* validator index + 1
          PowerB,   \* powers of validator set "B", which is in force from height ChangeH on: kaiState.Validators
          ChangeH,  \* advances with every applied block (cstate.updateState); ChangeH = 0: the set never changes
          MaxH,     \* heights of the universe: the committed chain is G(1..MaxH)
          Peers,    \* peer ids
          SigSets,  \* [min, exa, bel, old : SUBSET Idx, byz : Idx] signer sets of the thinned-out / forged commits
          Repaired  \* {} = the code as written (what is bound to /repo); the names of suggested repairs switch the
                    \* corresponding operators to the repaired behaviour so that TLC can judge the repair:
                    \*   "enqueue-replaces"   pcState.enqueue replaces the queued block of a height instead of panicking
                    \*   "processed-monotone" scheduler.handleBlockProcessed accepts pcBlockProcessed out of order

Idx == 1..Len(Power)

\* the validator set that signs (and is asked to verify the commit of) the block at height h
SetAt(h)    == IF ChangeH > 0 /\ h >= ChangeH THEN "B" ELSE "A"
PowerOf(v)  == IF v = "A" THEN Power ELSE PowerB
IdxOf(v)    == 1..Len(PowerOf(v))

RECURSIVE SumP(_, _)
SumP(v, S) == IF S = {} THEN 0 ELSE LET i == CHOOSE x \in S : TRUE IN PowerOf(v)[i] + SumP(v, S \ {i})
TotalOf(v) == SumP(v, IdxOf(v))

-----------------------------------------------------------------------------
(* Blocks and commits                                                       *)

Gen     == <<"gen", 0>>                          \* "id" of the genesis state (zero LastBlockID)
Id(k,h) == IF h = 0 THEN Gen ELSE <<k, h>>

\* set: the validator set whose members signed, in that set's order (one CommitSig per member)
Commit(for, ht, set, B, N, X) ==
  [for |-> for, ht |-> ht, set |-> set,
   sig |-> [i \in IdxOf(set) |-> IF i \in X THEN "X" ELSE IF i \in B THEN "B" ELSE IF i \in N THEN "N" ELSE "A"]]
EmptyCommit == Commit(Gen, 0, "A", {}, {}, {})   \* the canonical empty commit of the first block

Blk(k, h, lc, park, valid) == [k |-> k, h |-> h, id |-> <<k, h>>, lc |-> lc, par |-> Id(park, h - 1), valid |-> valid]

FullFor(k, h) == IF h = 0 THEN EmptyCommit ELSE Commit(Id(k, h), h, SetAt(h), IdxOf(SetAt(h)), {}, {})
\* the thinned-out / forged commits are laid out for the set in force at the commit's height
Thin(k, h, B, N, X) == LET v == SetAt(h) IN Commit(Id(k, h), h, v, B \cap IdxOf(v), N \cap IdxOf(v), X \cap IdxOf(v))

Block(k, h) ==
  CASE k = "G"   -> Blk(k, h, FullFor("G", h - 1), "G", TRUE)
    [] k = "F"   -> Blk(k, h, FullFor("G", h - 1), "G", TRUE)
    [] k = "min" -> Blk(k, h, Thin("G", h - 1, SigSets.min, {}, {}), "G", FALSE)
    [] k = "exa" -> Blk(k, h, Thin("G", h - 1, SigSets.exa, {}, {}), "G", FALSE)
    [] k = "bel" -> Blk(k, h, Thin("G", h - 1, SigSets.bel, {}, {}), "G", FALSE)
    [] k = "nil" -> Blk(k, h, Thin("F", h - 1, {SigSets.byz}, Idx \ {SigSets.byz}, {}), "F", FALSE)
    [] k = "wst" -> Blk(k, h, Thin("F", h - 1, {}, {}, Idx), "F", FALSE)
    [] k = "sam" -> Blk(k, h, IF h = 1 THEN EmptyCommit ELSE Thin("G", h - 1, {}, {}, Idx), "G", FALSE)
    [] k = "wht" -> Blk(k, h, [Thin("G", h - 1, {}, {}, Idx) EXCEPT !.ht = h], "G", FALSE)
    [] k = "bod" -> Blk(k, h, FullFor("G", h - 1), "G", FALSE)
    [] k = "old" -> Blk(k, h, Commit(Id("F", h - 1), h - 1, "A", SigSets.old, {}, {}), "F", FALSE)
    [] k = "ffF" -> Blk(k, h, FullFor("F", h - 1), "F", TRUE)
    [] k = "bad" -> Blk(k, h, FullFor("G", h - 1), "G", FALSE)
    [] k = "fbd" -> Blk(k, h, FullFor("bad", h - 1), "bad", TRUE)

\* kinds that exist at height 1 (the others need a non-empty LastCommit); old(h) needs the set of h-1 to be "B"
AtOne == {"G", "F", "sam", "bad", "bod"}
HeightsOf(k) == IF k \in AtOne THEN 1..MaxH ELSE IF k = "old" THEN (ChangeH + 1)..MaxH ELSE 2..MaxH
Universe(kinds) == UNION {{Block(k, h) : h \in HeightsOf(k)} : k \in kinds}

NoBlock == [k |-> "none", h |-> 0, id |-> <<"none", 0>>, lc |-> EmptyCommit, par |-> Gen, valid |-> FALSE]

(* types.ValidatorSet.VerifyCommit(chainID, blockID, height, commit) called on validator set v (the    *)
(* Validators of the processor's state).  Transcribed test by test; only accept / reject is observable *)
(* by the processor.  A commit laid out for another set has the wrong number of signatures or          *)
(* signatures that do not verify for the members of v.  talliedVotingPower counts the valid signatures *)
(* whose vote is for the commit's block id; a valid signature for nil is accepted but not counted;     *)
(* needed = TotalVotingPower*2/3 (truncating), accepted iff tallied > needed.                          *)
Tally(v, c) == SumP(v, {i \in IdxOf(v) : c.sig[i] = "B"})
CommitVerifies(blockId, height, c, v) ==
  /\ c.set = v                                  \* NewErrInvalidCommitSignatures / "wrong signature"
  /\ height = c.ht                              \* NewErrInvalidCommitHeight
  /\ blockId = c.for                            \* "wrong block id"
  /\ \A i \in IdxOf(v) : c.sig[i] # "X"         \* "wrong signature (#idx)"
  /\ Tally(v, c) > (TotalOf(v) * 2) \div 3      \* ErrNotEnoughVotingPowerSigned

(* The join with the consensus clause of C01: in the universe, a commit that verifies names a block    *)
(* of the committed chain.                                                                             *)
WithinFaultAssumption(U) ==
  \A b \in U : b.h > 1 /\ CommitVerifies(b.lc.for, b.lc.ht, b.lc, SetAt(b.lc.ht)) => b.lc.for = Id("G", b.h - 1)

-----------------------------------------------------------------------------
(* The processor: pcState + pContext                                         *)
(*   height   = context.kaiState().LastBlockHeight                           *)
(*   tip      = kaiState.LastBlockID (the id of the block applied last)      *)
(*   queue    = pcState.queue: height -> [b, p] (NoItem = no entry)          *)
(*   draining, synced (= blocksSynced)                                       *)
(*   store    = ids of the blocks handed to store.SaveBlock, in order        *)
(*   applied  = [h, id] of the blocks ApplyBlock accepted, in order          *)
(*   dead     = "ok", or the panic that killed the routine                   *)

NoItem == [b |-> NoBlock, p |-> "none"]
InitPc == [height |-> 0, tip |-> Gen, queue |-> [h \in 1..MaxH |-> NoItem], draining |-> FALSE, synced |-> 0,
           store |-> <<>>, applied |-> <<>>, dead |-> "ok"]

\* results: <<class, height, peer, peer, count>> (uniform shape)
RNoOp            == <<"noOp", 0, "-", "-", 0>>
RProcessed(h, p) == <<"processed", h, p, "-", 0>>
RVerFail(h,p,q)  == <<"verfail", h, p, q, 0>>
RFinished(s)     == <<"finished", s.height, "-", "-", s.synced>>
RPanic(what, h)  == <<"panic:" \o what, h, "-", "-", 0>>

NoOp(s)          == [st |-> s, res |-> RNoOp]
Panic(s, what, h) == [st |-> [s EXCEPT !.dead = what], res |-> RPanic(what, h)]

QLen(s)          == Cardinality({h \in 1..MaxH : s.queue[h] # NoItem})
PurgePeer(q, p)  == [h \in 1..MaxH |-> IF q[h].p = p THEN NoItem ELSE q[h]]

(* case scBlockReceived: a nil block is ignored; a block above the state height is enqueued under     *)
(* ITS OWN height (block.Height(), whatever was requested); enqueue PANICS if that height is taken.    *)
HandleBlockReceived(s, p, b) ==
  IF b = NoBlock THEN NoOp(s)
  ELSE IF b.h > s.height
       THEN IF s.queue[b.h] # NoItem /\ "enqueue-replaces" \notin Repaired
            THEN Panic(s, "dup", b.h)
            ELSE [st |-> [s EXCEPT !.queue[b.h] = [b |-> b, p |-> p]], res |-> RNoOp]
       ELSE NoOp(s)

(* case rProcessBlock: nextTwo = the entries at height+1 and height+2; first is adopted iff            *)
(* second.LastCommit verifies for first's id at first's height under the state's validator set, which  *)
(* is the set of THAT height (state.Validators advances with each applied block).                      *)
(* On failure both peers are purged.  On success: saveBlock (BlockOperations.SaveBlock panics unless   *)
(* the block extends the store), then applyBlock, whose failure is a panic.                            *)
HandleProcessBlock(s) ==
  LET h1 == s.height + 1
      h2 == s.height + 2 IN
  IF h2 > MaxH \/ s.queue[h1] = NoItem \/ s.queue[h2] = NoItem
  THEN IF s.draining THEN [st |-> s, res |-> RFinished(s)] ELSE NoOp(s)
  ELSE LET f == s.queue[h1]
           g == s.queue[h2] IN
       IF ~CommitVerifies(f.b.id, f.b.h, g.b.lc, SetAt(h1))      \* kaiState.Validators: the set of height h1
       THEN [st |-> [s EXCEPT !.queue = PurgePeer(PurgePeer(@, f.p), g.p)], res |-> RVerFail(h1, f.p, g.p)]
       ELSE IF Len(s.store) + 1 # h1
            THEN Panic(s, "save", h1)
            ELSE LET s1 == [s EXCEPT !.store = Append(@, f.b.id)] IN
                 IF ~(f.b.valid /\ f.b.par = s.tip)
                 THEN Panic(s1, "apply", h1)
                 ELSE [st |-> [s1 EXCEPT !.height = h1, !.tip = f.b.id, !.queue[h1] = NoItem,
                                         !.synced = @ + 1, !.applied = Append(@, [h |-> h1, id |-> f.b.id])],
                       res |-> RProcessed(h1, f.p)]

(* case scPeerError *)
HandlePeerError(s, p) == [st |-> [s EXCEPT !.queue = PurgePeer(@, p)], res |-> RNoOp]

(* case scFinishedEv: synced() == len(queue) <= 1 *)
HandleFinished(s) ==
  IF QLen(s) <= 1 THEN [st |-> s, res |-> RFinished(s)]
  ELSE [st |-> [s EXCEPT !.draining = TRUE], res |-> RNoOp]

(* case bcResetState: context.setState(event.state).  Never sent in this code base (startSync(nil));   *)
(* modelled for a state of the committed chain at height k.                                            *)
HandleReset(s, k) == [st |-> [s EXCEPT !.height = k, !.tip = Id("G", k)], res |-> RNoOp]

-----------------------------------------------------------------------------
(* Properties of a processor state                                           *)

\* every block the state machine adopted / the store holds is the committed block of its height
SyncedIsCommitted(s) == \A i \in 1..Len(s.applied) : s.applied[i].id = Id("G", s.applied[i].h)
StoreIsCommitted(s)  == \A i \in 1..Len(s.store) : s.store[i] = Id("G", i)
\* adopted heights are consecutive from the initial height
NoGap(s)             == \A i \in 1..Len(s.applied) : s.applied[i].h = i
\* what was saved was applied (unless the processor died between the two)
SavedIsApplied(s)    == s.dead = "ok" => s.store = [i \in 1..Len(s.applied) |-> s.applied[i].id]
\* nothing at or below the state height stays queued
QueueAboveHeight(s)  == \A h \in 1..MaxH : s.queue[h] # NoItem => h > s.height /\ s.queue[h].b.h = h
\* after a verification failure no block of the offending peers stays queued
PurgeOnFailure(s)    == LET r == HandleProcessBlock(s) IN
                        r.res[1] = "verfail" =>
                          \A h \in 1..MaxH : r.st.queue[h].p \notin {r.res[3], r.res[4]}
=============================================================================
