------------------------------ MODULE MC_BlockSync ------------------------------
(***************************************************************************)
(* Exhaustive model of the block-sync PROCESSOR alone: every interleaving   *)
(* of events of pcState.handle (the complete reachable graph - it is        *)
(* finite: a height holds at most one block and a panic is terminal - or,   *)
(* with MaxOps > 0, every history of up to MaxOps events), with an honest   *)
(* peer (serves the committed chain G) and lying peers (serve every block   *)
(* of the universe and the nil block, at any height, in any order, any      *)
(* number of times).  The scheduler is absent here: the processor must keep *)
(* the adoption property whatever the scheduler lets through (the scheduler *)
(* is what the panic-freedom part relies on; see BlockSyncReactor.tla).     *)
(*                                                                         *)
(* `hist` (the path, with the result of every event) is hidden by the VIEW; *)
(* every transition is printed by the action constraint Dump and replayed   *)
(* into the real pcState over a real pContext (harness/blocksync).          *)
(***************************************************************************)
EXTENDS BlockSync, Json

CONSTANTS Kinds,     \* lying-block kinds of this model's universe
          Liars,     \* the lying peers (a subset of Peers); the others are honest
          MaxOps,    \* bound on the history length (0 = none: the reachable graph is finite, its diameter is about 12)
          Resets     \* heights k for which bcResetState(state of G at k) may be injected ({} = none)

VARIABLES s, hist
vars == <<s, hist>>

U == Universe(Kinds \cup {"G"})
Serves(p) == IF p \in Liars THEN U \cup {NoBlock} ELSE {Block("G", h) : h \in 1..MaxH}

Init == s = InitPc /\ hist = <<>>

Step(r, a) == s' = r.st /\ hist' = Append(hist, a \o r.res)

Next == /\ s.dead = "ok"          \* a panic kills the routine (and, uncaught, the node)
        /\ \/ \E p \in Peers : \E b \in Serves(p) : Step(HandleBlockReceived(s, p, b), <<"recv", p, b.k, b.h>>)
           \/ Step(HandleProcessBlock(s), <<"proc", "-", "-", 0>>)
           \/ \E p \in Peers : Step(HandlePeerError(s, p), <<"perr", p, "-", 0>>)
           \/ Step(HandleFinished(s), <<"fin", "-", "-", 0>>)
           \/ \E k \in Resets : k <= Len(s.store) /\ Step(HandleReset(s, k), <<"reset", "-", "-", k>>)

Bound == MaxOps = 0 \/ Len(hist) < MaxOps
Spec == Init /\ [][Next]_vars
View == s

-----------------------------------------------------------------------------
(* Invariants: the property                                                  *)

Inv == /\ SyncedIsCommitted(s) /\ StoreIsCommitted(s) /\ NoGap(s) /\ SavedIsApplied(s) /\ PurgeOnFailure(s)
\* (not an invariant once bcResetState may move the state height up over queued blocks)
QueueInv == QueueAboveHeight(s)

\* within the fault assumption the applyBlock panic is unreachable: a block whose commit verified is a
\* committed block and a valid child of the state
ApplyNeverPanics == s.dead # "apply"
\* the universe respects the join with the consensus clause (FALSE for the models that contain ffF/fbd)
Assumption == s.dead = s.dead /\ WithinFaultAssumption(U)      \* (mentions s so that TLC treats it as an invariant)

\* pcFinished in answer to rProcessBlock only while draining; blocksSynced counts the adoptions
FinishedOnlyDraining == [][\A r \in {HandleProcessBlock(s)} : r.res[1] = "finished" => s.draining]_vars
SyncedCounts == s.synced = Len(s.applied)
NoGapInv == NoGap(s) /\ PurgeOnFailure(s)   \* what holds even outside the fault assumption

\* reachability companions (each must be VIOLATED: the model is not vacuous)
NeverAdoptsTwo == Len(s.applied) < 2
NeverVerFail   == HandleProcessBlock(s).res[1] # "verfail"
NeverDup       == s.dead # "dup"
NeverFinished  == HandleProcessBlock(s).res[1] # "finished"

-----------------------------------------------------------------------------
Obs(t) == [ht |-> t.height, q |-> [h \in 1..MaxH |-> <<t.queue[h].b.k, t.queue[h].b.h, t.queue[h].p>>],
           dr |-> t.draining, sy |-> t.synced, st |-> t.store, ap |-> [i \in 1..Len(t.applied) |-> t.applied[i].id],
           dead |-> t.dead]
Dump == PrintT(ToJson([h |-> hist', o |-> Obs(s')]))
=================================================================================
