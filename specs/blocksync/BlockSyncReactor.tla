--------------------------- MODULE BlockSyncReactor ---------------------------
(***************************************************************************)
(* Block sync, the whole v2 reactor: the SCHEDULER (blockchain/scheduler.go,*)
(* one operator per handler), the PROCESSOR (BlockSync.tla), the two        *)
(* ROUTINES that run them (blockchain/routine.go: each routine takes its    *)
(* next event from a Workiva PriorityQueue - a binary min-heap ordered by   *)
(* Event.Compare - transcribed exactly, because the order in which queued   *)
(* events are handled is what the panic-freedom question turns on), and the *)
(* ROUTING between them (the two `switch` statements of reactor.demux).     *)
(*                                                                         *)
(* Purpose: the processor panics when a second block is enqueued for a      *)
(* height (pcState.enqueue) and when applyBlock fails, the scheduler panics *)
(* when a block is reported processed out of order (handleBlockProcessed).  *)
(* An uncaught panic in a routine's goroutine (Routine.start re-panics)     *)
(* kills the node.  The processor on its own (MC_BlockSync) cannot exclude  *)
(* the duplicate: it relies on the scheduler to request every height from   *)
(* one peer at a time and to tell it (scPeerError) before a height is       *)
(* requested again.  NeverPanics states that for the composition; it is     *)
(* checked here and every behaviour is replayed into the real scheduler,    *)
(* the real processor and real Routine queues (harness/blocksync).          *)
(*                                                                         *)
(* WHAT TLC FINDS (each reproduced step by step on the real scheduler, the  *)
(* real processor and real Routine queues; signatures of the harness):      *)
(*  1 duplicate-enqueue:peer-removed-silently.  handleTryPrunePeer removes  *)
(*    the peer that owes the block at sc.height for longer than the peer    *)
(*    timeout with removePeer and reports it to nobody; a LATER block that  *)
(*    peer did deliver stays in the processor's queue, the scheduler sets   *)
(*    that height back to New, requests it from another peer, whose answer  *)
(*    hits pcState.enqueue's panic.  No lying content and no race needed:   *)
(*    a peer answers one request and stays silent on an earlier one.        *)
(*  2 duplicate-enqueue:peer-error-overtaken.  The routine's queue hands    *)
(*    out the SMALLEST Compare first, so scPeerError (priorityHigh = 3) is  *)
(*    taken after every queued scBlockReceived / rProcessBlock (2): while   *)
(*    the processor is busy, the scPeerError that should purge a removed    *)
(*    peer's block waits behind the block another peer sends for the same   *)
(*    height (taking priorityHigh FIRST would not help: the error would     *)
(*    then overtake the removed peer's own earlier block).                  *)
(*  3 processed-height:events-reordered.  Among equal priorities the heap   *)
(*    is not FIFO (three queued events a, b, c come out a, c, b): two       *)
(*    pcBlockProcessed reports waiting behind another event reach           *)
(*    handleBlockProcessed in the wrong order ("processed height 2, but     *)
(*    expected height 1").  No faulty peer at all.                          *)
(* The constant Repaired (BlockSync.tla) switches the two operators to the  *)
(* repairs of REPAIR.diff; with both, NeverPanics holds in the same models  *)
(* and the replay agrees with the patched code.                             *)
(*                                                                         *)
(* Deliberate deviations:                                                   *)
(*  - demux is collapsed: the output of a handler is put into the other     *)
(*    routine's queue in the same step (in the code it travels through the  *)
(*    routine's `out` channel and the demux goroutine first; every          *)
(*    behaviour of this model is a behaviour of the code with a fast demux, *)
(*    not the other way round);                                             *)
(*  - time is a logical clock (`now`, advanced by Tick); the scheduler's    *)
(*    comparisons against time.Now()/event times become comparisons of tick *)
(*    counts; the receive-rate test is absent (MinRecvRate = 0, the default,*)
(*    makes it inert); the "clock error" branch of markReceived is absent;  *)
(*  - peers report heights within 0..MaxH; bcResetState is absent (never    *)
(*    sent in this code base).                                              *)
(***************************************************************************)
EXTENDS BlockSync

CONSTANTS PeerSeq,         \* the peers in the order of PeerByID (sort by id)
          TargetPending,   \* FastSyncConfig.TargetPending
          PeerTimeout,     \* FastSyncConfig.PeerTimeout, in ticks: "elapsed > PeerTimeout"
          SyncTimeout      \* FastSyncConfig.SyncTimeout, in ticks

Hs     == 1..MaxH
Never  == -1000            \* the zero time.Time: every timeout against it has expired
NoPeer == "none"

Max(S) == CHOOSE x \in S : \A y \in S : y <= x
Min(S) == CHOOSE x \in S : \A y \in S : x <= y

-----------------------------------------------------------------------------
(* Events (uniform record shape): t type, p peer, q second peer, h height,   *)
(* n count / base, b block, ps peers (sequence)                              *)

Ev(t, p, q, h, n, b, ps) == [t |-> t, p |-> p, q |-> q, h |-> h, n |-> n, b |-> b, ps |-> ps]
E0(t)       == Ev(t, "-", "-", 0, 0, NoBlock, <<>>)
EP(t, p)    == Ev(t, p, "-", 0, 0, NoBlock, <<>>)
EPH(t,p,h)  == Ev(t, p, "-", h, 0, NoBlock, <<>>)
NoOpEv      == E0("noOp")

\* types.go / the event declarations: Priority() of each event type
Prio(e) == CASE e.t \in {"noOp"} -> 1
             [] e.t \in {"scPeerError", "scPeersPruned", "scSchedulerFail", "rTrySchedule", "rTryPrunePeer",
                         "bcRemovePeer", "bcResetState"} -> 3
             [] OTHER -> 2
\* Event.Compare: 1 / 0 / -1 on the priorities
Cmp(a, b) == IF Prio(a) > Prio(b) THEN 1 ELSE IF Prio(a) = Prio(b) THEN 0 ELSE -1

(* queue.PriorityQueue (github.com/Workiva/go-datastructures, priorityItems.push / pop): a binary heap   *)
(* in a slice with the SMALLEST Compare at the root -- so "priorityHigh" events are taken LAST -- and no *)
(* FIFO order among equal priorities.  Indices below are 1-based: Go index k = i - 1.                    *)
RECURSIVE SiftUp(_, _)
SiftUp(q, i) ==
  IF i = 1 THEN q
  ELSE LET par == ((i - 2) \div 2) + 1 IN
       IF Cmp(q[par], q[i]) > 0
       THEN SiftUp([q EXCEPT ![par] = q[i], ![i] = q[par]], par)
       ELSE q
Push(q, e) == SiftUp(Append(q, e), Len(q) + 1)

RECURSIVE SiftDown(_, _)
SiftDown(q, i) ==
  LET l == 2 * i
      r == 2 * i + 1 IN
  IF Len(q) < l THEN q
  ELSE LET c == IF Len(q) >= r /\ Cmp(q[r], q[l]) < 0 THEN r ELSE l IN
       IF Cmp(q[c], q[i]) < 0
       THEN SiftDown([q EXCEPT ![i] = q[c], ![c] = q[i]], c)
       ELSE q
\* pop: the root is returned, the last leaf moves to the root and is bubbled down
PopItem(q) == q[1]
PopRest(q) == IF Len(q) = 1 THEN <<>> ELSE SiftDown(<<q[Len(q)]>> \o SubSeq(q, 2, Len(q) - 1), 1)

-----------------------------------------------------------------------------
(* The scheduler                                                             *)
(*   peers[p] = [st, base, height, touched]   st: "none" (not in the map) | "New" | "Ready" | "Removed"  *)
(*   bst[h]   = blockStates[h]: "Unknown" (no entry) | "New" | "Pending" | "Received"; heights below     *)
(*              sc.height are Processed                                                                  *)
(*   pend / ptime / rcvd = pendingBlocks / pendingTime / receivedBlocks                                  *)

ScPeer0 == [st |-> "none", base |-> 0, height |-> 0, touched |-> Never]
InitSc  == [initHeight |-> 1, height |-> 1, peers |-> [p \in Peers |-> ScPeer0],
            bst |-> [h \in Hs |-> "Unknown"], pend |-> [h \in Hs |-> NoPeer], ptime |-> [h \in Hs |-> Never],
            rcvd |-> [h \in Hs |-> NoPeer], lastAdvance |-> 0, dead |-> "ok"]

Ready(sc)          == {p \in Peers : sc.peers[p].st = "Ready"}
StateAt(sc, h)     == IF h < sc.height THEN "Processed" ELSE IF h \in Hs THEN sc.bst[h] ELSE "Unknown"
NumStates(sc)      == Cardinality({h \in Hs : sc.bst[h] # "Unknown"})
\* maxHeight(): the highest Ready peer, at least sc.height - 1
MaxHeightSc(sc)    == Max({sc.height - 1} \cup {sc.peers[p].height : p \in Ready(sc)})
AllProcessed(sc)   == /\ \E p \in Peers : sc.peers[p].st # "none"
                      /\ sc.height >= MaxHeightSc(sc)

AddNewBlocks(sc) ==
  IF NumStates(sc) >= TargetPending THEN sc
  ELSE [sc EXCEPT !.bst = [h \in Hs |-> IF /\ h >= sc.height /\ h < TargetPending + sc.height
                                           /\ h <= MaxHeightSc(sc) /\ sc.bst[h] = "Unknown"
                                        THEN "New" ELSE sc.bst[h]]]

(* removePeer: the peer's pending and received heights go back to New, the peer is marked Removed, block  *)
(* states above the remaining maximum peer height are forgotten.  NOTHING is said to the processor here:  *)
(* every caller is responsible for the scPeerError that purges the peer's blocks from the processor.      *)
RemovePeer(sc, p) ==
  IF sc.peers[p].st \in {"none", "Removed"} THEN sc
  ELSE LET mine(h) == sc.pend[h] = p \/ sc.rcvd[h] = p
           peers1  == [sc.peers EXCEPT ![p].st = "Removed"]
           mph     == Max({0} \cup {peers1[r].height : r \in {r \in Peers : peers1[r].st = "Ready"}})
       IN [sc EXCEPT !.peers = peers1,
                     !.bst   = [h \in Hs |-> IF h > mph THEN "Unknown" ELSE IF mine(h) THEN "New" ELSE sc.bst[h]],
                     !.ptime = [h \in Hs |-> IF sc.pend[h] = p THEN Never ELSE sc.ptime[h]],
                     !.pend  = [h \in Hs |-> IF sc.pend[h] = p THEN NoPeer ELSE sc.pend[h]],
                     !.rcvd  = [h \in Hs |-> IF sc.rcvd[h] = p THEN NoPeer ELSE sc.rcvd[h]]]

ScOut(sc, e) == [sc |-> sc, out |-> e]

(* handleStatusResponse -> setPeerRange *)
HandleStatus(sc, p, base, height) ==
  LET sc0 == IF sc.peers[p].st = "none" THEN [sc EXCEPT !.peers[p].st = "New"] ELSE sc    \* ensurePeer
      peer == sc0.peers[p] IN
  IF peer.st = "Removed" THEN ScOut(sc0, NoOpEv)
  ELSE IF height < peer.height \/ base > height
       THEN ScOut(RemovePeer(sc0, p), EP("scPeerError", p))
       ELSE ScOut(AddNewBlocks([sc0 EXCEPT !.peers[p] = [peer EXCEPT !.st = "Ready", !.base = base, !.height = height]]),
                  NoOpEv)

(* handleBlockResponse: touchPeer, markReceived (under the block's OWN height) *)
HandleBlockResponse(sc, p, b, now) ==
  IF sc.peers[p].st # "Ready" THEN ScOut(sc, NoOpEv)
  ELSE LET sc0 == [sc EXCEPT !.peers[p].touched = now] IN
       IF StateAt(sc0, b.h) # "Pending" \/ sc0.pend[b.h] # p
       THEN ScOut(RemovePeer(sc0, p), EP("scPeerError", p))
       ELSE ScOut([sc0 EXCEPT !.bst[b.h] = "Received", !.pend[b.h] = NoPeer, !.ptime[b.h] = Never, !.rcvd[b.h] = p],
                  Ev("scBlockReceived", p, "-", b.h, 0, b, <<>>))

(* handleNoBlockResponse *)
HandleNoBlock(sc, p) ==
  IF sc.peers[p].st \in {"none", "Removed"} THEN ScOut(sc, NoOpEv)
  ELSE ScOut(RemovePeer(sc, p), EP("scPeerError", p))

(* handleBlockProcessed: PANICS unless the height is the scheduler's own next height *)
HandleProcessed(sc, h, now) ==
  IF h # sc.height /\ "processed-monotone" \notin Repaired
  THEN ScOut([sc EXCEPT !.dead = "processed-height"], E0("panic:processed-height"))
  ELSE IF h < sc.height THEN ScOut(sc, NoOpEv)        \* (repair) already accounted for by a later report handled first
  ELSE LET done(k) == k >= sc.height /\ k <= h          \* (as written: exactly the height h)
           sc1 == AddNewBlocks([sc EXCEPT !.lastAdvance = now, !.height = h + 1,
                                          !.pend  = [k \in Hs |-> IF done(k) THEN NoPeer ELSE @[k]],
                                          !.ptime = [k \in Hs |-> IF done(k) THEN Never ELSE @[k]],
                                          !.rcvd  = [k \in Hs |-> IF done(k) THEN NoPeer ELSE @[k]],
                                          !.bst   = [k \in Hs |-> IF done(k) THEN "Unknown" ELSE @[k]]])
       IN ScOut(sc1, IF AllProcessed(sc1) THEN E0("scFinishedEv") ELSE NoOpEv)

(* handleBlockProcessError *)
HandleProcessError(sc, p, q) ==
  LET sc1 == RemovePeer(RemovePeer(sc, p), q) IN
  ScOut(sc1, IF AllProcessed(sc1) THEN E0("scFinishedEv") ELSE NoOpEv)

HandleAddPeer(sc, p) == ScOut(IF sc.peers[p].st = "none" THEN [sc EXCEPT !.peers[p].st = "New"] ELSE sc, NoOpEv)

(* handleRemovePeer *)
HandleRemovePeer(sc, p) ==
  LET sc1 == RemovePeer(sc, p) IN
  ScOut(sc1, IF AllProcessed(sc1) THEN E0("scFinishedEv") ELSE EP("scPeerError", p))

(* handleTryPrunePeer: first the peer that owes the block at sc.height for longer than the peer timeout   *)
(* is removed -- WITHOUT being reported to anybody --, then the peers not heard of for longer than the    *)
(* timeout are removed, if IsPrunable (some known peer is not ahead of the node's initial height), and    *)
(* reported as scPeersPruned.                                                                             *)
IsPrunable(sc) == \E p \in Peers : sc.peers[p].st # "none" /\ sc.peers[p].height <= sc.initHeight
SeqFilter(seq, S) == SelectSeq(seq, LAMBDA x : x \in S)
RECURSIVE RemoveAll(_, _)
RemoveAll(sc, ps) == IF ps = <<>> THEN sc ELSE RemoveAll(RemovePeer(sc, Head(ps)), Tail(ps))
HandleTryPrune(sc, now) ==
  LET sc1 == IF sc.height \in Hs /\ sc.ptime[sc.height] # Never /\ now - sc.ptime[sc.height] > PeerTimeout
             THEN RemovePeer(sc, sc.pend[sc.height]) ELSE sc
      pr  == SeqFilter(PeerSeq, {p \in Ready(sc1) : now - sc1.peers[p].touched > PeerTimeout /\ IsPrunable(sc1)})
  IN IF pr = <<>> THEN ScOut(sc1, NoOpEv)
     ELSE LET sc2 == RemoveAll(sc1, pr) IN
          ScOut(sc2, IF AllProcessed(sc2) THEN E0("scFinishedEv") ELSE Ev("scPeersPruned", "-", "-", 0, 0, NoBlock, pr))

(* handleTrySchedule: lowest New height, from the Ready peer that has it with the fewest pending requests *)
(* (ties: smallest id)                                                                                    *)
PendingFrom(sc, p) == Cardinality({h \in Hs : sc.pend[h] = p})
HandleTrySchedule(sc, now) ==
  IF now - sc.lastAdvance > SyncTimeout THEN ScOut(sc, E0("scFinishedEv"))
  ELSE LET news == {h \in Hs : sc.bst[h] = "New"} IN
       IF news = {} THEN ScOut(sc, NoOpEv)
       ELSE LET h     == Min(news)
                cands == {p \in Ready(sc) : sc.peers[p].base <= h /\ h <= sc.peers[p].height} IN
            IF cands = {} THEN ScOut(sc, E0("scSchedulerFail"))
            ELSE LET m    == Min({PendingFrom(sc, p) : p \in cands})
                     best == Head(SeqFilter(PeerSeq, {p \in cands : PendingFrom(sc, p) = m}))
                 IN ScOut([sc EXCEPT !.bst[h] = "Pending", !.pend[h] = best, !.ptime[h] = now],
                          EPH("scBlockRequest", best, h))

(* scheduler.handle *)
HandleSc(sc, e, now) ==
  CASE e.t = "bcStatusResponse"           -> HandleStatus(sc, e.p, e.n, e.h)
    [] e.t = "bcBlockResponse"            -> HandleBlockResponse(sc, e.p, e.b, now)
    [] e.t = "bcNoBlockResponse"          -> HandleNoBlock(sc, e.p)
    [] e.t = "bcAddNewPeer"               -> HandleAddPeer(sc, e.p)
    [] e.t = "bcRemovePeer"               -> HandleRemovePeer(sc, e.p)
    [] e.t = "rTrySchedule"               -> HandleTrySchedule(sc, now)
    [] e.t = "rTryPrunePeer"              -> HandleTryPrune(sc, now)
    [] e.t = "pcBlockProcessed"           -> HandleProcessed(sc, e.h, now)
    [] e.t = "pcBlockVerificationFailure" -> HandleProcessError(sc, e.p, e.q)
    [] OTHER                              -> ScOut(sc, E0("scSchedulerFail"))

-----------------------------------------------------------------------------
(* The processor in event form (pcState.handle)                              *)

ResEv(res) == CASE res[1] = "noOp"      -> NoOpEv
                [] res[1] = "processed" -> EPH("pcBlockProcessed", res[3], res[2])
                [] res[1] = "verfail"   -> Ev("pcBlockVerificationFailure", res[3], res[4], res[2], 0, NoBlock, <<>>)
                [] res[1] = "finished"  -> Ev("pcFinished", "-", "-", res[2], res[5], NoBlock, <<>>)
                [] OTHER                -> Ev(res[1], "-", "-", res[2], 0, NoBlock, <<>>)     \* panic:*
HandlePc(s, e) ==
  LET r == CASE e.t = "scBlockReceived" -> HandleBlockReceived(s, e.p, e.b)
             [] e.t = "rProcessBlock"   -> HandleProcessBlock(s)
             [] e.t = "scPeerError"     -> HandlePeerError(s, e.p)
             [] e.t = "scFinishedEv"    -> HandleFinished(s)
             [] OTHER                   -> NoOp(s)
  IN [pc |-> r.st, out |-> ResEv(r.res)]

-----------------------------------------------------------------------------
(* The reactor: both machines, their queues, the requests in flight, time    *)
(*   phase: "sync" | "scstopped" (scheduler.stop() after scFinishedEv) |     *)
(*          "done" (pcFinished: trySwitchToConsensus, endSync)               *)

InitR == [pc |-> InitPc, sc |-> InitSc, pcIn |-> <<>>, scIn |-> <<>>, reqs |-> {}, now |-> 0, phase |-> "sync"]

Dead(r) == r.pc.dead # "ok" \/ r.sc.dead # "ok"

\* an event from a peer / a ticker reaches the scheduler's queue (Routine.send refuses once stopped)
ToScheduler(r, e) == IF r.phase = "sync" THEN [r EXCEPT !.scIn = Push(@, e)] ELSE r
ToProcessor(r, e) == IF r.phase # "done" THEN [r EXCEPT !.pcIn = Push(@, e)] ELSE r
Tick(r)           == [r EXCEPT !.now = @ + 1]

RECURSIVE PushErrors(_, _)
PushErrors(q, ps) == IF ps = <<>> THEN q ELSE PushErrors(Push(q, EP("scPeerError", Head(ps))), Tail(ps))

(* one iteration of the scheduler routine + the "Incremental events from scheduler" arm of demux *)
SchedStep(r) ==
  LET e   == PopItem(r.scIn)
      h   == HandleSc(r.sc, e, r.now)
      r1  == [r EXCEPT !.sc = h.sc, !.scIn = PopRest(r.scIn)]
      o   == h.out
  IN [r |-> CASE o.t \in {"scBlockReceived", "scPeerError"} -> [r1 EXCEPT !.pcIn = Push(@, o)]
               [] o.t = "scBlockRequest" -> [r1 EXCEPT !.reqs = @ \cup {<<o.p, o.h>>}]
               [] o.t = "scFinishedEv"   -> [r1 EXCEPT !.pcIn = Push(@, o), !.phase = "scstopped", !.scIn = <<>>]
               [] o.t = "scPeersPruned"  -> [r1 EXCEPT !.pcIn = PushErrors(@, o.ps)]
               [] OTHER                  -> r1,
      in |-> e, out |-> o]

(* one iteration of the processor routine + the "Incremental events from processor" arm of demux *)
ProcStep(r) ==
  LET e  == PopItem(r.pcIn)
      h  == HandlePc(r.pc, e)
      r1 == [r EXCEPT !.pc = h.pc, !.pcIn = PopRest(r.pcIn)]
      o  == h.out
  IN [r |-> CASE o.t \in {"pcBlockProcessed", "pcBlockVerificationFailure"} ->
                    IF r1.phase = "sync" THEN [r1 EXCEPT !.scIn = Push(@, o)] ELSE r1
               [] o.t = "pcFinished" -> [r1 EXCEPT !.phase = "done", !.pcIn = <<>>, !.scIn = <<>>]
               [] OTHER -> r1,
      in |-> e, out |-> o]

-----------------------------------------------------------------------------
(* Properties of a reactor state                                             *)

\* C18 (block-sync part): no routine has panicked
NeverPanics(r) == ~Dead(r)
\* what the processor relies on: a height it holds a block for is not requested / received again unless the
\* scPeerError that purges the block is handled first.  (FALSE in reachable states: see the findings.)
NoStaleBlock(r) == \A h \in Hs : r.pc.queue[h] # NoItem /\ h >= r.sc.height =>
                      \/ r.sc.bst[h] = "Received" /\ r.sc.rcvd[h] = r.pc.queue[h].p
                      \/ \E i \in 1..Len(r.pcIn) : r.pcIn[i].t = "scPeerError" /\ r.pcIn[i].p = r.pc.queue[h].p
=============================================================================
