--------------------------- MODULE MC_BlockSyncReactor ---------------------------
(***************************************************************************)
(* Model of the whole block-sync reactor against its environment:           *)
(*   - an honest peer answers the block requests addressed to it with the   *)
(*     committed chain and reports its true height;                         *)
(*   - a lying peer reports any status, sends any block of LiarKinds at any *)
(*     height at any time (requested or not), claims to have no block,      *)
(*     stays silent;                                                        *)
(*   - any peer may disconnect (bcRemovePeer);                              *)
(*   - the three tickers of reactor.demux (rTrySchedule, rTryPrunePeer,     *)
(*     rProcessBlock) fire at any time, time passes (Tick);                 *)
(*   - the two routines run at any relative speed (SchedStep / ProcStep).   *)
(* Faults (unsolicited or unrequested input, disconnects, silence beyond    *)
(* the peer timeout) are limited by Budget, which keeps the search          *)
(* productive; SyncSched = TRUE lets the scheduler routine handle every     *)
(* event before anything else happens (its handlers take microseconds, the  *)
(* processor applies blocks): the scheduler's queue then never holds more   *)
(* than one event.                                                          *)
(* `hist` is hidden by the VIEW; every transition is printed (Dump) and     *)
(* replayed into the real scheduler, processor and Routine queues.          *)
(***************************************************************************)
EXTENDS BlockSyncReactor, Json

CONSTANTS Liars,       \* lying peers (subset of Peers)
          LiarKinds,   \* block kinds the liars send
          LiarStatus,  \* set of <<base, height>> a liar may report
          Faults,      \* fault classes of this model: subset of {"status", "block", "noblock", "disconnect", "silence"}
          Budget,      \* number of faults per behaviour
          Start,       \* TRUE: the model starts after every peer's first status report has been handled
          MaxT,        \* time bound (ticks)
          MaxOps,      \* bound on the history length (0 = none)
          SyncSched    \* TRUE: the scheduler routine runs to completion after every event

VARIABLES r, faults, hist
vars == <<r, faults, hist>>

LU == Universe(LiarKinds \cup {"G"})

\* the state after bcStatusResponse(p, 1, MaxH) of every peer has been handled
RECURSIVE Statuses(_, _)
Statuses(sc, ps) == IF ps = <<>> THEN sc ELSE Statuses(HandleStatus(sc, Head(ps), 1, MaxH).sc, Tail(ps))
Init == /\ r = IF Start THEN [InitR EXCEPT !.sc = Statuses(InitSc, PeerSeq)] ELSE InitR
        /\ faults = 0 /\ hist = <<>>

EvDesc(e) == <<e.t, e.p, e.q, e.h, e.n, e.b.k, e.b.h, e.ps>>

\* environment: an event for the scheduler (through reactor.Receive / AddPeer / RemovePeer / the tickers)
Send(e, a, cost) == /\ r.phase = "sync"
                    /\ faults + cost <= Budget
                    /\ r' = ToScheduler(r, e) /\ faults' = faults + cost
                    /\ hist' = Append(hist, a)

Queued(q, t) == \E i \in 1..Len(q) : q[i].t = t

Env ==
  \* status reports
  \/ \E p \in Peers \ Liars :
        /\ r.sc.peers[p].st = "none" /\ ~Queued(r.scIn, "bcStatusResponse")
        /\ Send(Ev("bcStatusResponse", p, "-", MaxH, 1, NoBlock, <<>>), <<"st", p, 1, MaxH>>, 0)
  \/ \E p \in Liars : \E bh \in LiarStatus :
        /\ ~(r.sc.peers[p].st = "Ready" /\ r.sc.peers[p].base = bh[1] /\ r.sc.peers[p].height = bh[2])
        /\ ~Queued(r.scIn, "bcStatusResponse")
        /\ r.sc.peers[p].st = "none" \/ "status" \in Faults
        /\ Send(Ev("bcStatusResponse", p, "-", bh[2], bh[1], NoBlock, <<>>), <<"st", p, bh[1], bh[2]>>,
                IF r.sc.peers[p].st = "none" THEN 0 ELSE 1)
  \* an honest peer answers a request addressed to it
  \/ \E p \in Peers \ Liars : \E h \in Hs :
        /\ <<p, h>> \in r.reqs
        /\ r.phase = "sync"
        /\ r' = [ToScheduler(r, Ev("bcBlockResponse", p, "-", h, 0, Block("G", h), <<>>)) EXCEPT !.reqs = @ \ {<<p, h>>}]
        /\ UNCHANGED faults /\ hist' = Append(hist, <<"blk", p, "G", h>>)
  \* a liar sends a block: the requested genuine one costs nothing, anything else is a fault
  \/ \E p \in Liars : \E b \in LU :
        /\ r.sc.peers[p].st = "Ready"
        /\ LET asked == b.k = "G" /\ <<p, b.h>> \in r.reqs /\ r.sc.pend[b.h] = p IN
           /\ asked \/ "block" \in Faults
           /\ Send(Ev("bcBlockResponse", p, "-", b.h, 0, b, <<>>), <<"blk", p, b.k, b.h>>, IF asked THEN 0 ELSE 1)
  \/ \E p \in Liars :
        /\ r.sc.peers[p].st = "Ready" /\ "noblock" \in Faults
        /\ Send(EPH("bcNoBlockResponse", p, 1), <<"nob", p, 1>>, 1)
  \* a peer disconnects
  \/ \E p \in Peers :
        /\ r.sc.peers[p].st \in {"New", "Ready"} /\ "disconnect" \in Faults
        /\ Send(EP("bcRemovePeer", p), <<"rm", p>>, 1)
  \* tickers (only when they have something to do, at most one of a kind queued)
  \/ /\ ~Queued(r.scIn, "rTrySchedule")
     /\ (\E h \in Hs : r.sc.bst[h] = "New") \/ r.now - r.sc.lastAdvance > SyncTimeout
     /\ Send(E0("rTrySchedule"), <<"sch">>, 0)
  \/ /\ ~Queued(r.scIn, "rTryPrunePeer")
     /\ HandleTryPrune(r.sc, r.now).sc # r.sc
     /\ Send(E0("rTryPrunePeer"), <<"prn">>, 0)
  \/ /\ ~Queued(r.pcIn, "rProcessBlock") /\ r.phase # "done"
     /\ r' = ToProcessor(r, E0("rProcessBlock")) /\ UNCHANGED faults /\ hist' = Append(hist, <<"ptk">>)
  \* time passes (one fault each: silence is what a timeout punishes)
  \/ /\ r.now < MaxT /\ r.phase = "sync" /\ faults < Budget /\ "silence" \in Faults
     /\ r' = Tick(r) /\ faults' = faults + 1 /\ hist' = Append(hist, <<"tick">>)

Sched == /\ r.phase = "sync" /\ r.scIn # <<>>
         /\ LET x == SchedStep(r) IN
            /\ r' = x.r /\ UNCHANGED faults
            /\ hist' = Append(hist, <<"S">> \o EvDesc(x.in) \o EvDesc(x.out))
Proc  == /\ r.phase # "done" /\ r.pcIn # <<>>
         /\ LET x == ProcStep(r) IN
            /\ r' = x.r /\ UNCHANGED faults
            /\ hist' = Append(hist, <<"P">> \o EvDesc(x.in) \o EvDesc(x.out))

Next == /\ ~Dead(r)
        /\ IF SyncSched /\ r.phase = "sync" /\ r.scIn # <<>> THEN Sched ELSE (Env \/ Sched \/ Proc)

Bound == MaxOps = 0 \/ Len(hist) < MaxOps
Spec == Init /\ [][Next]_vars
View == <<r, faults>>

-----------------------------------------------------------------------------
\* the adoption property holds for the composition as well
Inv == /\ SyncedIsCommitted(r.pc) /\ StoreIsCommitted(r.pc) /\ NoGap(r.pc) /\ SavedIsApplied(r.pc)
       /\ r.pc.dead \notin {"apply", "save"}
\* C18, block-sync part
NoPanic  == NeverPanics(r)
NoStale  == NoStaleBlock(r)
\* the scheduler is never ahead of / behind the processor by more than the events in flight
HeightsAgree == r.phase = "sync" /\ r.scIn = <<>> /\ r.pcIn = <<>> /\ ~Dead(r) => r.sc.height = r.pc.height + 1

\* reachability companions (must be violated)
NeverAdopts    == Len(r.pc.applied) < 1
NeverAdoptsTwo == Len(r.pc.applied) < 2
NeverDone      == r.phase # "done"

Obs(t) == [pc |-> [ht |-> t.pc.height, q |-> [h \in Hs |-> <<t.pc.queue[h].b.k, t.pc.queue[h].b.h, t.pc.queue[h].p>>],
                   dr |-> t.pc.draining, sy |-> t.pc.synced, dead |-> t.pc.dead],
           sc |-> [ht |-> t.sc.height, peers |-> [p \in Peers |-> <<t.sc.peers[p].st, t.sc.peers[p].base, t.sc.peers[p].height>>],
                   bst |-> t.sc.bst, pend |-> t.sc.pend, rcvd |-> t.sc.rcvd, dead |-> t.sc.dead],
           nsc |-> Len(t.scIn), npc |-> Len(t.pcIn), phase |-> t.phase]
Dump == PrintT(ToJson([h |-> hist', o |-> Obs(r')]))
=================================================================================
