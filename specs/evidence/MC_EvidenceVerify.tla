---------------------------- MODULE MC_EvidenceVerify ----------------------------
(***************************************************************************************)
(* Every abstract evidence a peer can send: a well-formed BASE (validator, height,     *)
(* round, type, ordered pair of block ids - built like an honest observer would, also  *)
(* for validators that are no members at that height) with up to D FIELD MUTATIONS     *)
(* (every field of either vote, the stated powers, the evidence timestamp, every       *)
(* signature class of SigAlgebra), received by an empty pool at every chosen height.   *)
(* D = 1 is "every single-field mutation of a valid evidence"; D = 2, 3 reach the      *)
(* consistent multi-field forgeries (both votes moved to another height and re-signed  *)
(* by another key, ...), i.e. "all pairs of votes" within the mutation budget.         *)
(*                                                                                     *)
(* The graph has depth 1: (base, pool height) --mutations--> one case.  Every          *)
(* transition is printed (Dump) and replayed by harness/evidence TestVerifyReplay into *)
(* Reactor-decode + Pool.AddEvidence of a real pool over the real chain, and into the  *)
(* exported VerifyDuplicateVote with the real validator set of the evidence height.    *)
(***************************************************************************************)
EXTENDS Evidence, Json

CONSTANTS BVals, BHeights, BRounds, BTypes, BPairs,  \* the bases
          PoolHeights,                               \* pool heights
          HDom, RDom,                                \* values for mutated heights / rounds
          D                                          \* mutation budget (0..3)

VARIABLES ev, lh, out, why, nm
vars == <<ev, lh, out, why, nm>>

Bases == {Dve(v, h, r, t, p[1], p[2]) : v \in BVals, h \in BHeights, r \in BRounds, t \in BTypes, p \in BPairs}

(* ---- mutation atoms <<field, value>>.  Fields 1..7 = vote a (v, i, h, r, t, b, sig), 11..17 = vote b,  *)
(* 21 vp (delta, or 0 = absolute zero), 22 tp (delta), 23 ts (delta in ticks).                             *)
VoteAtoms(o) ==    {<<o + 1, x>> : x \in Vals} \cup {<<o + 2, x>> : x \in {0, 1}}
              \cup {<<o + 3, x>> : x \in HDom} \cup {<<o + 4, x>> : x \in RDom}
              \cup {<<o + 5, x>> : x \in {1, 2, 32}} \cup {<<o + 6, x>> : x \in BlockIds}
              \cup {<<o + 7, x>> : x \in Vals \cup {0, -9, -5, -6, -11, -12, -13}}
Atoms == VoteAtoms(0) \cup VoteAtoms(10) \cup {<<21, x>> : x \in {-1, 0, 1}} \cup {<<22, x>> : x \in {-1, 1}}
         \cup {<<23, x>> : x \in {-2, -1, 1, 2}}

(* changing a signed field afterwards leaves a signature over the old sign bytes *)
Stale(vt, code) == IF vt.sig = vt.v THEN code ELSE vt.sig
MutVote(vt, f, x) ==
  CASE f = 1 -> [vt EXCEPT !.v = x]            \* the address is not covered by the signature
    [] f = 2 -> [vt EXCEPT !.i = x]            \* neither is the index
    [] f = 3 -> IF x = vt.h THEN vt ELSE [vt EXCEPT !.h = x, !.sig = Stale(vt, -1)]
    [] f = 4 -> IF x = vt.r THEN vt ELSE [vt EXCEPT !.r = x, !.sig = Stale(vt, -2)]
    [] f = 5 -> IF x = vt.t THEN vt ELSE [vt EXCEPT !.t = x, !.sig = Stale(vt, -3)]
    [] f = 6 -> IF x = vt.b THEN vt ELSE [vt EXCEPT !.b = x, !.sig = Stale(vt, -4)]
    [] f = 7 -> [vt EXCEPT !.sig = x]          \* applied last: a signature over the final sign bytes (or junk)
Mut(e, m) ==
  CASE m[1] < 10 -> [e EXCEPT !.a = MutVote(e.a, m[1], m[2])]
    [] m[1] < 20 -> [e EXCEPT !.b = MutVote(e.b, m[1] - 10, m[2])]
    [] m[1] = 21 -> [e EXCEPT !.vp = IF m[2] = 0 THEN 0 ELSE @ + m[2]]
    [] m[1] = 22 -> [e EXCEPT !.tp = @ + m[2]]
    [] m[1] = 23 -> [e EXCEPT !.ts = @ + m[2]]

Accepts(L, e) == Recv(EmptyPool(L), e).res = "added"

(* one initial state per (base, pool height): TLC's workers share the bases *)
Init == ev \in Bases /\ lh \in PoolHeights /\ out = "init" /\ why = "-" /\ nm = 0

Case(e, n) == LET r == Recv(EmptyPool(lh), e)
              IN ev' = e /\ lh' = lh /\ out' = r.res /\ why' = r.why /\ nm' = n

(* atoms are applied in field order, so a signature atom (7 / 17) is applied after the vote's other fields *)
Next == /\ out = "init"
        /\ \/ Case(ev, 0)
           \/ D >= 1 /\ \E m1 \in Atoms : Mut(ev, m1) # ev /\ Case(Mut(ev, m1), 1)
           \/ D >= 2 /\ \E m1, m2 \in Atoms : m1[1] < m2[1] /\ Case(Mut(Mut(ev, m1), m2), 2)
           \/ D >= 3 /\ \E m1, m2, m3 \in Atoms : m1[1] < m2[1] /\ m2[1] < m3[1]
                                                  /\ Case(Mut(Mut(Mut(ev, m1), m2), m3), 3)
Spec == Init /\ [][Next]_vars
View == <<ev, lh, out>>

(* ---- the property on this model ---------------------------------------------------------------------- *)
(* whatever a pool accepts from a peer is a real equivocation of a member of that height's set, states the  *)
(* punishable facts correctly, and is not expired *)
OnlyRealEquivocators == out = "added" => /\ RealEquivocation(ev) /\ StatesFacts(ev)
                                         /\ ~Expired(EmptyPool(lh), EvH(ev), T(EvH(ev))) /\ EvH(ev) <= lh
(* conversely every real, correctly stated, unexpired equivocation with the right index is accepted *)
Complete == (out # "init" /\ RealEquivocation(ev) /\ StatesFacts(ev) /\ EvH(ev) <= lh /\ ValidateBasic(ev)
             /\ ev.a.i = 0 /\ ev.b.i = 0 /\ ~Expired(EmptyPool(lh), EvH(ev), T(EvH(ev)))) => out = "added"
(* every single-field mutation of an acceptable evidence is refused (evaluated in the initial states) *)
NoForged == (out = "init" /\ Accepts(lh, ev)) => \A m \in Atoms : Mut(ev, m) # ev => ~Accepts(lh, Mut(ev, m))

(* reachability companions: TLC must REFUTE them *)
NothingAccepted == out # "added"
NothingExpired == why # "expired"

(* c: the verdict of the exported VerifyDuplicateVote on its own; b: whether the evidence survives decoding *)
Dump == PrintT(ToJson([e |-> CompactEv(ev'), l |-> lh', r |-> out', w |-> why', n |-> nm',
                       c |-> VerifyCore(ev'), b |-> ValidateBasic(ev')]))
=================================================================================
