----------------------------- MODULE MC_EvidencePool -----------------------------
(***************************************************************************************)
(* Every history, up to Depth calls, of one evidence pool over a small universe of     *)
(* evidence items (valid ones at several heights, items that become valid / expire as  *)
(* the chain grows, forgeries):                                                        *)
(*    recv(k)      evidence k arrives from a peer        (Reactor.Receive/AddEvidence) *)
(*    cons(k)      consensus reports evidence k          (AddEvidenceFromConsensus)    *)
(*                 - for k in RawItems with the stamp consensus gives, not the facts   *)
(*    consb(k)     the same, but consensus saw the vote with the GREATER block key     *)
(*                 first (k in OrdItems: the two votes name the same block hash with   *)
(*                 different part-set hashes).  The evidence is the same: the driver   *)
(*                 builds it with types.NewDuplicateVoteEvidence(first, second) as     *)
(*                 consensus/state.go tryAddVote does                                  *)
(*    check(l)     a proposed block carries list l       (validateBlock/CheckEvidence) *)
(*    apply(l)     the next block, carrying l, is applied (ApplyBlock: check + Update) *)
(*    restart      the node restarts                      (NewPool on the same db)     *)
(* `hist` is hidden by the VIEW; every transition is printed (Dump) and replayed by    *)
(* harness/evidence TestPoolReplay into a real Pool over the real chain, comparing the *)
(* result class of every call and, after the last one, pending / committed / gossip    *)
(* list / Size() and PendingEvidence (= the proposable items) under every byte limit.    *)
(***************************************************************************************)
EXTENDS Evidence, Json

CONSTANTS Items,      \* sequence of evidence records; histories name them by index
          ConsItems,  \* indices consensus may report: real equivocations (the trusted path)
          RawItems,   \* those of them that consensus hands over with ITS stamp (time off the block time, total of
                      \* another set), as consensus/state.go tryAddVote does whenever its last-commit votes differ
                      \* from the block's: the pool has to state the facts of the height itself
          OrdItems,   \* indices for which both arrival orders of the two votes at consensus are tried
          Lists,      \* the block evidence lists tried (sequences of indices)
          L0,         \* height of the pool at the start
          Depth

VARIABLES st, chain, hist
vars == <<st, chain, hist>>

Idx == 1..Len(Items)
IdOf(e) == CHOOSE k \in Idx : Items[k] = e
Ids(S) == {IdOf(e) : e \in S}
EvList(l) == [k \in 1..Len(l) |-> Items[l[k]]]

ASSUME \A j, k \in Idx : j # k => Items[j] # Items[k]
ASSUME \A k \in ConsItems : RealEquivocation(Items[k]) /\ StatesFacts(Items[k])

(* the universe, for the driver *)
ASSUME PrintT(ToJson([items |-> [k \in Idx |-> CompactEv(Items[k])], l0 |-> L0, cons |-> ConsItems, raw |-> RawItems]))

Init == st = EmptyPool(L0) /\ chain = <<>> /\ hist = <<>>

Step(r, a) == st' = r.st /\ hist' = Append(hist, a \o <<r.res, r.why>>)

Next == /\ Len(hist) < Depth
        /\ \/ \E k \in Idx : Step(Recv(st, Items[k]), <<"recv", k>>) /\ UNCHANGED chain
           \/ \E k \in ConsItems : Step(ConsS(st, Items[k], k \in RawItems), <<"cons", k>>) /\ UNCHANGED chain
           \/ \E k \in OrdItems : Step(ConsS(st, Items[k], k \in RawItems), <<"consb", k>>) /\ UNCHANGED chain
           \/ \E l \in Lists : Step(Check(st, EvList(l)), <<"check", l>>) /\ UNCHANGED chain
           \/ \E l \in Lists \cup {<<>>} :
                 /\ st.h < Top
                 /\ LET r == Apply(st, EvList(l))
                    IN /\ Step(r, <<"apply", l>>)
                       /\ chain' = IF r.res = "applied" THEN Append(chain, [h |-> st.h + 1, l |-> l]) ELSE chain
           \/ Step([st |-> Restart(st), res |-> "ok", why |-> "-"], <<"restart", 0>>) /\ UNCHANGED chain
Spec == Init /\ [][Next]_vars
View == <<st, chain>>

(* ---- the property on this model ---------------------------------------------------------------------- *)
Committed == UNION {{c.l[k] : k \in 1..Len(c.l)} : c \in {chain[j] : j \in 1..Len(chain)}}
(* everything pending or committed names a validator that really signed both votes, with the right facts *)
OnlyRealEquivocators == \A e \in st.pend \cup st.comm : RealEquivocation(e) /\ StatesFacts(e)
(* no evidence is in the chain twice (neither inside one block nor in two blocks) *)
AtMostOnceInChain ==
  /\ \A j \in 1..Len(chain) : \A a, b \in 1..Len(chain[j].l) : a # b => chain[j].l[a] # chain[j].l[b]
  /\ \A i, j \in 1..Len(chain) : i # j => \A a \in 1..Len(chain[i].l), b \in 1..Len(chain[j].l) : chain[i].l[a] # chain[j].l[b]
(* evidence was not expired (nor from the future) for the block that carries it *)
FreshWhenCommitted == \A j \in 1..Len(chain) : \A a \in 1..Len(chain[j].l) :
   LET e == Items[chain[j].l[a]] IN EvH(e) < chain[j].h /\ ~Expired(EmptyPool(chain[j].h - 1), EvH(e), e.ts)
(* bookkeeping *)
Consistent == /\ st.comm = {Items[k] : k \in Committed} /\ st.pend \cap st.comm = {} /\ st.list \subseteq st.pend
              /\ st.raw \subseteq st.pend /\ \A e \in st.raw : EvH(e) > st.h   \* raw only while the block is missing
(* a double sign (validator, height, round, type) is committed at most once, whatever forms of it are offered *)
OneDoubleSignOnce == \A j, k \in Committed : j # k => DoubleSign(Items[j]) # DoubleSign(Items[k])
Inv == OnlyRealEquivocators /\ AtMostOnceInChain /\ FreshWhenCommitted /\ Consistent /\ OneDoubleSignOnce

(* reachability companions: TLC must REFUTE them (checks/C19.py), otherwise the invariants above are vacuous *)
NothingCommitted == Committed = {}
NoExpiredPending == \A e \in st.pend : ~PExpired(st, e)          \* the window of the lazy pruning is reachable
NoRawRestated == ~(st.raw = {} /\ \E j \in 1..Len(hist) : hist[j][1] \in {"cons", "consb"} /\ hist[j][2] \in RawItems /\ hist[j][3] = "added"
                     /\ EvH(Items[hist[j][2]]) > L0 /\ Items[hist[j][2]] \in st.pend)   \* reported raw, pending, restated
NoPruning == ~(\E k \in Idx : Items[k] \notin st.pend \cup st.comm /\ \E j \in 1..Len(hist) :
                   hist[j][1] \in {"recv", "cons", "consb"} /\ hist[j][2] = k /\ hist[j][3] = "added")   \* added, gone, never committed

Obs(t) == [h |-> t.h, p |-> Ids(t.pend), c |-> Ids(t.comm), g |-> Ids(t.list), q |-> Ids(Proposable(t)), w |-> Ids(t.raw)]
Dump == PrintT(ToJson([h |-> hist', o |-> Obs(st')]))
=================================================================================
