-------------------------------- MODULE Evidence --------------------------------
(***************************************************************************************)
(* The evidence pool of go-kardia: types/evidence/pool.go (Pool), types/evidence/      *)
(* verify.go (verify, VerifyDuplicateVote), types/evidence.go (DuplicateVoteEvidence,  *)
(* ValidateBasic) and the receive path of types/evidence/reactor.go.  Property C19:    *)
(*                                                                                     *)
(*   duplicate-vote evidence is accepted (from peers, from consensus, inside a         *)
(*   proposed block) ONLY IF it contains two differently-targeted votes for the same   *)
(*   height, round and type, both validly signed by one validator that belonged to the *)
(*   validator set OF THAT HEIGHT with the stated power, and is not expired or already *)
(*   committed; it is never included in the chain twice.                               *)
(*                                                                                     *)
(* Functional style: a pool is a record, every public call of the code is an operator  *)
(* returning [st |-> new pool, res |-> result class].  The same operators serve        *)
(*   MC_EvidenceVerify  every abstract evidence (valid base + up to D field mutations) *)
(*   MC_EvidencePool    every history of calls up to a depth, restart included         *)
(*   MC_EvidenceNet     correct nodes + one equivocating validator, end to end         *)
(* and each of them prints its transitions for the Go drivers in harness/evidence,     *)
(* which replay them into the real Pool over a real chain / into real nodes.           *)
(*                                                                                     *)
(* WHAT IS SPECIFIED AND WHAT IS MIRRORED.  Acceptance (Recv, Cons, Check, Proposable)  *)
(* is written AS THE PROPERTY DEMANDS.  Where the statement leaves the behaviour open  *)
(* the module mirrors the code so that specification and code stay in lock-step; these *)
(* places are marked MIRROR (the lazy pruning with its marks, the gossip list, the     *)
(* moment at which evidence reported by consensus gets the facts of its height).       *)
(*                                                                                     *)
(* NO NAMED DEVIATION IS LEFT.  What the checks found at the pinned revision, all      *)
(* repaired in /repo (the signatures are what harness/evidence reports if one of them  *)
(* comes back):                                                                        *)
(*   index      VerifyDuplicateVote ignored ValidatorIndex, which no signature covers: *)
(*              one offence gave many acceptable evidences       [fix 17251a2]         *)
(*              evidence:(recv|check|apply|verifyduplicatevote):accepted-invalid:index *)
(*   cons       AddEvidenceFromConsensus ignored the committed marks [fix c9c6095]     *)
(*              evidence:cons:added-although-committed                                 *)
(*   fastCheck  CheckEvidence trusted whatever was pending and PendingEvidence offered *)
(*              it: evidence of the height being decided, expired evidence the lazy    *)
(*              pruning still held                                [fix c5c292c]        *)
(*              evidence:(check|apply):accepted-invalid:(noheader|expired)             *)
(*              evidence:pending-evidence:returns-(unverifiable|expired)               *)
(*              evidence:e2e:proposed-unverifiable, evidence:e2e:sync-rejected:*       *)
(*   bytes      CreateProposalBlock passed the evidence COUNT limit as byte limit:     *)
(*              nothing was ever proposed                         [fix 657711a]        *)
(*              evidence:e2e:not-proposed                                              *)
(*   stamp      tryAddVote states the median of the observer's OWN last commit (and,   *)
(*              for late precommits, stated the CURRENT validator set): the pool now   *)
(*              restates evidence from consensus with the facts of the evidence height *)
(*              - at once when that block exists, else when it is applied              *)
(*              [fix 9931ec6]; late precommits are built with the set that cast them   *)
(*              and a nil evidence is not handed to the pool      [fix 20320ea]        *)
(*              evidence:e2e:misstamped:(time|power|total):(late|cur|cur-private-      *)
(*              precommit), evidence:state:raw:*, evidence:cons:*                      *)
(***************************************************************************************)
EXTENDS Integers, Sequences, FiniteSets, TLC

CONSTANTS
  Top,           \* heights 1..Top of the chain the pools look at
  Power,         \* Power[h][v], h \in 1..Top, v \in 1..NV: voting power of validator v in the set entitled to
                 \* sign height h (0: not a member).  The world of checks/C19.py: the set changes twice.
  MaxAgeBlocks,  \* ConsensusParams.Evidence.MaxAgeNumBlocks
  MaxAgeDur      \* ConsensusParams.Evidence.MaxAgeDuration, in ticks (2 ticks = the time between two blocks)

NV   == Len(Power[1])
Vals == 1..NV

(* ---- time.  Block 1 carries the genesis time, block h the time of block h-1 plus one interval (the     *)
(* harness runs the real nodes with a genesis in the far future, where consensus/state.go voteTime yields  *)
(* exactly "block time + iota").  Time is counted in ticks of half an interval so that a timestamp that is *)
(* NOT a block time (odd) exists.                                                                          *)
T(h) == IF h <= 1 THEN 0 ELSE 2 * (h - 1)

RECURSIVE SumPow(_, _)
SumPow(h, S) == IF S = {} THEN 0 ELSE LET v == CHOOSE x \in S : TRUE IN Power[h][v] + SumPow(h, S \ {v})
Total(h) == SumPow(h, Vals)

(* ---- block ids are small integers.  A real BlockID is (block hash, part-set header = (total, hash)):      *)
(*   0 = the nil id, 1 = a malformed id (a hash without a part-set header: refused by Vote.ValidateBasic),  *)
(*   2, 3, 4 = blocks "A" < "B" < "C" (different block hashes),                                             *)
(*   5 = the block hash of A with ANOTHER (greater) part-set hash,                                           *)
(*   6 = the block hash and part-set hash of A with another part-set TOTAL.                                  *)
(* BKey is the order of BlockID.Key() = block hash ++ part-set hash (the driver picks real ids that sort     *)
(* this way and asserts it).  Key() is what the code means by the TARGET of a vote: VoteSet tallies by it,   *)
(* two votes of one validator conflict iff their keys differ, DuplicateVoteEvidence.ValidateBasic demands    *)
(* strictly increasing keys from VoteA to VoteB, and NewDuplicateVoteEvidence orders the votes by it.  The   *)
(* part-set total is NOT part of the key: 2 and 6 are the same target (a second vote that differs only in    *)
(* the total lands in the same tally and is refused as a non-deterministic signature; no evidence exists for *)
(* the pair).  That is what this module specifies as "differently targeted": different Key().                *)
(* NAMED DEVIATION (harmless, no path reaches it): VerifyDuplicateVote on its own compares whole block ids   *)
(* (BlockID.Equal, total included) and would take 2 / 6 as different; evidence with equal keys never gets    *)
(* that far because every decoding (wire, block, the pool's own database) runs ValidateBasic.                *)
NilB == 0
BadB == 1
BKey(b) == CASE b = 0 -> 0 [] b = 1 -> 10 [] b = 2 -> 20 [] b = 6 -> 20 [] b = 5 -> 25 [] b = 3 -> 30 [] b = 4 -> 40 [] OTHER -> 99
BlockIds == 0..6

(* ---- votes and evidence.                                                                                *)
(*  v   : validator named by the vote (ValidatorAddress)                                                   *)
(*  i   : 0 = ValidatorIndex is v's index in the set of height h, 1 = some other index                     *)
(*  h,r : height, round        t : 1 prevote, 2 precommit, 32 = not a vote type                            *)
(*  b   : block id (integer, see above)                                                                    *)
(*  sig : the SigAlgebra abstraction of the signature bytes (specs/sig):                                   *)
(*          k \in Vals  : signed by the key of validator k over exactly this vote's sign bytes             *)
(*          0           : not a signature of anybody (random bytes)      -9 : empty                        *)
(*          -1 .. -6    : signed by v's own key over sign bytes that differ in one field                   *)
(*                        (-1 height, -2 round, -3 type, -4 block id, -5 vote timestamp, -6 chain id):     *)
(*                        what remains of a genuine signature when that field is changed afterwards        *)
(*          -11         : FORM - v's own valid signature (r, s, v) over exactly these sign bytes, re-encoded *)
(*                        as its "high-s twin" (r, N - s, v xor 1), which anybody computes without the key   *)
(*          -12         : the valid signature with the "compressed key" flag (v + 4)                         *)
(*          -13         : the valid signature with one more byte appended                                    *)
(*        The signature is valid iff sig = v.  ONE sign bytes, ONE acceptable signature encoding: every      *)
(*        other form of a genuine signature (-11, -12, -13) is refused at every entry (peer, proposed block, *)
(*        before / while / after the genuine evidence is pending or committed).  Evidence is identified by   *)
(*        its hash, which covers the signature bytes: a second acceptable form would be a second evidence of *)
(*        the same double sign that is "not yet committed" (types/signable.go VerifySignature: 65 bytes,     *)
(*        v in {0, 1}, low s).                                                                               *)
SigOK(vt) == vt.sig = vt.v

(*  Evidence = [a, b : votes, vp : ValidatorPower, tp : TotalVotingPower, ts : Timestamp (ticks)]          *)
EvH(e) == e.a.h      \* DuplicateVoteEvidence.Height()

(* A well-formed evidence for validator v at (h, r, t) with blocks BKey(b1) < BKey(b2), as an honest         *)
(* observer builds it (types.NewDuplicateVoteEvidence: the vote with the smaller key is VoteA, whichever    *)
(* of the two it saw first)                                                                                 *)
MkVote(v, h, r, t, b) == [v |-> v, i |-> 0, h |-> h, r |-> r, t |-> t, b |-> b, sig |-> v]
Dve(v, h, r, t, b1, b2) ==
  [a |-> MkVote(v, h, r, t, b1), b |-> MkVote(v, h, r, t, b2),
   vp |-> IF h \in 1..Top THEN Power[h][v] ELSE 0, tp |-> IF h \in 1..Top THEN Total(h) ELSE 0, ts |-> T(h)]

(* ---- types/evidence.go ValidateBasic + Vote.ValidateBasic: what survives decoding (reactor decodeMsg,    *)
(* block decoding).  Evidence that fails here never reaches the pool.                                      *)
VoteBasicOK(vt) == vt.t \in {1, 2} /\ vt.b # BadB /\ vt.sig # -9
ValidateBasic(e) == VoteBasicOK(e.a) /\ VoteBasicOK(e.b) /\ BKey(e.a.b) < BKey(e.b.b)

(* ---- the pool.                                                                                          *)
(*  h      : height of the pool's state (LastBlockHeight)                                                  *)
(*  pend   : evidence in the database under "evidence-pending"                                             *)
(*  comm   : evidence marked committed in the database                                                     *)
(*  list   : the in-memory list the reactor gossips from (evidenceList)                                    *)
(*  raw    : MIRROR - the part of pend that consensus reported for a height whose block does not exist yet  *)
(*           and that is therefore still stored with the stamp consensus gave it (consensus/state.go         *)
(*           tryAddVote: median of the observer's own last commit, current set), not with the facts of its  *)
(*           height.  Evidence records of this module always carry the facts; `raw` says which of them the   *)
(*           pool cannot recognise by that form yet.  Restated when the block of that height is applied.     *)
(*  pruneH, pruneT : MIRROR of pruningHeight / pruningTime (when the oldest pending evidence expires)      *)
EmptyPool(h) == [h |-> h, pend |-> {}, comm |-> {}, list |-> {}, raw |-> {}, pruneH |-> h, pruneT |-> T(h)]

(* pool.go isExpired / verify.go: BOTH ages must be exceeded *)
Expired(st, h, ts) == (st.h - h > MaxAgeBlocks) /\ (T(st.h) - ts > MaxAgeDur)

(* verify.go verify + VerifyDuplicateVote, as the property demands.  Returns "ok" or the first reason.     *)
Verify(st, e) ==
  LET h == EvH(e) IN
  IF ~(h \in 1..st.h) THEN "noheader"                      \* LoadBlockMeta(h) = nil (also: no validator set yet)
  ELSE IF e.ts # T(h) THEN "time"                          \* evidence time # time of block h
  ELSE IF Expired(st, h, T(h)) THEN "expired"
  ELSE IF Power[h][e.a.v] = 0 THEN "notval"                \* not in the set OF THAT HEIGHT
  ELSE IF e.a.h # e.b.h \/ e.a.r # e.b.r \/ e.a.t # e.b.t THEN "hrs"
  ELSE IF e.a.v # e.b.v THEN "addr"
  ELSE IF e.a.b = e.b.b THEN "sameblock"
  ELSE IF e.vp # Power[h][e.a.v] THEN "power"
  ELSE IF e.tp # Total(h) THEN "total"
  ELSE IF ~SigOK(e.a) THEN "siga"
  ELSE IF ~SigOK(e.b) THEN "sigb"
  ELSE IF e.a.i # 0 \/ e.b.i # 0 THEN "index"
  ELSE "ok"

(* the part of it that is the exported function VerifyDuplicateVote(evidence, chain id, validator set of the  *)
(* evidence height): everything that does not depend on the pool's position in the chain                    *)
VerifyCore(e) ==
  LET h == EvH(e) IN
  IF ~(h \in 1..Top) THEN "noset"
  ELSE IF Power[h][e.a.v] = 0 THEN "notval"
  ELSE IF e.a.h # e.b.h \/ e.a.r # e.b.r \/ e.a.t # e.b.t THEN "hrs"
  ELSE IF e.a.v # e.b.v THEN "addr"
  ELSE IF e.a.b = e.b.b THEN "sameblock"
  ELSE IF e.vp # Power[h][e.a.v] THEN "power"
  ELSE IF e.tp # Total(h) THEN "total"
  ELSE IF ~SigOK(e.a) THEN "siga"
  ELSE IF ~SigOK(e.b) THEN "sigb"
  ELSE IF e.a.i # 0 \/ e.b.i # 0 THEN "index"
  ELSE "ok"

(* ---- Reactor.Receive: decodeMsg (ValidateBasic) then Pool.AddEvidence.                                   *)
(* result classes: "malformed" (message refused, pool untouched), "dup" (already pending: no-op, no error), *)
(* "committed" (no-op, no error), "invalid" (ErrInvalidEvidence), "added".                                  *)
Recv(st, e) ==
  IF ~ValidateBasic(e) THEN [st |-> st, res |-> "malformed", why |-> "basic"]
  ELSE IF e \in st.pend \ st.raw THEN [st |-> st, res |-> "dup", why |-> "-"]
  ELSE IF e \in st.comm THEN [st |-> st, res |-> "committed", why |-> "-"]
  ELSE LET w == Verify(st, e) IN     \* (e \in raw: a height without block, refused like any such evidence)
       IF w # "ok" THEN [st |-> st, res |-> "invalid", why |-> w]
       ELSE [st |-> [st EXCEPT !.pend = @ \cup {e}, !.list = @ \cup {e}], res |-> "added", why |-> "-"]

(* ---- Pool.AddEvidenceFromConsensus: the trusted path (no verification: consensus saw both votes).        *)
(* `stamped` = consensus hands the evidence over with its own stamp rather than with the facts of the height *)
(* (what real consensus does whenever its last-commit votes differ from the block's).  The pool states the   *)
(* facts itself: at once when the block of the evidence height exists, otherwise (MIRROR) the evidence is    *)
(* pending in its raw form until that block is applied (Update).                                             *)
ConsS(st, e, stamped) ==
  IF e \in st.pend THEN [st |-> st, res |-> "dup", why |-> "-"]
  ELSE IF e \in st.comm THEN [st |-> st, res |-> "committed", why |-> "-"]
  ELSE [st |-> [st EXCEPT !.pend = @ \cup {e}, !.list = @ \cup {e},
                          !.raw = IF stamped /\ EvH(e) > st.h THEN @ \cup {e} ELSE @],
        res |-> "added", why |-> "-"]
Cons(st, e) == ConsS(st, e, FALSE)

(* ---- Pool.CheckEvidence(list): the evidence of a proposed block (cstate.validateBlock).                  *)
(* Items are processed in order; an item that is not pending yet is verified and stored as pending (in the  *)
(* database only, MIRROR: not in the gossip list); the first failure aborts, earlier side effects stay.     *)
(* As the property demands, EVERY item must be verifiable now, whether or not it is pending already (the     *)
(* code's fastCheck skips the verification only for pending evidence whose block exists and which is not     *)
(* expired: there the two coincide).                                                                         *)
RECURSIVE CheckFrom(_, _, _)
CheckFrom(st, l, k) ==
  IF k > Len(l) THEN [st |-> st, res |-> "ok", why |-> "-"]
  ELSE LET e == l[k] IN
       IF e \in st.comm THEN [st |-> st, res |-> "invalid", why |-> "committed"]
       ELSE LET w == Verify(st, e) IN
            IF w # "ok" THEN [st |-> st, res |-> "invalid", why |-> w]
            ELSE LET st1 == [st EXCEPT !.pend = @ \cup {e}] IN
                 IF \E j \in 1..(k - 1) : l[j] = e THEN [st |-> st1, res |-> "invalid", why |-> "duplicate"]
                 ELSE CheckFrom(st1, l, k + 1)
Check(st, l) == CheckFrom(st, l, 1)

(* ---- removeExpiredPendingEvidence (MIRROR): walks the pending keys in (height, hash) order, deletes     *)
(* while expired, stops at the first unexpired item and remembers when that one will expire.  The pool's    *)
(* own expiry test looks at the evidence's own height and timestamp.                                        *)
PExpired(st, e) == Expired(st, EvH(e), e.ts)
PruneNow(st) ==
  LET gone == {e \in st.pend : PExpired(st, e) /\ \A f \in st.pend : EvH(f) < EvH(e) => PExpired(st, f)}
      rest == st.pend \ gone
  IN IF rest = {} THEN [st EXCEPT !.pend = rest, !.list = @ \ gone, !.raw = @ \ gone, !.pruneH = st.h, !.pruneT = T(st.h)]
     ELSE LET m == CHOOSE e \in rest : \A f \in rest : EvH(e) <= EvH(f)
          IN [st EXCEPT !.pend = rest, !.list = @ \ gone, !.raw = @ \ gone,
                        !.pruneH = EvH(m) + MaxAgeBlocks + 1, !.pruneT = m.ts + MaxAgeDur]

(* ---- Pool.Update(state, block evidence): the block at height st.h+1 was applied.                         *)
(* MIRROR: the code prunes lazily - only when the new height / time passed pruneH / pruneT (+1 s, which is  *)
(* below one tick), i.e. one block after the oldest item expired.  Not a property violation by itself: the  *)
(* consequences (proposing or accepting expired evidence) are what Check and the network model decide.      *)
(* The restating of raw evidence of the applied height does NOT depend on the pruning marks.                 *)
Update(st, l) ==
  LET S   == {l[k] : k \in 1..Len(l)}
      st1 == [st EXCEPT !.h = @ + 1, !.comm = @ \cup S, !.pend = @ \ S, !.list = @ \ S,
                        !.raw = {e \in @ : EvH(e) > st.h + 1}]    \* restampEvidenceOfHeight: unconditional
  IN IF st1.pend # {} /\ st1.h > st.pruneH /\ T(st1.h) > st.pruneT THEN PruneNow(st1) ELSE st1

(* ---- BlockExecutor.ApplyBlock: validateBlock (CheckEvidence) then Update.                                *)
Apply(st, l) ==
  LET c == Check(st, l) IN
  IF c.res # "ok" THEN [st |-> c.st, res |-> "rejected", why |-> c.why]
  ELSE [st |-> Update(c.st, l), res |-> "applied", why |-> "-"]

(* ---- NewPool on an existing database (restart): expired pending evidence is dropped at once, the gossip  *)
(* list is rebuilt from the database.                                                                       *)
Restart(st) == LET p == PruneNow(st) IN [p EXCEPT !.list = p.pend]

(* ---- Pool.PendingEvidence(maxBytes): what a proposer puts into its block                                 *)
(* (BlockOperations.CreateProposalBlock).  As the property demands, a correct proposer offers only evidence  *)
(* every correct node can verify NOW: the block of the evidence height exists and the evidence is not        *)
(* expired.  The order is the key order of the database: height first; the order inside one height is by     *)
(* hash and left open here.  `n` = number of items that fit under the byte limit.                            *)
Proposable(st) == {e \in st.pend : EvH(e) <= st.h /\ ~PExpired(st, e)}
IsPendingPrefix(st, s, n) ==
  LET P == Proposable(st) IN
  /\ Len(s) = (IF n < Cardinality(P) THEN n ELSE Cardinality(P))
  /\ \A k \in 1..Len(s) : s[k] \in P
  /\ \A j, k \in 1..Len(s) : j < k => s[j] # s[k] /\ EvH(s[j]) <= EvH(s[k])
  /\ \A k \in 1..Len(s) : \A f \in P : EvH(f) < EvH(s[k]) => \E j \in 1..Len(s) : s[j] = f

(* ---- ground truth for the property: e proves that validator e.a.v signed two different targets at one   *)
(* (height, round, type) and was entitled to vote there.                                                   *)
RealEquivocation(e) ==
  /\ EvH(e) \in 1..Top /\ Power[EvH(e)][e.a.v] > 0
  /\ e.a.v = e.b.v /\ e.a.h = e.b.h /\ e.a.r = e.b.r /\ e.a.t = e.b.t /\ e.a.t \in {1, 2}
  /\ BKey(e.a.b) # BKey(e.b.b) /\ SigOK(e.a) /\ SigOK(e.b)
(* ... and states the punishable facts correctly *)
StatesFacts(e) == e.vp = Power[EvH(e)][e.a.v] /\ e.tp = Total(EvH(e)) /\ e.ts = T(EvH(e))

(* the offence an evidence is about (malleable fields removed): used for "one offence, one punishment" *)
Offence(e) == <<e.a.v, e.a.h, e.a.r, e.a.t, {e.a.b, e.b.b}>>
(* the double sign itself: whatever forms are offered, it is committed at most once *)
DoubleSign(e) == <<e.a.v, e.a.h, e.a.r, e.a.t>>

(* compact forms for the dumps read by the Go drivers: vote = <<v, i, h, r, t, b, sig>>, evidence = <<a, b, vp, tp, ts>> *)
Compact(vt) == <<vt.v, vt.i, vt.h, vt.r, vt.t, vt.b, vt.sig>>
CompactEv(e) == <<Compact(e.a), Compact(e.b), e.vp, e.tp, e.ts>>
=================================================================================
