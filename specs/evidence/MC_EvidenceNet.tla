------------------------------ MODULE MC_EvidenceNet ------------------------------
(***************************************************************************************)
(* End to end: correct nodes (each with the pool of Evidence.tla), Byzantine           *)
(* validators that equivocate (one offender per event; several events per behaviour:   *)
(* the second equivocation comes after the first was reported / committed, at the same *)
(* or another height, by the same or another offender), timely delivery.  One step =   *)
(* one height of the chain:                                                            *)
(*                                                                                     *)
(*   1. (optional) a Byzantine validator z shows conflicting votes to a set of         *)
(*      observers while they wait in the NewHeight step of height hh:                  *)
(*        kind 1 "cur"  : two votes of height hh, round r, type t   (consensus/state.go *)
(*                        tryAddVote -> cs.Votes)                                       *)
(*        kind 2 "late" : two precommits of height hh-1, commit round (tryAddVote ->   *)
(*                        cs.LastCommit)                                               *)
(*        kind 3 "again": the votes of the previous event of kind 1/t=2 once more, now *)
(*                        as late precommits (replay)                                  *)
(*        kind 4 "priv" : like kind 1, but before that Priv hands the observers (and   *)
(*                        nobody else) its own precommit of height hh-1 with an early  *)
(*                        time stamp, so that their last-commit vote sets differ from  *)
(*                        the proposer's.  Irrelevant here - the evidence states the   *)
(*                        time of block hh whatever the observer's own votes say - but *)
(*                        not in consensus/state.go, which takes the median of the     *)
(*                        observer's OWN last commit.  Run with a genesis in the past  *)
(*                        (wall-clock vote times), where those medians differ.         *)
(*        kind 5 "bprop": Priv, as a proposer, offers every correct node a block that  *)
(*                        is fine except for its evidence list (variant: 1 a correct   *)
(*                        validator framed with votes signed by Priv, 2 evidence that  *)
(*                        is in the chain already, 3 a real equivocation nobody saw,   *)
(*                        4 that one twice, 5 that one with a junk signature); the     *)
(*                        nodes validate it (cstate.validateBlock -> Check); it is not *)
(*                        decided.                                                     *)
(*      Each observer hands the evidence to its pool (Cons).  As the property demands, *)
(*      the evidence states the facts of ITS height: time of block h, set of height h. *)
(*   1b. gossip (as in 3) while the peers are still at height hh: evidence of height   *)
(*      hh is held back by the sender, evidence of earlier heights travels.            *)
(*   2. the first correct proposer of height hh proposes; its block carries            *)
(*      Proposable(its pool); every correct node validates and applies it (Apply).     *)
(*   3. gossip as the evidence reactor does it: every node sends every item of its     *)
(*      list to every peer whose height is above the evidence height and for which the *)
(*      evidence is not too old (reactor.go prepareEvidenceMessage); the peer receives *)
(*      it (Recv).                                                                     *)
(*   4. (optional) one node restarts (pool re-opened from its database).               *)
(*                                                                                     *)
(* Every complete behaviour (MaxH heights) is printed with the expected block contents *)
(* and pool projections per height, and executed by harness/evidence TestNetReplay on  *)
(* REAL consensus nodes (real tryAddVote, CreateProposalBlock, validateBlock,          *)
(* ApplyBlock with the staking DoubleSign call, pools re-opened from the database).    *)
(***************************************************************************************)
EXTENDS Evidence, Json

CONSTANTS Nodes,      \* correct validators running nodes
          Byzs,       \* the validators that may equivocate (their keys are held by the environment); an offender
                      \* must be in the set of the evidence height
          Priv,       \* the Byzantine validator that plays the private precommit (kind 4) and the proposer (kind 5)
          Prop,       \* Prop[h] = the correct validator whose proposal is decided at height h under timely
                      \* delivery (first round of height h whose proposer is correct; from the real rotation)
          MaxH,       \* heights decided per behaviour
          EqHeights,  \* heights at which an event may happen
          ObsSets,    \* the sets of observers tried
          Kinds,      \* the kinds of events generated (subset of 1..5)
          MaxEvents, MaxRestarts

VARIABLES hh, pool, chain, born, last, hist, nev, nrs
vars == <<hh, pool, chain, born, last, hist, nev, nrs>>

NoEv == <<0, 0, 0, {}, 0, 0>>   \* event = <<kind, round, type, observers, offender, block pair>>

(* block pair of an event (kinds 1 and 4, prevotes of round 1 only; 0 everywhere else):                     *)
(*   0  two different block hashes (prevotes 2/3; precommits nil/2; late precommits nil/3)                   *)
(*   1  the SAME block hash with two part-set hashes (2/5), the vote with the smaller key arrives first     *)
(*   2  the same, the vote with the greater key arrives first - the evidence is the same                    *)
(*   3  the same block hash and part-set hash with two part-set TOTALS (2/6): one target (Evidence.tla       *)
(*      BKey), the second vote is a non-deterministic signature for consensus, there is NO evidence         *)

(* the evidence an observer reports for an event at height h (kind, round, type): blocks 2/3 for prevotes, *)
(* nil/2 for precommits; round 0 stands for "the commit round of that height" (resolved by the driver)      *)
(* (a late event uses nil/3 so that it is a different pair of votes than an earlier event of that height)  *)
EvOf(z, h, r, t) == IF t = 1 THEN Dve(z, h, r, 1, 2, 3) ELSE Dve(z, h, r, 2, 0, 2)
EventEvidence(ev, h) ==
  CASE ev[1] \in {1, 4} /\ ev[6] \in {1, 2} -> Dve(ev[5], h, ev[2], ev[3], 2, 5)
    [] ev[1] \in {1, 4} /\ ev[6] = 3 -> Dve(ev[5], h, ev[2], ev[3], 2, 6)      \* (not evidence: the votes to show)
    [] ev[1] \in {1, 4} -> EvOf(ev[5], h, ev[2], ev[3])
    [] ev[1] = 2 -> Dve(ev[5], h - 1, 0, 2, 0, 3)
    [] ev[1] = 3 -> EvOf(ev[5], h - 1, last.ev[2], 2)
(* the two votes in the order in which the observers see them *)
Shown(ev, h) == LET e == EventEvidence(ev, h)
                IN IF ev[6] = 2 THEN <<Compact(e.b), Compact(e.a)>> ELSE <<Compact(e.a), Compact(e.b)>>
Off(h) == {z \in Byzs : h \in 1..Top /\ Power[h][z] > 0}

(* the evidence in the chain so far, in order *)
RECURSIVE Flat(_, _)
Flat(c, j) == IF j > Len(c) THEN <<>> ELSE c[j].l \o Flat(c, j + 1)
ChainEvidence == Flat(chain, 1)
(* the evidence lists of a Byzantine proposal at height h *)
Fresh(h) == Dve(Priv, h - 1, 2, 1, 2, 4)
ByzList(v, h) ==
  CASE v = 1 -> <<[Dve(CHOOSE n \in Nodes : TRUE, h - 1, 1, 1, 2, 3) EXCEPT !.a.sig = Priv, !.b.sig = Priv]>>
    [] v = 2 -> <<ChainEvidence[1]>>
    [] v = 3 -> <<Fresh(h)>>
    [] v = 4 -> <<Fresh(h), Fresh(h)>>
    [] v = 5 -> <<[Fresh(h) EXCEPT !.b.sig = 0]>>

Events(h) == {NoEv} \cup
  (IF h \in EqHeights /\ nev < MaxEvents
   THEN (IF 1 \in Kinds THEN {<<1, r, t, O, z, 0>> : r \in {1, 2}, t \in {1, 2}, O \in ObsSets, z \in Off(h)}
                               \cup {<<1, 1, 1, O, z, bp>> : O \in ObsSets, z \in Off(h), bp \in {1, 2, 3}} ELSE {})
        \cup (IF 2 \in Kinds /\ h >= 2 THEN {<<2, 0, 2, O, z, 0>> : O \in ObsSets, z \in Off(h - 1)} ELSE {})
        \cup (IF 3 \in Kinds /\ h >= 2 /\ last.h = h - 1 /\ last.ev[1] = 1 /\ last.ev[3] = 2 /\ last.ev[2] = 1
              THEN {<<3, 0, 2, last.ev[4], last.ev[5], 0>>} ELSE {})
        \cup (IF 4 \in Kinds /\ h >= 2 THEN {<<4, 1, t, O, z, 0>> : t \in {1, 2}, O \in ObsSets, z \in Off(h)}
                                              \cup {<<4, 1, 1, O, z, 1>> : O \in ObsSets, z \in Off(h)} ELSE {})
        \cup (IF 5 \in Kinds /\ h >= 2 /\ Priv \in Off(h - 1)
              THEN {<<5, v, 0, {}, Priv, 0>> : v \in (IF Len(ChainEvidence) > 0 THEN 1..5 ELSE {1, 3, 4, 5})} ELSE {})
   ELSE {})

Init == /\ hh = 1 /\ pool = [n \in Nodes |-> EmptyPool(0)] /\ chain = <<>> /\ born = {}
        /\ last = [ev |-> NoEv, h |-> 0] /\ hist = <<>> /\ nev = 0 /\ nrs = 0

RECURSIVE SeqOfSet(_)
SeqOfSet(S) == IF S = {} THEN <<>>
               ELSE LET e == CHOOSE x \in S : \A y \in S : EvH(x) <= EvH(y) IN <<e>> \o SeqOfSet(S \ {e})

(* gossip from every node's list to every peer (one round over a full mesh) *)
SendOK(st, peerH, e) == peerH > EvH(e) /\ peerH - EvH(e) <= MaxAgeBlocks   \* prepareEvidenceMessage
RECURSIVE RecvAll(_, _)
RecvAll(st, S) == IF S = {} THEN st ELSE LET e == CHOOSE x \in S : TRUE IN RecvAll(Recv(st, e).st, S \ {e})
Offered(P, m, peerH) == UNION {{e \in P[n].list : SendOK(P[n], peerH, e)} : n \in Nodes \ {m}}
Gossip(P, peerH) == [m \in Nodes |-> RecvAll(P[m], Offered(P, m, peerH))]
(* the result classes of all deliveries (for ProducedIsAccepted) *)
GossipResults(P, peerH) == UNION {{Recv(P[m], e).res : e \in Offered(P, m, peerH)} : m \in Nodes}

Height(ev, rs) ==
  LET shows == ev # NoEv /\ ev[1] # 5            \* votes are shown to the observers ...
      isEq  == shows /\ ev[6] # 3                  \* ... and they are an equivocation
      e     == IF isEq THEN EventEvidence(ev, hh) ELSE Fresh(hh)
      bl   == IF ev[1] = 5 THEN ByzList(ev[2], hh) ELSE <<>>
      B    == [n \in Nodes |-> Check(pool[n], bl)]
      P1   == IF ev[1] = 5 THEN [n \in Nodes |-> B[n].st]
              ELSE IF isEq THEN [n \in Nodes |-> IF n \in ev[4] THEN Cons(pool[n], e).st ELSE pool[n]]
              ELSE pool
      g1   == GossipResults(P1, hh)          \* gossip while height hh is being decided: peers are at height hh
      P1g  == Gossip(P1, hh)
      p    == Prop[hh]
      blk  == SeqOfSet(Proposable(P1g[p]))
      A    == [n \in Nodes |-> Apply(P1g[n], blk)]
      P2   == [n \in Nodes |-> A[n].st]
      gres == g1 \cup GossipResults(P2, hh + 1)
      P3   == Gossip(P2, hh + 1)
      P4   == [n \in Nodes |-> IF n = rs THEN Restart(P3[n]) ELSE P3[n]]
  IN /\ pool' = P4
     /\ chain' = Append(chain, [h |-> hh, l |-> blk, ok |-> \A n \in Nodes : A[n].res = "applied", g |-> gres])
     /\ born' = IF isEq \/ (ev[1] = 5 /\ ev[2] \in {3, 4}) THEN born \cup {<<e, hh>>} ELSE born
     /\ last' = IF ev = NoEv THEN last ELSE [ev |-> ev, h |-> hh]
     /\ nev' = IF ev = NoEv THEN nev ELSE nev + 1
     /\ nrs' = IF rs = 0 THEN nrs ELSE nrs + 1
     /\ hist' = Append(hist, [ev  |-> <<ev[1], ev[2], ev[3], ev[4], ev[5], ev[6]>>, rs |-> rs, pv |-> Priv,
                              e   |-> IF isEq THEN CompactEv(e) ELSE <<>>,
                              iv  |-> IF shows THEN Shown(ev, hh) ELSE <<>>,
                              bl  |-> [k \in 1..Len(bl) |-> CompactEv(bl[k])],
                              br  |-> [n \in Nodes |-> IF ev[1] = 5 THEN <<B[n].res, B[n].why>> ELSE <<"-", "-">>],
                              blk |-> [k \in 1..Len(blk) |-> CompactEv(blk[k])],
                              p   |-> [n \in Nodes |-> {CompactEv(x) : x \in P4[n].pend}],
                              c   |-> [n \in Nodes |-> {CompactEv(x) : x \in P4[n].comm}]])
     /\ hh' = hh + 1

Next == /\ hh <= MaxH
        /\ \E ev \in Events(hh), rs \in {0} \cup (IF nrs < MaxRestarts /\ hh >= 2 THEN Nodes ELSE {}) : Height(ev, rs)
Spec == Init /\ [][Next]_vars

(* ---- the property on this model ---------------------------------------------------------------------- *)
InChain(e) == \E j \in 1..Len(chain) : \E k \in 1..Len(chain[j].l) : chain[j].l[k] = e
(* the block of a correct proposer is accepted by every correct node *)
AllAccept == \A j \in 1..Len(chain) : chain[j].ok
(* evidence produced by a correct node is accepted by every correct node it is gossiped to *)
ProducedIsAccepted == \A j \in 1..Len(chain) : chain[j].g \subseteq {"added", "dup", "committed"}
(* evidence reported at height h is in the chain at the latest in block h+1 *)
EventuallyCommitted == \A b \in born : hh - 1 >= b[2] + 1 => InChain(b[1])
AtMostOnceInChain ==
  /\ \A j \in 1..Len(chain) : \A a, b \in 1..Len(chain[j].l) : a # b => chain[j].l[a] # chain[j].l[b]
  /\ \A i, j \in 1..Len(chain) : i # j => \A a \in 1..Len(chain[i].l), b \in 1..Len(chain[j].l) : chain[i].l[a] # chain[j].l[b]
OnlyRealEquivocators == \A n \in Nodes : \A e \in pool[n].pend \cup pool[n].comm : RealEquivocation(e) /\ StatesFacts(e)
(* evidence in block h is about a height below h and not expired *)
FreshInBlock == \A j \in 1..Len(chain) : \A k \in 1..Len(chain[j].l) :
   EvH(chain[j].l[k]) < chain[j].h /\ ~Expired(EmptyPool(chain[j].h - 1), EvH(chain[j].l[k]), chain[j].l[k].ts)
Inv == AllAccept /\ ProducedIsAccepted /\ EventuallyCommitted /\ AtMostOnceInChain /\ OnlyRealEquivocators /\ FreshInBlock

(* reachability companions: TLC must REFUTE them (checks/C19.py), otherwise the invariants above are vacuous *)
NoEvidenceInChain == ChainEvidence = <<>>
NoRestartWithPending == \A k \in 1..Len(hist) : hist[k].rs = 0 \/ hist[k].p[hist[k].rs] = {}

(* only complete behaviours are printed *)
Dump == hh' = MaxH + 1 => PrintT(ToJson([s |-> hist']))
=================================================================================
