---------------------------- MODULE MC_ValidatorSet ----------------------------
(* Exhaustive histories of Increment(times) and UpdateWithChangeSet(changes) over  *)
(* a small address/power universe, with a per-transition dump for replay into the  *)
(* real types.ValidatorSet.                                                        *)
EXTENDS ValidatorSet, Json

CONSTANTS Addrs, Powers, Depth, MaxTimes, InitPowers, BadPowers

VARIABLES vals, proposer, hist
vars == <<vals, proposer, hist>>

InitChs == [i \in 1..Len(InitPowers) |-> [a |-> i, p |-> InitPowers[i]]]
Init == /\ LET r == NewSet(InitChs) IN vals = r.v /\ proposer = r.prop
        /\ hist = <<>>

Change == [a : Addrs, p : Powers \cup {0} \cup BadPowers]

DoInc(t) == LET r == IncrementOp(vals, t)
            IN /\ vals' = r.v /\ proposer' = r.prop
               /\ hist' = Append(hist, <<"inc", t>>)
DoUpd(chs) == LET r == UpdateOp(vals, chs)
              IN /\ vals' = r.v /\ UNCHANGED proposer
                 /\ hist' = Append(hist, <<"upd", chs, r.res>>)
Next == /\ Len(hist) < Depth
        /\ \/ \E t \in 1..MaxTimes : DoInc(t)
           \/ \E c1 \in Change : DoUpd(<<c1>>)
           \/ \E c1, c2 \in Change : c1.a <= c2.a /\ (c1.a = c2.a => c1.p <= c2.p) /\ DoUpd(<<c1, c2>>)
Spec == Init /\ [][Next]_vars
View == <<vals, proposer>>

MaxPow == MaxS({vals[i].p : i \in 1..Len(vals)})
\* Window: rescaling brings the spread to <= 2*total before each rotation step, and every
\* rotation step adds at most (total + maxPower) to it
Window == Len(vals) > 0 => Diff(vals) <= 2 * TotalOf(vals) + MaxTimes * (TotalOf(vals) + MaxPow)
Inv == /\ WellFormed(vals) /\ Len(vals) > 0
       /\ Window
       /\ (hist # <<>> /\ hist[Len(hist)][1] = "upd" /\ hist[Len(hist)][3] = "ok" => WindowTight(vals) /\ Centred(vals))
\* all-or-nothing and order independence hold by construction of UpdateOp (a function of the
\* bag); the replay driver applies each change list in several orders to the real code.
AllOrNothing == [][\A c1, c2 \in Change : UpdateOp(vals, <<c1, c2>>).res # "ok" => UpdateOp(vals, <<c1, c2>>).v = vals]_vars

Dump == PrintT(ToJson([h |-> hist', v |-> vals', p |-> proposer']))
================================================================================
