------------------------------ MODULE MC_Rotation ------------------------------
(* Fairness of the specified rotation: after an arbitrary short prefix of updates  *)
(* and rotations, the set is left static and rotated round by round.               *)
(*   FairShare    : in every window of `total` consecutive rounds of a static set   *)
(*                  validator i proposes power_i +/- FairC times                    *)
(*   NoStarvation : after a set change every validator proposes within             *)
(*                  StarveD * ceil(total/power_i) + n rounds                        *)
(* The constants are what TLC establishes for the SPECIFICATION; the code is held   *)
(* to the specification step by step by the replay of the same behaviours.          *)
EXTENDS ValidatorSet, Json

CONSTANTS Addrs, Powers, Pre, Windows, InitPowers, FairC, StarveD

VARIABLES vals, proposer, hist, props
vars == <<vals, proposer, hist, props>>

InitChs == [i \in 1..Len(InitPowers) |-> [a |-> i, p |-> InitPowers[i]]]
Init == /\ LET r == NewSet(InitChs) IN vals = r.v /\ proposer = r.prop
        /\ hist = <<>> /\ props = <<>>

Change == [a : Addrs, p : Powers \cup {0}]
DoInc(t) == LET r == IncrementOp(vals, t)
            IN /\ vals' = r.v /\ proposer' = r.prop
               /\ hist' = Append(hist, <<"inc", t>>)
               /\ props' = IF t = 1 THEN Append(props, r.prop) ELSE <<>>
DoUpd(chs) == LET r == UpdateOp(vals, chs)
              IN /\ r.res = "ok"
                 /\ vals' = r.v /\ UNCHANGED proposer
                 /\ hist' = Append(hist, <<"upd", chs, r.res>>)
                 /\ props' = <<>>
Next == IF Len(hist) < Pre
        THEN \/ DoInc(1) \/ DoInc(3)
             \/ \E c1 \in Change : DoUpd(<<c1>>)
        ELSE Len(props) < Windows * TotalOf(vals) /\ DoInc(1)
Spec == Init /\ [][Next]_vars
View == <<vals, proposer, props>>

T == TotalOf(vals)
CountIn(a, from, to) == Cardinality({k \in from..to : props[k] = a})
Abs(x) == IF x < 0 THEN -x ELSE x
FairShare == \A s \in 1..(Len(props) - T + 1) : \A i \in 1..Len(vals) :
                Abs(CountIn(vals[i].a, s, s + T - 1) - vals[i].p) <= FairC
CeilDiv(x, y) == (x + y - 1) \div y
NoStarvation == \A i \in 1..Len(vals) :
                  (\A k \in 1..Len(props) : props[k] # vals[i].a)
                     => Len(props) <= StarveD * CeilDiv(T, vals[i].p) + Len(vals)
Dump == PrintT(ToJson([h |-> hist', v |-> vals', p |-> proposer']))
================================================================================
