------------------------------ MODULE ValidatorSet ------------------------------
(***************************************************************************)
(* Proposer rotation and validator-set updates AS SPECIFIED (Tendermint     *)
(* proposer-selection procedure, restated by property C12) and as           *)
(* structured in types/validator_set.go:                                    *)
(*   IncrementProposerPriority = RescalePriorities(2*total);                *)
(*                               shiftByAvgProposerPriority;                *)
(*                               times x incrementProposerPriority          *)
(*   updateWithChangeSet       = processChanges; verifyRemovals;            *)
(*                               verifyUpdates; (empty check);              *)
(*                               computeNewPriorities; applyUpdates;        *)
(*                               applyRemovals; RescalePriorities;          *)
(*                               shiftByAvg; sort by (power desc, addr asc) *)
(* A validator is a record [a, p, prio]; a set is a sequence in the code's  *)
(* order.  Functional style: operators return the new value.                *)
(***************************************************************************)
EXTENDS Integers, Sequences, FiniteSets, TLC

CONSTANTS Cap      \* MaxTotalVotingPower (MaxInt64/8 in the code; small here, see MC_ValidatorSet)

TruncDiv(a, b) == IF a >= 0 THEN a \div b ELSE -((-a) \div b)   \* Go's integer division
RECURSIVE SumPw(_)
SumPw(s) == IF s = <<>> THEN 0 ELSE Head(s).p + SumPw(Tail(s))
RECURSIVE SumPr(_)
SumPr(s) == IF s = <<>> THEN 0 ELSE Head(s).prio + SumPr(Tail(s))
TotalOf(v) == SumPw(v)
MaxS(S) == CHOOSE x \in S : \A y \in S : y <= x
MinS(S) == CHOOSE x \in S : \A y \in S : x <= y
Prios(v) == {v[i].prio : i \in 1..Len(v)}
Diff(v) == MaxS(Prios(v)) - MinS(Prios(v))          \* computeMaxMinPriorityDiff

\* RescalePriorities(diffMax): divide by ceil(diff/diffMax) when the window is exceeded
Rescale(v, diffMax) ==
  IF diffMax <= 0 THEN v
  ELSE LET d == Diff(v)
           ratio == (d + diffMax - 1) \div diffMax
       IN IF d > diffMax THEN [i \in 1..Len(v) |-> [v[i] EXCEPT !.prio = TruncDiv(@, ratio)]] ELSE v

\* shiftByAvgProposerPriority: subtract floor(sum/n)  (big.Int.Div is Euclidean; n > 0 => floor)
ShiftByAvg(v) ==
  LET n == Len(v)
      avg == SumPr(v) \div n
  IN [i \in 1..n |-> [v[i] EXCEPT !.prio = @ - avg]]

\* getValWithMostPriority: highest priority, ties to the smaller address
Most(v) == CHOOSE i \in 1..Len(v) : \A j \in 1..Len(v) :
              v[i].prio > v[j].prio \/ (v[i].prio = v[j].prio /\ v[i].a <= v[j].a)

\* incrementProposerPriority (once)
IncOnce(v) ==
  LET v1 == [i \in 1..Len(v) |-> [v[i] EXCEPT !.prio = @ + v[i].p]]
      m == Most(v1)
  IN [v |-> [v1 EXCEPT ![m].prio = @ - TotalOf(v)], prop |-> v1[m].a]

RECURSIVE IncTimes(_, _, _)
IncTimes(v, prop, k) == IF k = 0 THEN [v |-> v, prop |-> prop]
                        ELSE LET r == IncOnce(v) IN IncTimes(r.v, r.prop, k - 1)

\* IncrementProposerPriority(times), times >= 1
IncrementOp(v, times) ==
  LET v1 == ShiftByAvg(Rescale(v, 2 * TotalOf(v))) IN IncTimes(v1, 0, times)

\* ValidatorsByVotingPower: power descending, address ascending
Before(x, y) == x.p > y.p \/ (x.p = y.p /\ x.a < y.a)
RECURSIVE SortSet(_)
SortSet(S) == IF S = {} THEN <<>>
              ELSE LET m == CHOOSE x \in S : \A y \in S : x = y \/ Before(x, y)
                   IN <<m>> \o SortSet(S \ {m})
ToSet(v) == {v[i] : i \in 1..Len(v)}
Has(v, a) == \E i \in 1..Len(v) : v[i].a = a
Get(v, a) == v[CHOOSE i \in 1..Len(v) : v[i].a = a]

RECURSIVE SumSet(_)
SumSet(S) == IF S = {} THEN 0 ELSE LET x == CHOOSE y \in S : TRUE IN x[2] + SumSet(S \ {x})

(* updateWithChangeSet(changes, allowDeletes = TRUE).  changes is a BAG given as a       *)
(* sequence of [a, p] (so that duplicates can be expressed); the result depends only on   *)
(* the bag's content, never on its order.  Error classes in the code's order:             *)
(*   "dup" "neg" "big" (processChanges)  "unknown" (verifyRemovals)  "overflow"           *)
(*   (verifyUpdates)  "empty".                                                            *)
UpdateOp(v, chs) ==
  LET changes == {chs[i] : i \in 1..Len(chs)}
      addrs == {c.a : c \in changes}
      dup == Cardinality(addrs) # Len(chs)
      dels == {c \in changes : c.p = 0}
      upds == {c \in changes : c.p > 0}
      unknownDel == \E c \in dels : ~Has(v, c.a)
      removed == SumSet({<<c.a, Get(v, c.a).p>> : c \in {d \in dels : Has(v, d.a)}})
      delta(c) == IF Has(v, c.a) THEN c.p - Get(v, c.a).p ELSE c.p
      sumDelta == SumSet({<<c.a, delta(c)>> : c \in upds})
      \* verifyUpdates adds the deltas in ascending order, so the running total peaks at the end
      afterUpd == TotalOf(v) - removed + sumDelta
      numNew == Cardinality({c \in upds : ~Has(v, c.a)})
      T == afterUpd + removed           \* total after updates, before removals
      newPrio == -(T + (T \div 8))      \* -(T + T>>3)
      keep == {x \in ToSet(v) : x.a \notin addrs}
      changed == {[a |-> c.a, p |-> c.p, prio |-> IF Has(v, c.a) THEN Get(v, c.a).prio ELSE newPrio] : c \in upds}
      merged == SortSet(keep \cup changed)
      v2 == ShiftByAvg(Rescale(merged, 2 * TotalOf(merged)))
      err == CASE dup -> "dup"
               [] \E c \in changes : c.p < 0 -> "neg"
               [] \E c \in changes : c.p > Cap -> "big"
               [] unknownDel -> "unknown"
               [] afterUpd > Cap -> "overflow"
               [] numNew = 0 /\ Len(v) = Cardinality(dels) -> "empty"
               [] OTHER -> "ok"
  IN IF chs = <<>> THEN [res |-> "ok", v |-> v]
     ELSE IF err # "ok" THEN [res |-> err, v |-> v]             \* all-or-nothing
     ELSE [res |-> "ok", v |-> SortSet(ToSet(v2))]

\* NewValidatorSet(vals) = updateWithChangeSet(vals, no deletes) on the empty set, then Increment(1)
NewSet(chs) == LET r == UpdateOp(<<>>, chs) IN IncrementOp(r.v, 1)

(****************************** properties of a set ******************************)
\* sorted as the code keeps it, addresses unique, powers positive
WellFormed(v) == /\ \A i, j \in 1..Len(v) : i < j => Before(v[i], v[j])
                 /\ \A i \in 1..Len(v) : v[i].p > 0
                 /\ TotalOf(v) <= Cap
\* after Rescale+Shift (the state in which updates leave a set): window of 2*total
WindowTight(v) == Len(v) > 0 => Diff(v) <= 2 * TotalOf(v)
\* priorities are centred: |sum| < n
Centred(v) == Len(v) > 0 => (SumPr(v) >= 0 /\ SumPr(v) < Len(v))
=================================================================================
