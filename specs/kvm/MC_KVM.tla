------------------------------- MODULE MC_KVM -------------------------------
(***************************************************************************)
(* Program generator and model for KVMFrames.                               *)
(*                                                                          *)
(* A TLC state is one PROGRAM (a sequence of statements of a small assembly  *)
(* grammar) for contract A in one ENVIRONMENT (which library programs sit at *)
(* contracts B and C, call data, call value, pre-state, call or create).     *)
(* Next appends one statement from the alphabet Alpha, so a breadth-first    *)
(* search enumerates EVERY program of at most MaxLen statements, and         *)
(* -simulate draws random longer ones.  For each program the specification   *)
(* computes the FINAL machine state by running its small-step interpreter    *)
(* (KVMFrames!Run) to completion, checks the property clauses on it (Check,  *)
(* whose verdict is the variable chk and the invariant chk = ""), and prints *)
(* one JSON line: assembled byte code of A, environment, expected final      *)
(* state.  harness/kvm replays every line into the real kvm.KVM.             *)
(*                                                                          *)
(* The statement grammar, the assembler, the library programs of B and C,  *)
(* the pre-states World0 and the projection Obs are in KVMAsm.tla.           *)
(***************************************************************************)
EXTENDS KVMAsm

CONSTANTS Alpha,     \* set of statements
          MaxLen,    \* bound on the number of generated statements
          Prefix,    \* statements in front of the generated ones
          Suffix,    \* statements behind them
          Envs       \* set of environments <<b, c, cd, v, pre, mode>>

VARIABLES prog, env, chk
vars == <<prog, env, chk>>

Full(p) == Prefix \o p \o Suffix
Eval(p, e) == LET code == Asm(Full(p))
                  w0 == World0(e, code)
              IN Run(IF e[6] = 1 THEN StartCreate(w0, e[4], code) ELSE StartCall(w0, AddrA, e[4], CDs[e[3]]))

(***************************************************************************)
(* The property on the specification's own runs: Check names the first       *)
(* clause that fails for the final machine state f of program p in           *)
(* environment e ("" = all hold).                                            *)
(***************************************************************************)
Check(f, p, e) ==
  LET w0 == World0(e, Asm(Full(p))) IN
  IF f.halt \notin {"ok", "rev", "fail", "oom", "fuel"} THEN "Total"     \* Run is total: a result or an error
  ELSE IF ~Bounded(f) THEN "Bounded"                                     \* stack <= 1024, depth <= 1025
  ELSE IF ~StaticClean(f) THEN "StaticClean"                             \* no write in a static context
  ELSE IF ~Verdict(f) THEN ""
  ELSE IF ~JournalAgrees(f, w0) THEN "JournalAgrees"                     \* failed frames leave no change
  ELSE IF ~FailedTopClean(f, w0) THEN "FailedTopClean"
  ELSE IF ~NoValueCreated(f, w0) THEN "NoValueCreated"
  ELSE IF f.fr # <<RootFrame>> THEN "FramesPopped"
  ELSE ""

(***************************************************************************)
(* Judge evaluates the program once: it prints the dump line (assembled      *)
(* code, environment, projection of the final state) and returns Check.      *)
(* The final machine state itself is NOT kept in a TLC variable: it contains *)
(* lazily evaluated functions that TLC cannot write to its disk queue.       *)
(***************************************************************************)
Judge(p, e) == LET f == Eval(p, e)
                   c == Check(f, p, e)
               IN IF PrintT(ToJson([p |-> Asm(Full(p)), e |-> e, f |-> Obs(f)])) THEN c ELSE c

Init == prog = <<>> /\ env \in Envs /\ chk = Judge(<<>>, env)
Next == \E s \in Alpha : /\ Len(prog) < MaxLen
                         /\ prog' = Append(prog, s)
                         /\ env' = env
                         /\ chk' = Judge(prog', env)
Spec == Init /\ [][Next]_vars
View == <<prog, env>>

Inv == chk = ""
=============================================================================
