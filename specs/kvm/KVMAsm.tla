------------------------------- MODULE KVMAsm -------------------------------
(***************************************************************************)
(* Shared by the model modules of KVMFrames: the statement grammar and its  *)
(* assembler, the library of callee programs, the pre-states, and the        *)
(* projection Obs of a final machine state that the Go driver compares.      *)
(*                                                                          *)
(* Statements <<tag, k, args>>:                                              *)
(*   <<"x", op, <<c1,..,cn>>>>  push cn, .., c1 (c1 ends on top), then the   *)
(*                               opcode op (op = -1: pushes only).  A        *)
(*                               constant 0..255 is PUSH1, 256..65535 PUSH2, *)
(*                               -1 PUSH32 ff..ff, -2 PUSH8 ff..ff ("all gas")*)
(*                               -(99+i) PUSHn Consts[i] (boundary catalogue)*)
(*   <<"j",  k, <<>>>>  PUSH1 offset(statement k); JUMP     (labels: the     *)
(*   <<"ji", k, <<>>>>  PUSH1 offset(statement k); JUMPI     assembler puts  *)
(*   <<"jd", k, <<>>>>  PUSH1 offset(statement k)+1; JUMP    the byte offset)*)
(*                      k = length + 1 is the offset just beyond the code;   *)
(*                      "jd" aims at the second byte of statement k: the     *)
(*                      data byte of a PUSH1 (0x5b there = JUMPDEST in data) *)
(*   <<"raw", 0, bytes>> literal bytes (PUSHn with data, truncated PUSH, ...) *)
(***************************************************************************)
EXTENDS KVMFrames, Json

(***************************************************************************)
(* Assembler                                                                 *)
(***************************************************************************)
\* the boundary catalogue around 2^31, 2^32, 2^63, 2^64 and 2^255 (constant code -(99 + i) pushes Consts[i]):
\* 2^16, 2^31-1, 2^31, 2^32-1, 2^32, 2^63-1, 2^63, 2^64-33, 2^64-32, 2^64-16, 2^64-1, 2^64, 2^64+1, 2^255
FF(n) == [i \in 1..n |-> 255]
ZZ(n) == [i \in 1..n |-> 0]
Consts == << <<1, 0, 0>>, <<127>> \o FF(3), <<128>> \o ZZ(3), FF(4), <<1>> \o ZZ(4), <<127>> \o FF(7), <<128>> \o ZZ(7),
             FF(7) \o <<223>>, FF(7) \o <<224>>, FF(7) \o <<240>>, FF(8), <<1>> \o ZZ(8), <<1>> \o ZZ(7) \o <<1>>, <<128>> \o ZZ(31) >>
PushC(c) == IF c <= -100 THEN <<PUSH1 + Len(Consts[-c - 99]) - 1>> \o Consts[-c - 99]
            ELSE IF c >= 0 /\ c < 256 THEN <<PUSH1, c>>
            ELSE IF c >= 256 /\ c < 65536 THEN <<PUSH1 + 1, c \div 256, c % 256>>
            ELSE IF c = -1 THEN <<PUSH32>> \o [i \in 1..32 |-> 255]
            ELSE IF c = -2 THEN <<PUSH1 + 7>> \o [i \in 1..8 |-> 255]
            ELSE <<>>
RECURSIVE PushAll(_, _)
PushAll(args, i) == IF i = 0 THEN <<>> ELSE PushC(args[i]) \o PushAll(args, i - 1)
StmtLen(s) == CASE s[1] = "x" -> Len(PushAll(s[3], Len(s[3]))) + (IF s[2] >= 0 THEN 1 ELSE 0)
                [] s[1] = "raw" -> Len(s[3])
                [] OTHER -> 3
RECURSIVE OffOf(_, _)
OffOf(p, k) == IF k <= 1 THEN 0 ELSE OffOf(p, k - 1) + StmtLen(p[k - 1])      \* byte offset of statement k
Target(p, k) == OffOf(p, IF k > Len(p) + 1 THEN Len(p) + 1 ELSE k)
StmtBytes(p, s) == CASE s[1] = "x" -> PushAll(s[3], Len(s[3])) \o (IF s[2] >= 0 THEN <<s[2]>> ELSE <<>>)
                     [] s[1] = "raw" -> s[3]
                     [] s[1] = "j"  -> <<PUSH1, Target(p, s[2]) % 256, JUMP>>
                     [] s[1] = "ji" -> <<PUSH1, Target(p, s[2]) % 256, JUMPI>>
                     [] s[1] = "jd" -> <<PUSH1, (Target(p, s[2]) + 1) % 256, JUMP>>
RECURSIVE AsmFrom(_, _)
AsmFrom(p, k) == IF k > Len(p) THEN <<>> ELSE StmtBytes(p, p[k]) \o AsmFrom(p, k + 1)
Asm(p) == AsmFrom(p, 1)

X(op, args) == <<"x", op, args>>
Raw(bytes) == <<"raw", 0, bytes>>
AddrA == 161  AddrB == 162  AddrC == 163
\* a call statement: all gas, input = memory [0, is), output to [32, 32 + os)
CallS(op, to, val, is, os) == IF op \in {CALL, CALLCODE} THEN X(op, <<-2, to, val, 0, is, 32, os>>)
                              ELSE X(op, <<-2, to, 0, is, 32, os>>)

(***************************************************************************)
(* Library of callee programs for contracts B and C.  Each one exercises one *)
(* frame rule; the enumerated program of A combines them.                    *)
(***************************************************************************)
\* init code used by creators: PUSH1 7, PUSH1 0, SSTORE, PUSH1 0x5b.. returns the 2-byte runtime "JUMPDEST STOP"
InitCode == <<96, 7, 96, 0, 85, 97, 91, 0, 96, 0, 82, 96, 2, 96, 30, 243>>
\* store InitCode (16 bytes) right-aligned in memory word 0 -> bytes [16, 32)
PutInit == <<Raw(<<PUSH1 + 15>> \o InitCode), X(MSTORE, <<0>>)>>
\*  1 write, succeed                      2 write, REVERT without data        3 write, undefined opcode 0xfe
\*  4 return 32 bytes (42)                 5 revert with 32 bytes (43)
\*  6 context probe: LOG1, then CALLER, CALLVALUE, ADDRESS into slots 1..3
\*  7 SELFDESTRUCT to A                    8 CALL C with value 1, flag into slot 4
\*  9 own write, CALL C, then RETURNDATASIZE and the first output word into slots 5, 6
\* 10 calls A back once (re-entrancy, guarded by slot 7)        11 echoes 32 bytes of call data
\* 12 STATICCALL C, flag and output into slots 4, 6             13 CREATE (value 1) of InitCode, address into slot 6
\* 14 DELEGATECALL C                      15 write, LOG0, SELFDESTRUCT to C  16 endless loop
\* 17 calls A back unguarded (mutual recursion down to the depth limit)
Lib == <<
  (* 1 *) <<X(SSTORE, <<0, 7>>), X(STOP, <<>>)>>,
  (* 2 *) <<X(SSTORE, <<0, 7>>), X(REVERT, <<0, 0>>)>>,
  (* 3 *) <<X(SSTORE, <<0, 7>>), X(254, <<>>)>>,
  (* 4 *) <<X(MSTORE, <<0, 42>>), X(RETURN, <<0, 32>>)>>,
  (* 5 *) <<X(MSTORE, <<0, 43>>), X(REVERT, <<0, 32>>)>>,
  (* 6 *) <<X(LOG0 + 1, <<0, 0, 9>>), X(CALLER, <<>>), X(SSTORE, <<1>>), X(CALLVALUE, <<>>), X(SSTORE, <<2>>),
            X(ADDRESS, <<>>), X(SSTORE, <<3>>), X(STOP, <<>>)>>,
  (* 7 *) <<X(SELFDESTRUCT, <<AddrA>>)>>,
  (* 8 *) <<CallS(CALL, AddrC, 1, 0, 0), X(SSTORE, <<4>>), X(STOP, <<>>)>>,
  (* 9 *) <<X(SSTORE, <<0, 7>>), CallS(CALL, AddrC, 0, 0, 32), X(POP, <<>>), X(RETURNDATASIZE, <<>>), X(SSTORE, <<5>>),
            X(MLOAD, <<32>>), X(SSTORE, <<6>>), X(STOP, <<>>)>>,
  (* 10 *) <<X(SLOAD, <<7>>), X(ISZERO, <<>>), <<"ji", 5, <<>>>>, X(STOP, <<>>), X(JUMPDEST, <<>>), X(SSTORE, <<7, 1>>),
             CallS(CALL, AddrA, 0, 0, 0), X(SSTORE, <<4>>), X(STOP, <<>>)>>,
  (* 11 *) <<X(CALLDATACOPY, <<0, 0, 32>>), X(RETURN, <<0, 32>>)>>,
  (* 12 *) <<CallS(STATICCALL, AddrC, 0, 0, 32), X(SSTORE, <<4>>), X(MLOAD, <<32>>), X(SSTORE, <<6>>), X(STOP, <<>>)>>,
  (* 13 *) PutInit \o <<X(CREATE, <<1, 16, 16>>), X(SSTORE, <<6>>), X(STOP, <<>>)>>,
  (* 14 *) <<CallS(DELEGATECALL, AddrC, 0, 0, 32), X(SSTORE, <<4>>), X(STOP, <<>>)>>,
  (* 15 *) <<X(SSTORE, <<0, 7>>), X(LOG0, <<0, 0>>), X(SELFDESTRUCT, <<AddrC>>)>>,
  (* 16 *) <<X(JUMPDEST, <<>>), <<"j", 1, <<>>>> >>,
  (* 17 *) <<CallS(CALL, AddrA, 0, 0, 0), X(SSTORE, <<4>>), X(STOP, <<>>)>>
>>
LibCode == [i \in 1..Len(Lib) |-> Asm(Lib[i])]
CDs == << <<>>, W(7), <<170, 187, 204, 221>> \o W(9) >>

(***************************************************************************)
(* Environment <<b, c, cd, v, pre, mode>>: library index at B and at C       *)
(* (0 = no account), call data index, value sent by Origin, pre-state        *)
(* variant (0: A has nothing; 1: A has balance 10 and slot 1 = 9, B has      *)
(* balance 3), mode 0 = kvm.Call to A, 1 = kvm.Create with the program as    *)
(* init code.                                                                *)
(***************************************************************************)
World0(e, codeA) ==
  LET acct(code, bal, st) == [EmptyAcct EXCEPT !.code = code, !.bal = bal, !.st = st]
      wO == (Origin :> [EmptyAcct EXCEPT !.bal = 1000])
      wA == IF e[6] = 1 THEN wO
            ELSE wO @@ (AddrA :> acct(codeA, IF e[5] = 1 THEN 10 ELSE 0,
                                      IF e[5] = 1 THEN SPut(EmptySt, W(1), W(9)) ELSE EmptySt))
      wB == IF e[1] = 0 THEN wA ELSE wA @@ (AddrB :> acct(LibCode[e[1]], IF e[5] = 1 THEN 3 ELSE 0, EmptySt))
  IN IF e[2] = 0 THEN wB ELSE wB @@ (AddrC :> acct(LibCode[e[2]], 0, EmptySt))

(***************************************************************************)
(* Projection of a final machine state (what the driver compares)            *)
(***************************************************************************)
RECURSIVE Trim(_)
Trim(w) == IF w = <<>> \/ w[1] # 0 THEN w ELSE Trim(Tail(w))       \* minimal big-endian bytes of a word
Obs(m) == [s |-> m.halt, r |-> m.ret, g |-> m.gf, n |-> m.n, h |-> m.hs,
           a |-> {[i |-> a, b |-> m.w[a].bal, n |-> m.w[a].nonce, d |-> m.w[a].sd,
                   c |-> IF a >= TokBase THEN m.w[a].code ELSE <<>>,
                   s |-> {<<Trim(k), Trim(m.w[a].st[k])>> : k \in DOMAIN m.w[a].st}] : a \in DOMAIN m.w},
           l |-> [i \in 1..Len(m.lg) |-> [a |-> m.lg[i].a, t |-> [j \in 1..Len(m.lg[i].t) |-> Trim(m.lg[i].t[j])],
                                          d |-> m.lg[i].d]]]
\* printed once, before the first state: the library byte code and the call data table
\* and the instruction table of the configured instruction set (valid opcodes, pops, pushes), which the
\* driver's opcode tour checks against the real jump table for all 256 byte values
ASSUME PrintT(ToJson([lib |-> LibCode, cds |-> CDs, init |-> InitCode, gal |-> Galaxias,
                      valid |-> [i \in 1..256 |-> ValidOp(i - 1)],
                      pops |-> [i \in 1..256 |-> Pops(i - 1)], pushes |-> [i \in 1..256 |-> Pushes(i - 1)],
                      writes |-> [i \in 1..256 |-> Writes(i - 1)]]))
=============================================================================
