SPECIFICATION Spec
CONSTANTS
  Stride = 16
INVARIANT Checked
CHECK_DEADLOCK FALSE
