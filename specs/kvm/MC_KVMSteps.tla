----------------------------- MODULE MC_KVMSteps -----------------------------
(***************************************************************************)
(* Step-wise model of KVMFrames for the DIRECTED limit configurations.      *)
(*                                                                          *)
(* Here a TLC state is one machine configuration and Next is exactly one    *)
(* KVMFrames!Step, so a behaviour IS one execution of the virtual machine   *)
(* and the invariants are evaluated on every intermediate configuration     *)
(* (MC_KVM only sees final ones).  Used for the programs that need thousands *)
(* of steps: the 1024-item stack limit (1024 vs 1025 pushes, straight-line   *)
(* and in a loop, DUP / PC on a full stack) and the call depth limit 1024    *)
(* (self-recursion through CALL, STATICCALL, DELEGATECALL, CALLCODE, mutual  *)
(* recursion A <-> B).  When the machine halts, the action constraint Dump   *)
(* prints a line of the same shape as MC_KVM's, which the same Go driver     *)
(* replays in the real machine.                                              *)
(*                                                                          *)
(* The VIEW is <<case, step counter>>: an execution is deterministic, the    *)
(* counter identifies the configuration, and fingerprinting 1025 frames with *)
(* their snapshots at every step would dominate the run.                     *)
(***************************************************************************)
EXTENDS KVMAsm

CONSTANTS Cases      \* subset of 1..NCases

Rep(n, s) == [i \in 1..n |-> s]                   \* n copies of statement s
P1 == X(-1, <<1>>)                                \* PUSH1 1

\* self-recursion through call kind op with a counter in storage slot 0 (= number of frames that ran);
\* slot 1 holds the flag of the outermost call
RecStore(op, to) == <<X(SLOAD, <<0>>), X(ADD, <<1>>), X(SSTORE, <<0>>),
                      CallS(op, to, 0, 0, 0), X(SSTORE, <<1>>), X(STOP, <<>>)>>
\* self-recursion in a static context: the counter travels in call data, the deepest counter in return data
RecStatic == <<X(CALLDATALOAD, <<0>>), X(ADD, <<1>>), X(MSTORE, <<0>>),
               X(STATICCALL, <<-2, AddrA, 0, 32, 0, 32>>), X(POP, <<>>), X(RETURN, <<0, 32>>)>>

\* <<program of A, environment>>
CaseDef == <<
  (* 1 *) << Rep(1024, P1) \o <<X(STOP, <<>>)>>,                                  <<0, 0, 1, 0, 0, 0>> >>,
  (* 2 *) << Rep(1025, P1) \o <<X(STOP, <<>>)>>,                                  <<0, 0, 1, 0, 0, 0>> >>,
  (* 3 *) << Rep(1024, P1) \o <<X(SWAP1, <<>>), X(ADD, <<>>), X(SSTORE, <<0>>), X(STOP, <<>>)>>, <<0, 0, 1, 0, 0, 0>> >>,
  (* 4 *) << Rep(1023, P1) \o <<X(DUP1, <<>>), X(DUP1, <<>>)>>,                    <<0, 0, 1, 0, 0, 0>> >>,
  (* 5 *) << Rep(1024, P1) \o <<X(PC, <<>>)>>,                                    <<0, 0, 1, 0, 0, 0>> >>,
  (* 6 *) << <<X(JUMPDEST, <<>>), P1, <<"j", 1, <<>>>> >>,                         <<0, 0, 1, 0, 0, 0>> >>,
  (* 7 *) << Rep(1017, P1) \o <<CallS(CALL, AddrB, 0, 0, 0), X(SSTORE, <<0>>), X(STOP, <<>>)>>, <<1, 0, 1, 0, 0, 0>> >>,
  (* 8 *) << RecStore(CALL, AddrA),                                                <<0, 0, 1, 0, 0, 0>> >>,
  (* 9 *) << RecStatic,                                                            <<0, 0, 2, 0, 0, 0>> >>,
  (* 10 *) << RecStore(DELEGATECALL, AddrA),                                       <<0, 0, 1, 0, 0, 0>> >>,
  (* 11 *) << RecStore(CALLCODE, AddrA),                                           <<0, 0, 1, 0, 0, 0>> >>,
  (* 12 *) << <<CallS(CALL, AddrB, 0, 0, 0), X(SSTORE, <<0>>), X(STOP, <<>>)>>,     <<17, 0, 1, 0, 0, 0>> >>
>>
\* case 12: B = library program 17 calls A back (unguarded mutual recursion A -> B -> A ...)

VARIABLES case, m
vars == <<case, m>>

Code(c) == Asm(CaseDef[c][1])
Start(c) == LET e == CaseDef[c][2]  w0 == World0(e, Code(c))
            IN StartCall(w0, AddrA, e[4], CDs[e[3]])
Init == case \in Cases /\ m = Start(case)
Next == Running(m) /\ m' = Step(m) /\ case' = case
Spec == Init /\ [][Next]_vars
View == <<case, m.n, m.halt>>

\* evaluated on EVERY configuration of every execution.  A step changes only the top frame (or pushes / pops
\* one), so the clauses are stated on the top of the call stack: over a behaviour this is the same as stating
\* them for all frames, and keeps the cost of a step independent of the depth.
Inv == /\ Len(Top(m).st) <= StackLimit                                    \* no stack ever holds more than 1024 items
       /\ Depth(m) <= DepthLimit + 1                                      \* kvm.depth <= 1025 = frames of depth 0..1024
       /\ Len(m.fr) > 2 /\ m.fr[Len(m.fr) - 1].ro => Top(m).ro            \* the static flag is inherited
       /\ m.gw # <<>> => ~m.gw[Len(m.gw)][2]                              \* no write in a static context
       /\ ~Running(m) => Verdict(m) /\ m.fr = <<RootFrame>> /\ StaticClean(m)

Dump == ~Running(m') => PrintT(ToJson([p |-> Code(case'), e |-> CaseDef[case'][2], f |-> Obs(m')]))
=============================================================================
