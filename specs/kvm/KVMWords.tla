------------------------------ MODULE KVMWords ------------------------------
(***************************************************************************)
(* Machine words of the KVM as the interpreter sees them (kvm/stack.go,     *)
(* holiman/uint256, kvm/instructions.go): a word is a sequence of 32 BYTES, *)
(* big endian.  TLC integers are 32-bit, so a 256-bit word cannot be an     *)
(* integer; a byte sequence can, and most instructions are byte-wise or     *)
(* carry-wise definable on it:                                              *)
(*                                                                          *)
(*   exact on all 2^256 values : ADD SUB NOT AND OR XOR LT GT SLT SGT EQ     *)
(*                               ISZERO BYTE SHL SHR SAR SIGNEXTEND, PUSHn,  *)
(*                               DUPn, SWAPn, every memory/storage/copy op   *)
(*   exact on SMALL operands   : MUL DIV MOD SDIV SMOD ADDMOD MULMOD EXP     *)
(*                               (operands and results below 2^31 / 2^15);   *)
(*                               outside that domain the result is OOM       *)
(*                               ("out of the model": no verdict)            *)
(*                                                                          *)
(* SYMBOLIC BYTES.  The address of a created contract is a Keccak hash that *)
(* the specification cannot compute.  Byte j of the address of the t-th      *)
(* possible creation is the integer SymB(t,j) >= 256.  Symbolic bytes move   *)
(* through stack, memory, storage, logs and return data like any byte (the   *)
(* driver substitutes the real hash bytes); arithmetic on them is OOM.       *)
(***************************************************************************)
EXTENDS Integers, Sequences

Z32 == [i \in 1..32 |-> 0]

\* the word of a natural n < 2^31
W(n) == [i \in 1..32 |-> CASE i = 32 -> n % 256
                           [] i = 31 -> (n \div 256) % 256
                           [] i = 30 -> (n \div 65536) % 256
                           [] i = 29 -> n \div 16777216
                           [] OTHER  -> 0]
One == W(1)
BoolW(b) == IF b THEN One ELSE Z32

\* result "out of the model" of a word operation (a sequence, so that it compares with words)
OOMW == <<>>

Conc(w)  == \A i \in 1..32 : w[i] < 256                 \* no symbolic byte
Small(w) == /\ \A i \in 1..28 : w[i] = 0                \* a natural below 2^31
            /\ w[29] < 128 /\ w[30] < 256 /\ w[31] < 256 /\ w[32] < 256
N(w) == ((w[29] * 256 + w[30]) * 256 + w[31]) * 256 + w[32]
SmallLe(w, c) == Small(w) /\ N(w) <= c

(***************************************************************************)
(* Symbolic addresses.  Creation number t (see KVMFrames!TokOf) has the      *)
(* address bytes SymB(t,1..20); the address WORD has 12 zero bytes in front. *)
(***************************************************************************)
SymB(t, j) == 256 + 20 * t + (j - 1)
(***************************************************************************)
(* Keccak-256 is an UNINTERPRETED INJECTIVE function of byte strings: the    *)
(* h-th distinct byte string hashed in a run (KVMFrames keeps the list) has  *)
(* the hash bytes HashB(h, 1..32) >= HBase.  The driver substitutes          *)
(* lib/crypto Keccak256 of the listed string.  A CREATE2 address is the low  *)
(* 20 bytes of such a hash.                                                  *)
(***************************************************************************)
HBase == 16777216
HashB(h, j) == HBase + 32 * h + (j - 1)
HashW(h) == [j \in 1..32 |-> HashB(h, j)]
IsHashW(w) == /\ w[1] >= HBase /\ (w[1] - HBase) % 32 = 0
              /\ \A j \in 2..32 : w[j] = w[1] + (j - 1)
\* low 20 bytes = bytes 13..32 of one hash
IsHash20(w) == /\ w[13] >= HBase /\ (w[13] - HBase) % 32 = 12
               /\ \A j \in 2..20 : w[12 + j] = w[13] + (j - 1)
HashIdx20(w) == (w[13] - HBase) \div 32
IsH2W(w) == IsHash20(w) /\ \A i \in 1..12 : w[i] = 0
TokW(t) == [i \in 1..32 |-> IF i <= 12 THEN 0 ELSE SymB(t, i - 12)]
\* low 20 bytes are exactly the 20 bytes of one symbolic address (Bytes20() ignores the 12 high bytes)
IsTok20(w) == /\ w[13] >= 256 /\ w[13] < HBase /\ (w[13] - 256) % 20 = 0
              /\ \A j \in 2..20 : w[12 + j] = w[13] + (j - 1)
TokIdx(w) == (w[13] - 256) \div 20
IsTokW(w) == IsTok20(w) /\ \A i \in 1..12 : w[i] = 0
\* a word that is entirely one symbolic value: a created address or a hash.  Its real value is a hash, so it is
\* (up to a collision / a 2^-96 coincidence) non-zero, >= 2^64, and different from every other such word and
\* from every concrete word
WholeSym(w) == IsTokW(w) \/ IsHashW(w) \/ IsH2W(w)

\* "certainly >= 2^64" (Uint64WithOverflow overflows): a concrete non-zero byte among the 24 high
\* bytes, or a symbolic address (its bytes 13..24 are hash bytes: all zero with probability 2^-96)
Huge(w) == (\E i \in 1..24 : w[i] # 0 /\ w[i] < 256) \/ WholeSym(w)

\* three-valued zero test: "T" certainly non-zero, "F" zero, "U" unknown (symbolic bytes only)
NonZero(w) == IF (\E i \in 1..32 : w[i] # 0 /\ w[i] < 256) \/ WholeSym(w) THEN "T"
              ELSE IF w = Z32 THEN "F" ELSE "U"

(***************************************************************************)
(* Carry arithmetic (uint256.Add / Sub / Not)                                *)
(***************************************************************************)
AddC(a, b, c0) == LET c[i \in 1..33] == IF i = 33 THEN c0 ELSE (a[i] + b[i] + c[i + 1]) \div 256
                  IN [i \in 1..32 |-> (a[i] + b[i] + c[i + 1]) % 256]
NotW(a) == [i \in 1..32 |-> 255 - a[i]]
AddW(a, b) == IF Conc(a) /\ Conc(b) THEN AddC(a, b, 0) ELSE OOMW
SubW(a, b) == IF Conc(a) /\ Conc(b) THEN AddC(a, NotW(b), 1) ELSE OOMW       \* a - b mod 2^256
NegW(a) == AddC(Z32, NotW(a), 1)

\* comparisons
LtU(a, b) == \E i \in 1..32 : a[i] < b[i] /\ \A j \in 1..(i - 1) : a[j] = b[j]
LtS(a, b) == LET sa == a[1] >= 128  sb == b[1] >= 128 IN IF sa # sb THEN sa ELSE LtU(a, b)
LtW(a, b)  == IF Conc(a) /\ Conc(b) THEN BoolW(LtU(a, b)) ELSE OOMW
GtW(a, b)  == IF Conc(a) /\ Conc(b) THEN BoolW(LtU(b, a)) ELSE OOMW
SltW(a, b) == IF Conc(a) /\ Conc(b) THEN BoolW(LtS(a, b)) ELSE OOMW
SgtW(a, b) == IF Conc(a) /\ Conc(b) THEN BoolW(LtS(b, a)) ELSE OOMW
\* EQ: identical words are equal; a whole symbolic address differs from every concrete word and from
\* every other symbolic address (hash collisions excluded); other mixtures of symbolic bytes: unknown
EqW(a, b) == IF a = b THEN One
             ELSE IF (Conc(a) \/ WholeSym(a)) /\ (Conc(b) \/ WholeSym(b)) THEN Z32 ELSE OOMW
IsZeroW(a) == LET z == NonZero(a) IN IF z = "U" THEN OOMW ELSE BoolW(z = "F")

\* bitwise, byte by byte
Bit(v, k) == (v \div (2 ^ k)) % 2
And8(x, y) == Bit(x,0)*Bit(y,0) + 2*Bit(x,1)*Bit(y,1) + 4*Bit(x,2)*Bit(y,2) + 8*Bit(x,3)*Bit(y,3)
              + 16*Bit(x,4)*Bit(y,4) + 32*Bit(x,5)*Bit(y,5) + 64*Bit(x,6)*Bit(y,6) + 128*Bit(x,7)*Bit(y,7)
\* x AND y on bytes where 0 and 255 act on symbolic bytes too
AndB(x, y) == IF x = 0 \/ y = 0 THEN 0 ELSE IF x = 255 THEN y ELSE IF y = 255 THEN x ELSE And8(x, y)
AndW(a, b) == IF \A i \in 1..32 : (a[i] < 256 /\ b[i] < 256) \/ a[i] \in {0, 255} \/ b[i] \in {0, 255}
              THEN [i \in 1..32 |-> AndB(a[i], b[i])] ELSE OOMW
OrW(a, b)  == IF Conc(a) /\ Conc(b) THEN [i \in 1..32 |-> a[i] + b[i] - And8(a[i], b[i])] ELSE OOMW
XorW(a, b) == IF Conc(a) /\ Conc(b) THEN [i \in 1..32 |-> a[i] + b[i] - 2 * And8(a[i], b[i])] ELSE OOMW
NotOp(a)   == IF Conc(a) THEN NotW(a) ELSE OOMW

\* BYTE(th, val): byte number th (0 = most significant) of val, or 0 when th >= 32
ByteW(th, val) == IF SmallLe(th, 31) THEN [i \in 1..32 |-> IF i = 32 THEN val[N(th) + 1] ELSE 0]
                  ELSE IF Conc(th) \/ Huge(th) THEN Z32 ELSE OOMW

\* shifts: by s = 8q + r bits
ShlBy(a, s) == LET q == s \div 8  r == s % 8
                   at(i) == IF i >= 1 /\ i <= 32 THEN a[i] ELSE 0
               IN [i \in 1..32 |-> ((at(i + q) * (2 ^ r)) % 256) + (at(i + q + 1) \div (2 ^ (8 - r)))]
ShrFill(a, s, fill) == LET q == s \div 8  r == s % 8
                           at(i) == IF i >= 1 THEN a[i] ELSE fill
                       IN [i \in 1..32 |-> (at(i - q) \div (2 ^ r)) + ((at(i - q - 1) * (2 ^ (8 - r))) % 256)]
ShlW(sh, v) == IF ~(Conc(sh) /\ Conc(v)) THEN OOMW
               ELSE IF SmallLe(sh, 255) THEN ShlBy(v, N(sh)) ELSE Z32
ShrW(sh, v) == IF ~(Conc(sh) /\ Conc(v)) THEN OOMW
               ELSE IF SmallLe(sh, 255) THEN ShrFill(v, N(sh), 0) ELSE Z32
SarW(sh, v) == IF ~(Conc(sh) /\ Conc(v)) THEN OOMW
               ELSE LET fill == IF v[1] >= 128 THEN 255 ELSE 0
                    IN IF SmallLe(sh, 255) THEN ShrFill(v, N(sh), fill) ELSE [i \in 1..32 |-> fill]
\* SIGNEXTEND(back, num): extend the sign of byte number `back` counted from the least significant one
SignExtW(back, num) == IF ~(Conc(back) /\ Conc(num)) THEN OOMW
                       ELSE IF SmallLe(back, 30)
                            THEN LET p == 32 - N(back)  fill == IF num[p] >= 128 THEN 255 ELSE 0
                                 IN [i \in 1..32 |-> IF i >= p THEN num[i] ELSE fill]
                            ELSE num

(***************************************************************************)
(* NATURAL NUMBERS OF ANY LENGTH as big-endian byte sequences (all bytes     *)
(* concrete).  Used where 256 bits are not enough: the 512-bit product       *)
(* behind MUL / MULMOD / EXP and the 257-bit sum behind ADDMOD.  Schoolbook  *)
(* arithmetic, one byte per digit: a column of a product of an la-byte and   *)
(* an lb-byte number sums at most min(la, lb) <= 64 terms <= 255 * 255 plus  *)
(* a carry, so every intermediate value stays far below 2^31.                *)
(***************************************************************************)
RECURSIVE Norm(_)
Norm(s) == IF s = <<>> \/ s[1] # 0 THEN s ELSE Norm(Tail(s))           \* without leading zero bytes
NatEq(a, b) == Norm(a) = Norm(b)
NatLt(a, b) == LET x == Norm(a)  y == Norm(b) IN
               \/ Len(x) < Len(y)
               \/ Len(x) = Len(y) /\ \E i \in 1..Len(x) : x[i] < y[i] /\ \A j \in 1..(i - 1) : x[j] = y[j]
\* digit number k (0 = least significant) of s
Dig(s, k) == IF k < Len(s) THEN s[Len(s) - k] ELSE 0
\* the n least significant bytes of s (zero extended)
Low(s, n) == [i \in 1..n |-> Dig(s, n - i)]
RECURSIVE AddAcc(_, _, _, _, _)
AddAcc(a, b, k, carry, acc) == IF k > Len(a) /\ k > Len(b) THEN acc      \* one digit more than the longer one
                               ELSE LET t == Dig(a, k) + Dig(b, k) + carry
                                    IN AddAcc(a, b, k + 1, t \div 256, <<t % 256>> \o acc)
NatAdd(a, b) == AddAcc(a, b, 0, 0, <<>>)
RECURSIVE ColSum(_, _, _, _, _)
\* sum of a_i * b_(k-i) for i = lo..hi
ColSum(a, b, k, i, hi) == IF i > hi THEN 0 ELSE Dig(a, i) * Dig(b, k - i) + ColSum(a, b, k, i + 1, hi)
RECURSIVE MulAcc(_, _, _, _, _)
MulAcc(a, b, k, carry, acc) ==
  IF k = Len(a) + Len(b) THEN acc
  ELSE LET lo == IF k - (Len(b) - 1) > 0 THEN k - (Len(b) - 1) ELSE 0
           hi == IF k < Len(a) - 1 THEN k ELSE Len(a) - 1
           t == ColSum(a, b, k, lo, hi) + carry
       IN MulAcc(a, b, k + 1, t \div 256, <<t % 256>> \o acc)
\* the product, Len(a) + Len(b) bytes
NatMul(a, b) == IF a = <<>> \/ b = <<>> THEN <<>> ELSE MulAcc(a, b, 0, 0, <<>>)
\* uint256.Mul: the low 256 bits of the product (leading zero bytes do not matter: multiply the normal forms)
MulLow(a, b) == Low(NatMul(Norm(a), Norm(b)), 32)
\* uint256.Exp by square and multiply over the bits of the exponent, most significant first
RECURSIVE PowBits(_, _, _, _, _)
PowBits(base, e, idx, bit, acc) ==
  IF idx > Len(e) THEN acc
  ELSE LET sq == MulLow(acc, acc)
           nx == IF Bit(e[idx], bit) = 1 THEN MulLow(sq, base) ELSE sq
       IN IF bit = 0 THEN PowBits(base, e, idx + 1, 7, nx) ELSE PowBits(base, e, idx, bit - 1, nx)
PowLow(base, e) == PowBits(base, Norm(e), 1, 7, One)


(***************************************************************************)
(* Small-operand arithmetic.  Sm(w,c): natural <= c.  Signed small numbers   *)
(* are two's complement words whose negation is small.                       *)
(***************************************************************************)
B15 == 32767
B30 == 1073741823
MulW(a, b) == IF a = Z32 \/ b = Z32 THEN (IF Conc(a) /\ Conc(b) THEN Z32 ELSE OOMW)
              ELSE IF a = One THEN (IF Conc(b) THEN b ELSE OOMW)
              ELSE IF b = One THEN (IF Conc(a) THEN a ELSE OOMW)
              ELSE IF SmallLe(a, B15) /\ SmallLe(b, B15) THEN W(N(a) * N(b))
              ELSE IF Conc(a) /\ Conc(b) THEN MulLow(a, b) ELSE OOMW          \* exact on all 2^256 values (NatMul below)
DivW(a, b) == IF Conc(a) /\ b = Z32 THEN Z32
              ELSE IF Small(a) /\ Small(b) THEN W(N(a) \div N(b)) ELSE OOMW
ModW(a, b) == IF Conc(a) /\ b = Z32 THEN Z32
              ELSE IF Small(a) /\ Small(b) THEN W(N(a) % N(b)) ELSE OOMW
\* signed view: <<sign, magnitude>> when defined
SSmall(a) == Small(a) \/ (Conc(a) /\ a[1] >= 128 /\ Small(NegW(a)))
SMag(a) == IF Small(a) THEN N(a) ELSE N(NegW(a))
SNeg(a) == ~Small(a)
SW(neg, n) == IF neg /\ n # 0 THEN NegW(W(n)) ELSE W(n)
SdivW(a, b) == IF Conc(a) /\ b = Z32 THEN Z32
               ELSE IF SSmall(a) /\ SSmall(b) THEN SW(SNeg(a) # SNeg(b), SMag(a) \div SMag(b)) ELSE OOMW
SmodW(a, b) == IF Conc(a) /\ b = Z32 THEN Z32
               ELSE IF SSmall(a) /\ SSmall(b) THEN SW(SNeg(a), SMag(a) % SMag(b)) ELSE OOMW
AddmodW(a, b, n) == IF Conc(a) /\ Conc(b) /\ n = Z32 THEN Z32
                    ELSE IF SmallLe(a, B30) /\ SmallLe(b, B30) /\ Small(n) THEN W((N(a) + N(b)) % N(n)) ELSE OOMW
MulmodW(a, b, n) == IF Conc(a) /\ Conc(b) /\ n = Z32 THEN Z32
                    ELSE IF SmallLe(a, B15) /\ SmallLe(b, B15) /\ Small(n) THEN W((N(a) * N(b)) % N(n)) ELSE OOMW
RECURSIVE PowB(_, _)
\* b^e, or -1 as soon as it exceeds 2^15 (so that every product stays a TLC integer)
PowB(b, e) == IF e = 0 THEN 1 ELSE LET p == PowB(b, e - 1) IN IF p < 0 \/ p * b > B15 THEN -1 ELSE p * b
ExpW(b, e) == IF e = Z32 THEN (IF Conc(b) THEN One ELSE OOMW)
              ELSE IF b = Z32 \/ b = One THEN (IF Conc(e) THEN b ELSE OOMW)
              ELSE IF SmallLe(b, B15) /\ SmallLe(e, 15)
                   THEN LET p == PowB(N(b), N(e)) IN IF p < 0 THEN OOMW ELSE W(p)
                   ELSE OOMW

\* self-test of the multiplication (evaluated by TLC when the module is loaded)
Rep8(n, v) == [i \in 1..n |-> v]
ASSUME /\ NatMul(Rep8(16, 255), Rep8(16, 255)) = Rep8(15, 255) \o <<254>> \o Rep8(15, 0) \o <<1>>   \* (2^128-1)^2
       /\ NatMul(Rep8(32, 255), Rep8(32, 255)) = Rep8(31, 255) \o <<254>> \o Rep8(31, 0) \o <<1>>   \* carries through all 64 bytes
       /\ NatMul(<<1, 0>>, <<1, 0>>) = <<0, 1, 0, 0>> /\ NatMul(<<255>>, <<255>>) = <<254, 1>>
       /\ NatMul(<<18, 52, 86>>, <<171, 205>>) = NatMul(<<171, 205>>, <<18, 52, 86>>)
       /\ NatMul(<<18, 52, 86>>, <<171, 205>>) = <<12, 55, 137, 90, 222>>                          \* 0x123456 * 0xabcd = 0x0c37895ade
       /\ NatAdd(Rep8(32, 255), <<1>>) = <<1>> \o Rep8(32, 0) /\ NatLt(<<0, 5>>, <<6>>) /\ ~NatLt(<<6>>, <<0, 6>>)
       /\ PowLow(W(3), W(5)) = W(243) /\ PowLow(W(2), W(256)) = Z32 /\ PowLow(W(2), W(255)) = [i \in 1..32 |-> IF i = 1 THEN 128 ELSE 0]
=============================================================================
