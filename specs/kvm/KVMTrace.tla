------------------------------ MODULE KVMTrace ------------------------------
(***************************************************************************)
(* Trace validation (code -> specification), instruction by instruction.    *)
(*                                                                          *)
(* trace.ndjson is written by harness/kvm TestRecord: seeded random byte     *)
(* strings (uniform, opcode-weighted, grammar-generated) are executed by the *)
(* REAL kvm.KVM with a KVMLogger attached, which logs one line per           *)
(* iteration of Interpreter.Run:                                             *)
(*   k = "start"  a, b, c: code at A, B, C;  cd: call data;  v: value;       *)
(*                ba, bb: balances of A and B;  s0: slot 0 of A              *)
(*   k = "step"   pc, op, d (kvm.depth), sl (stack length), top (the 32      *)
(*                bytes of the top stack item, [] if none) BEFORE the        *)
(*                instruction executes; err = 0, or 1 if the iteration ended *)
(*                with a gas-class error, 2 with another error               *)
(*   k = "cut"    the recorder stopped logging this program (250 lines)      *)
(*   k = "end"    s (ok / rev / fail), r (return data)                       *)
(* Every "step" line must be the configuration the specification is in, and  *)
(* the specification then takes KVMFrames!Step; the "end" line must be the   *)
(* specified outcome.  So every intermediate pc, opcode, depth, stack height *)
(* and top of stack of the real machine is explained by the small-step       *)
(* semantics -- on arbitrary byte strings, not only on generated programs.   *)
(*                                                                          *)
(* Validation of a program stops (skip = TRUE, the remaining lines are       *)
(* consumed unchecked until the next "start") when the specification has no  *)
(* verdict ("oom": unmodelled instruction, arithmetic beyond the small       *)
(* domain, ...) or when the real machine meets a gas error the abstract gas  *)
(* of the specification does not predict.  Acceptance: the search reaches    *)
(* depth Len(Trace) (POSTCONDITION Accepted).                                *)
(***************************************************************************)
EXTENDS KVMFrames, Json

Trace == ndJsonDeserialize("trace.ndjson")

VARIABLES i, m, skip,
          nv, ne     \* counters: "step" lines validated against Step, "end" lines validated against the outcome
vars == <<i, m, skip, nv, ne>>

AddrA == 161  AddrB == 162  AddrC == 163
WorldOf(e) ==
  LET acct(code, bal, st) == [EmptyAcct EXCEPT !.code = code, !.bal = bal, !.st = st]
  IN (Origin :> [EmptyAcct EXCEPT !.bal = 1000])
     @@ (AddrA :> acct(e.a, e.ba, IF e.s0 = 0 THEN EmptySt ELSE SPut(EmptySt, Z32, W(e.s0))))
     @@ (AddrB :> acct(e.b, e.bb, EmptySt))
     @@ (AddrC :> acct(e.c, 0, EmptySt))

Idle == [InitMachine(<<>>) EXCEPT !.halt = "ok"]
Init == i = 1 /\ m = Idle /\ skip = TRUE /\ nv = 0 /\ ne = 0

Ev == Trace[i]
OpOf(f) == ByteAt(f.code, f.pc + 1)
Matches(e) == LET f == Top(m) IN
              /\ f.pc = e.pc /\ OpOf(f) = e.op /\ Depth(m) = e.d /\ Len(f.st) = e.sl
              /\ (e.sl > 0 /\ Conc(Peek(f.st, 0))) => Peek(f.st, 0) = e.top

Start == /\ Ev.k = "start"
         /\ m' = StartCall(WorldOf(Ev), AddrA, Ev.v, Ev.cd)
         /\ skip' = FALSE /\ UNCHANGED <<nv, ne>>
StepSkip == /\ Ev.k = "step" /\ (skip \/ m.halt = "oom")
            /\ skip' = TRUE /\ m' = m /\ UNCHANGED <<nv, ne>>
\* the recorder logs at most 250 iterations per program, then a "cut" line
Cut == Ev.k = "cut" /\ skip' = TRUE /\ m' = m /\ UNCHANGED <<nv, ne>>
StepEv == /\ Ev.k = "step" /\ ~skip /\ Running(m)
          /\ Matches(Ev)
          /\ LET n == Step(m) IN
             /\ m' = n
             \* a gas error of the real machine that the specification does not predict ends the comparison
             /\ skip' = (Ev.err = 1 /\ ~(n.gf /\ ~m.gf))
          /\ nv' = nv + 1 /\ ne' = ne
End == /\ Ev.k = "end"
       /\ \/ skip \/ m.halt = "oom"
          \/ /\ m.halt = Ev.s
             /\ (Ev.s # "fail" /\ \A j \in 1..Len(m.ret) : m.ret[j] < 256) => m.ret = Ev.r
       /\ m' = m /\ skip' = TRUE /\ nv' = nv
       /\ ne' = IF skip \/ m.halt = "oom" THEN ne ELSE ne + 1

Next == i <= Len(Trace) /\ (Start \/ StepSkip \/ StepEv \/ Cut \/ End) /\ i' = i + 1
Spec == Init /\ [][Next]_vars

\* the limits, on every configuration of every validated execution
TraceInv == Running(m) => Len(Top(m).st) <= StackLimit /\ Depth(m) <= DepthLimit + 1

\* diagnostic (always true): what the specification is at when the next line does not fit
EndFits == skip \/ m.halt = "oom"
           \/ (m.halt = Ev.s /\ ((Ev.s # "fail" /\ \A j \in 1..Len(m.ret) : m.ret[j] < 256) => m.ret = Ev.r))
Stuck == (i <= Len(Trace) /\ ~skip /\ m.halt # "oom"
          /\ ((Ev.k = "step" /\ (~Running(m) \/ ~Matches(Ev))) \/ (Ev.k = "end" /\ ~EndFits)))
           => PrintT(<<"MISMATCH", i, Ev,
                       IF Running(m) THEN [pc |-> Top(m).pc, op |-> OpOf(Top(m)), d |-> Depth(m), sl |-> Len(Top(m).st),
                                           top |-> IF Top(m).st = <<>> THEN <<>> ELSE Peek(Top(m).st, 0)]
                       ELSE [halt |-> m.halt, ret |-> m.ret]>>)

\* reported once the whole trace is consumed (the runner puts the numbers into the evidence)
Done == i = Len(Trace) + 1 => PrintT(<<"VALIDATED", nv, ne, Len(Trace)>>)

Accepted ==
  IF TLCGet("stats").diameter - 1 = Len(Trace) THEN TRUE
  ELSE PrintT(<<"REJECTED", TLCGet("stats").diameter - 1, Len(Trace)>>) /\ FALSE
=============================================================================
