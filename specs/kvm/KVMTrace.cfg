SPECIFICATION Spec
CONSTANTS
  StackLimit = 1024
  DepthLimit = 1024
  MaxCodeSize = 39231
  Fuel = 0
  MemCap = 4096
  Galaxias = TRUE
INVARIANT TraceInv
INVARIANT Stuck
INVARIANT Done
POSTCONDITION Accepted
CHECK_DEADLOCK FALSE
