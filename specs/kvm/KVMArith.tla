------------------------------ MODULE KVMArith ------------------------------
(***************************************************************************)
(* Certificate checking of the arithmetic instructions on FULL 256-bit       *)
(* operands (code -> specification).                                         *)
(*                                                                          *)
(* arith.ndjson is written by harness/kvm TestArith: for seeded operands     *)
(* (uniform 256-bit values and an edge catalogue: 0, 1, 2, 2^255, 2^255-1,   *)
(* 2^256-1, -2^255, powers of two, equal operands, divisor > dividend, the   *)
(* SDIV overflow case, modulus 0 and 1, exponents 0, 1, 2, 255, 256, 65535   *)
(* and a few random 256-bit ones) the REAL kvm.KVM executes the program      *)
(*      PUSH32 n  PUSH32 b  PUSH32 a  OP  PUSH1 0 MSTORE  PUSH1 32 PUSH1 0    *)
(*      RETURN                                                              *)
(* in the instruction set `s` (1 = v1, 2 = v2) and one line is logged:       *)
(*   op  name of the instruction (a = top of the stack, b = second, n third) *)
(*   r   the 32 bytes the real machine returned                              *)
(*   r2  for "DIVMOD" / "SDIVSMOD": the result of MOD / SMOD on the same     *)
(*       operands (r is the result of DIV / SDIV)                            *)
(*   w   for ADDMOD / MULMOD: an UNTRUSTED witness quotient (math/big)       *)
(*   t   "edge" or "random" (for the signature of a mismatch)                *)
(* TLC evaluates the DEFINING LAW of the instruction on every line with the  *)
(* exact byte arithmetic of KVMWords (NatMul, NatAdd, NatLt, two's           *)
(* complement NegW, ...):                                                    *)
(*   MUL       r = low 256 bits of a * b                                     *)
(*   DIV, MOD  b # 0: a = r * b + r2 and r2 < b;  b = 0: r = r2 = 0           *)
(*   SDIV,SMOD the same law on the absolute values, quotient negative iff    *)
(*             the signs differ, remainder with the sign of a (truncation    *)
(*             toward zero); -2^255 / -1 = -2^255 follows from it            *)
(*   ADDMOD    n # 0: a + b (257 bits) = w * n + r and r < n;  n = 0: r = 0   *)
(*   MULMOD    n # 0: a * b (512 bits) = w * n + r and r < n;  n = 0: r = 0   *)
(*   EXP       r = square-and-multiply with the exact low-256 product        *)
(*   others    r = the word operator of KVMWords (they are exact there)      *)
(* The witness is only a hint: a wrong witness and a wrong result both make  *)
(* the law false.  Nothing is trusted except TLC and the byte arithmetic     *)
(* (self-tested by the ASSUME at the end of KVMWords).                       *)
(*                                                                          *)
(* A state is a line number; Stride independent chains i, i + Stride, ...    *)
(* let the TLC workers evaluate lines in parallel.  A line whose law is      *)
(* false is printed as <<"LAWFAIL", i>> and the run goes on, so the runner   *)
(* can report every failing instruction; it also checks that all lines were  *)
(* visited (distinct states = number of lines).                              *)
(***************************************************************************)
EXTENDS KVMWords, Json, TLC

CONSTANT Stride
Trace == ndJsonDeserialize("arith.ndjson")

VARIABLE i
Init == i \in 1..Stride /\ i <= Len(Trace)
Next == i + Stride <= Len(Trace) /\ i' = i + Stride
Spec == Init /\ [][Next]_i

Neg(w) == w[1] >= 128
Abs(w) == IF Neg(w) THEN NegW(w) ELSE w
\* q * d + r on naturals of any length
QDR(q, d, r) == NatAdd(NatMul(Norm(q), Norm(d)), r)

DivLaw(a, b, q, r) == IF b = Z32 THEN q = Z32 /\ r = Z32
                      ELSE NatEq(a, QDR(q, b, r)) /\ NatLt(r, b)
\* Q, R: the unsigned quotient and remainder the signed results stand for
SdivLaw(a, b, q, r) == IF b = Z32 THEN q = Z32 /\ r = Z32
                       ELSE LET Q == IF Neg(a) # Neg(b) THEN NegW(q) ELSE q
                                R == IF Neg(a) THEN NegW(r) ELSE r
                            IN NatEq(Abs(a), QDR(Q, Abs(b), R)) /\ NatLt(R, Abs(b))

Law(e) ==
  LET a == e.a  b == e.b  r == e.r IN
  CASE e.op = "MUL"        -> r = MulLow(a, b)
    [] e.op = "DIVMOD"     -> DivLaw(a, b, r, e.r2)
    [] e.op = "SDIVSMOD"   -> SdivLaw(a, b, r, e.r2)
    [] e.op = "ADDMOD"     -> IF e.n = Z32 THEN r = Z32
                              ELSE NatEq(NatAdd(a, b), QDR(e.w, e.n, r)) /\ NatLt(r, e.n)
    [] e.op = "MULMOD"     -> IF e.n = Z32 THEN r = Z32
                              ELSE NatEq(NatMul(Norm(a), Norm(b)), QDR(e.w, e.n, r)) /\ NatLt(r, e.n)
    [] e.op = "EXP"        -> r = PowLow(a, b)
    [] e.op = "ADD"        -> r = AddW(a, b)
    [] e.op = "SUB"        -> r = SubW(a, b)
    [] e.op = "LT"         -> r = LtW(a, b)
    [] e.op = "GT"         -> r = GtW(a, b)
    [] e.op = "SLT"        -> r = SltW(a, b)
    [] e.op = "SGT"        -> r = SgtW(a, b)
    [] e.op = "EQ"         -> r = EqW(a, b)
    [] e.op = "ISZERO"     -> r = IsZeroW(a)
    [] e.op = "AND"        -> r = AndW(a, b)
    [] e.op = "OR"         -> r = OrW(a, b)
    [] e.op = "XOR"        -> r = XorW(a, b)
    [] e.op = "NOT"        -> r = NotOp(a)
    [] e.op = "BYTE"       -> r = ByteW(a, b)
    [] e.op = "SHL"        -> r = ShlW(a, b)
    [] e.op = "SHR"        -> r = ShrW(a, b)
    [] e.op = "SAR"        -> r = SarW(a, b)
    [] e.op = "SIGNEXTEND" -> r = SignExtW(a, b)
    [] OTHER -> FALSE

\* always true; prints the number of a line whose law is false
Checked == i <= Len(Trace) => (Law(Trace[i]) \/ PrintT(<<"LAWFAIL", i>>))
=============================================================================
