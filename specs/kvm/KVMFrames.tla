------------------------------ MODULE KVMFrames ------------------------------
(***************************************************************************)
(* Small-step specification of the Kardia Virtual Machine (property C10).   *)
(*                                                                          *)
(* What is transcribed (file -> operator):                                  *)
(*   kvm/interpreter.go  Run            -> Step  (order of the checks:       *)
(*        unknown opcode, stack under/overflow from the jump table, write    *)
(*        protection in a static context, memory size, execute, pc)          *)
(*   kvm/instruction_set.go             -> ValidOp, Pops, Pushes, Writes     *)
(*   kvm/instructions.go  op*           -> the CASE arms of Exec             *)
(*   kvm/contract.go  validJumpdest,    -> ValidJumpdest, IsCodePos          *)
(*        codeBitmap                                                         *)
(*   kvm/memory.go, kvm/utils.go        -> Req, Expand, MemGet, MemSet,      *)
(*        calcMemSize64, getData           GetData                           *)
(*   kvm/kvm.go  Call / CallCode /      -> DoCall, DoCreate, Finish,         *)
(*        DelegateCall / StaticCall /      ReturnTo  (snapshot on entry,     *)
(*        create                           revert on error, depth limit,     *)
(*                                         balance check, code deposit)      *)
(*   kvm/contracts.go  dataCopy         -> the identity precompile (addr 4)  *)
(*   mainchain/kvm  CanTransfer/Transfer-> Transfer                          *)
(*                                                                          *)
(* The code is a BYTE string and is decoded exactly as the interpreter does  *)
(* (PUSH data, truncated PUSH at the end, JUMPDEST bytes inside PUSH data),  *)
(* so the specification gives a meaning to every byte string over the        *)
(* modelled opcodes.  Words are 32-byte sequences (KVMWords).                *)
(*                                                                          *)
(* DELIBERATE ABSTRACTIONS (named):                                          *)
(*  - GAS IS ABSTRACT: every instruction has enough gas, except where the    *)
(*    real machine fails for ANY gas limit below 2^64: a memory region whose *)
(*    offset or size is >= 2^64 (ErrGasUintOverflow).  Those steps fail the  *)
(*    frame and set the flag gf.  Exact gas, the 63/64 rule, refunds and the *)
(*    call stipend are NOT specified.  The driver supplies 2^62 gas.         *)
(*  - OOM ("out of the model"): halt = "oom" means the specification gives   *)
(*    no verdict: arithmetic outside the small domain, symbolic bytes in     *)
(*    arithmetic, memory beyond MemCap, instructions that are valid but not  *)
(*    modelled (GAS, precompiles other than identity), more than Fuel steps. *)
(*  - KECCAK IS UNINTERPRETED AND INJECTIVE: SHA3, EXTCODEHASH and the       *)
(*    CREATE2 address are symbolic hash bytes of a recorded byte string      *)
(*    (KVMWords!HashW); the driver substitutes lib/crypto Keccak256.         *)
(*  - Kardia numbering: 0x44 is GASLIMIT (there is no DIFFICULTY), 0x45 is   *)
(*    undefined, 0xfe INVALID is simply absent from the table; CHAINID       *)
(*    (0x46) exists only in the v2 (Galaxias) instruction set.               *)
(*  - The interpreter computes DIV/MOD/SDIV/SMOD/ADDMOD/MULMOD/EXP only on   *)
(*    small operands (MUL is exact); their full 256-bit behaviour is checked *)
(*    by certificate in KVMArith.tla.  Precompiled cryptography and exact    *)
(*    gas are out of reach: see the manifest note of C10.                    *)
(***************************************************************************)
EXTENDS KVMWords, FiniteSets, TLC

CONSTANTS StackLimit,   \* configs.StackLimit      = 1024
          DepthLimit,   \* configs.CallCreateDepth = 1024
          MaxCodeSize,  \* configs.MaxCodeSize     = 39231
          Fuel,         \* step budget of Run (0 = none); beyond it the verdict is "fuel" (no verdict)
          MemCap,       \* largest memory size the specification follows (bytes)
          Galaxias      \* TRUE: v2 instruction set (CHAINID), FALSE: v1

\* block / transaction context the driver installs (kvm.BlockContext, TxContext, ChainConfig)
Origin    == 224          \* 0xe0, the externally owned sender
CoinbaseA == 192          \* 0xc0
GasPriceC == 1
TimeC     == 1000
NumberC   == 5
GasLimitC == 30000000
ChainIdC  == 24
HashBase  == 176          \* GetHash(n) = 0x..00(b0+n)
TokBase   == 1073741824   \* address ids >= TokBase are symbolic (created) addresses
H2Base    == 1610612736   \* address ids >= H2Base: created by CREATE2, H2Base + h = low 20 bytes of hash number h
BaseAddrs == <<224, 161, 162, 163>>   \* accounts that may execute CREATE first (origin, A, B, C)

(***************************************************************************)
(* Opcodes (kvm/opcodes.go)                                                  *)
(***************************************************************************)
STOP == 0  ADD == 1  MUL == 2  SUB == 3  DIV == 4  SDIV == 5  MOD == 6  SMOD == 7  ADDMOD == 8  MULMOD == 9
EXP == 10  SIGNEXTEND == 11
LT == 16  GT == 17  SLT == 18  SGT == 19  EQ == 20  ISZERO == 21  AND == 22  OR == 23  XOR == 24  NOT == 25
BYTE == 26  SHL == 27  SHR == 28  SAR == 29  SHA3 == 32
ADDRESS == 48  BALANCE == 49  ORIGIN == 50  CALLER == 51  CALLVALUE == 52  CALLDATALOAD == 53
CALLDATASIZE == 54  CALLDATACOPY == 55  CODESIZE == 56  CODECOPY == 57  GASPRICE == 58  EXTCODESIZE == 59
EXTCODECOPY == 60  RETURNDATASIZE == 61  RETURNDATACOPY == 62  EXTCODEHASH == 63
BLOCKHASH == 64  COINBASE == 65  TIMESTAMP == 66  NUMBER == 67  GASLIMIT == 68  CHAINID == 70  SELFBALANCE == 71
POP == 80  MLOAD == 81  MSTORE == 82  MSTORE8 == 83  SLOAD == 84  SSTORE == 85  JUMP == 86  JUMPI == 87
PC == 88  MSIZE == 89  GAS == 90  JUMPDEST == 91
PUSH1 == 96  PUSH32 == 127  DUP1 == 128  DUP16 == 143  SWAP1 == 144  SWAP16 == 159  LOG0 == 160  LOG4 == 164
CREATE == 240  CALL == 241  CALLCODE == 242  RETURN == 243  DELEGATECALL == 244  CREATE2 == 245
STATICCALL == 250  REVERT == 253  SELFDESTRUCT == 255

IsPush(op) == op >= PUSH1 /\ op <= PUSH32
IsDup(op)  == op >= DUP1 /\ op <= DUP16
IsSwap(op) == op >= SWAP1 /\ op <= SWAP16
IsLog(op)  == op >= LOG0 /\ op <= LOG4

\* the jump table: newV1InstructionSet, plus enable1344 in newV2InstructionSet
ValidOp(op) == \/ op \in 0..11 \/ op \in 16..29 \/ op = SHA3 \/ op \in 48..63 \/ op \in 64..68
               \/ (op = CHAINID /\ Galaxias) \/ op = SELFBALANCE
               \/ op \in 80..91 \/ op \in 96..164 \/ op \in {240, 241, 242, 243, 244, 245, 250, 253, 255}

\* minStack(pops, pushes) = pops;  maxStack(pops, pushes) = StackLimit + pops - pushes
Pops(op) == CASE op \in {STOP, ADDRESS, ORIGIN, CALLER, CALLVALUE, CALLDATASIZE, CODESIZE, GASPRICE,
                         RETURNDATASIZE, COINBASE, TIMESTAMP, NUMBER, GASLIMIT, CHAINID, SELFBALANCE,
                         PC, MSIZE, GAS, JUMPDEST} -> 0
              [] IsPush(op) -> 0
              [] op \in {ISZERO, NOT, BALANCE, CALLDATALOAD, EXTCODESIZE, EXTCODEHASH, BLOCKHASH, POP, MLOAD,
                         SLOAD, JUMP, SELFDESTRUCT} -> 1
              [] op \in {ADDMOD, MULMOD, CALLDATACOPY, CODECOPY, RETURNDATACOPY, CREATE} -> 3
              [] op \in {EXTCODECOPY, CREATE2} -> 4
              [] op \in {DELEGATECALL, STATICCALL} -> 6
              [] op \in {CALL, CALLCODE} -> 7
              [] IsDup(op)  -> op - DUP1 + 1
              [] IsSwap(op) -> op - SWAP1 + 2
              [] IsLog(op)  -> op - LOG0 + 2
              [] OTHER -> 2      \* binary ALU, SHA3, MSTORE, MSTORE8, SSTORE, JUMPI, RETURN, REVERT
Pushes(op) == CASE op \in {STOP, CALLDATACOPY, CODECOPY, EXTCODECOPY, RETURNDATACOPY, POP, MSTORE, MSTORE8,
                           SSTORE, JUMP, JUMPI, JUMPDEST, RETURN, REVERT, SELFDESTRUCT} -> 0
                [] IsLog(op)  -> 0
                [] IsDup(op)  -> op - DUP1 + 2
                [] IsSwap(op) -> op - SWAP1 + 2
                [] OTHER -> 1
\* operation.writes
Writes(op) == op \in {SSTORE, CREATE, CREATE2, SELFDESTRUCT} \/ IsLog(op)
\* valid but not modelled: after the stack and write-protection checks the verdict is "oom"
Unmodelled(op) == op = GAS

(***************************************************************************)
(* World state: a function from address ids to accounts.  An address id is   *)
(* the numeric value of a concrete 20-byte address (< 2^30) or TokBase + t   *)
(* for the symbolic address of creation number t.  Absent = not existing.    *)
(***************************************************************************)
EmptySt == [x \in {} |-> Z32]
EmptyAcct == [bal |-> 0, nonce |-> 0, code |-> <<>>, st |-> EmptySt, sd |-> FALSE]
Exists(w, a) == a \in DOMAIN w
Acct(w, a) == IF a \in DOMAIN w THEN w[a] ELSE EmptyAcct
Touch(w, a) == IF a \in DOMAIN w THEN w ELSE w @@ (a :> EmptyAcct)      \* GetOrNewStateObject
Put(w, a, r) == [x \in DOMAIN w \cup {a} |-> IF x = a THEN r ELSE w[x]]
SGet(st, k) == IF k \in DOMAIN st THEN st[k] ELSE Z32
SPut(st, k, v) == IF v = Z32 THEN [x \in DOMAIN st \ {k} |-> st[x]]
                  ELSE [x \in DOMAIN st \cup {k} |-> IF x = k THEN v ELSE st[x]]
AddBal(w, a, n) == LET w1 == Touch(w, a) IN [w1 EXCEPT ![a].bal = @ + n]
SubBal(w, a, n) == IF n = 0 THEN w ELSE [w EXCEPT ![a].bal = @ - n]
Transfer(w, from, to, n) == AddBal(SubBal(w, from, n), to, n)
\* StateDB.CreateAccount: a fresh object that keeps the balance of a previous one
CreateAcct(w, a) == Put(w, a, [EmptyAcct EXCEPT !.bal = Acct(w, a).bal])
TotalBal(w) == LET RECURSIVE S(_)
                   S(D) == IF D = {} THEN 0 ELSE LET x == CHOOSE y \in D : TRUE IN w[x].bal + S(D \ {x})
               IN S(DOMAIN w)

\* the account a word designates (common.Address(w.Bytes20())), or -1 if the specification cannot tell
AddrOf(w) == IF IsTok20(w) THEN TokBase + TokIdx(w)
             ELSE IF IsHash20(w) THEN H2Base + HashIdx20(w)
             ELSE IF (\A i \in 13..28 : w[i] = 0) /\ w[29] < 64 /\ w[30] < 256 /\ w[31] < 256 /\ w[32] < 256
                  THEN N(w) ELSE -1
AddrW(a) == IF a >= H2Base THEN [i \in 1..32 |-> IF i <= 12 THEN 0 ELSE HashB(a - H2Base, i)]
            ELSE IF a >= TokBase THEN TokW(a - TokBase) ELSE W(a)
Addr20(a) == SubSeq(AddrW(a), 13, 32)                   \* the 20 address bytes
IsPrecompile(a) == a \in 1..8          \* PrecompiledContractsV0
\* creation number of (creator, nonce): creators are numbered 1..4 (BaseAddrs) or 5 + t (created ones)
CreatorIdx(c) == IF c >= TokBase THEN 5 + (c - TokBase)
                 ELSE IF \E i \in 1..4 : BaseAddrs[i] = c THEN CHOOSE i \in 1..4 : BaseAddrs[i] = c ELSE -1
NewAddr(c, nonce) == IF CreatorIdx(c) < 0 \/ nonce > 7 \/ CreatorIdx(c) > 1000 THEN -1
                     ELSE TokBase + CreatorIdx(c) * 8 + nonce

(***************************************************************************)
(* Memory (kvm/memory.go) and data slices (kvm/utils.go)                     *)
(***************************************************************************)
\* calcMemSize64 + memoryGasCost: bytes required by region (off, size);
\*   -1 = the real machine fails for every gas limit (overflow), -2 = out of the model
\* a concrete value >= 2^40: as a memory offset or size it exceeds the 0x1FFFFFFFE0 bound of memoryGasCost (or
\* overflows calcMemSize64 / toWordSize), so the instruction fails whatever the gas limit is
Big40(w) == Conc(w) /\ (w[25] # 0 \/ w[26] # 0 \/ w[27] # 0)
Req(off, size) == IF size = Z32 THEN 0
                  ELSE IF Huge(off) \/ Huge(size) \/ Big40(off) \/ Big40(size) THEN -1
                  ELSE IF SmallLe(off, MemCap) /\ SmallLe(size, MemCap) /\ N(off) + N(size) <= MemCap
                       THEN N(off) + N(size) ELSE -2
Max(a, b) == IF a >= b THEN a ELSE b
\* the larger of two requirements, failures first (memoryCall returns on the first overflow)
Req2(r1, r2) == IF r1 = -1 \/ r2 = -1 THEN -1 ELSE IF r1 = -2 \/ r2 = -2 THEN -2 ELSE Max(r1, r2)
Expand(mem, n) == IF n <= Len(mem) THEN mem
                  ELSE mem \o [i \in 1..(((n + 31) \div 32) * 32 - Len(mem)) |-> 0]
MemGet(mem, off, size) == IF size = 0 THEN <<>> ELSE SubSeq(mem, off + 1, off + size)
\* Memory.Set(off, size, value) copies min(size, len(value)) bytes
Take(s, n) == IF n >= Len(s) THEN s ELSE SubSeq(s, 1, n)
MemSet(mem, off, bytes) == IF bytes = <<>> THEN mem
                           ELSE [i \in 1..Len(mem) |-> IF i > off /\ i <= off + Len(bytes) THEN bytes[i - off] ELSE mem[i]]
\* getData(data, start, size): zero padded slice; start beyond the data gives zeros
GetData(d, s, n) == [i \in 1..n |-> IF s + i <= Len(d) THEN d[s + i] ELSE 0]
\* a data offset operand: natural, or Len(d) when certainly beyond, or -2 unknown
DataOff(w, d) == IF Small(w) THEN (IF N(w) > Len(d) THEN Len(d) ELSE N(w))
                 ELSE IF Conc(w) \/ Huge(w) THEN Len(d) ELSE -2

(***************************************************************************)
(* Jump destination analysis (kvm/contract.go)                               *)
(***************************************************************************)
PushLen(b) == IF IsPush(b) THEN b - PUSH1 + 1 ELSE 0
RECURSIVE IsCodePos(_, _, _)
\* scanning from pc, is t the position of an opcode (not PUSH data)?   (codeBitmap / isCode)
IsCodePos(code, pc, t) == IF pc = t THEN TRUE ELSE IF pc > t THEN FALSE
                          ELSE IsCodePos(code, pc + 1 + PushLen(code[pc + 1]), t)
\* "T" / "F" / "U"
ValidJumpdest(code, w) == IF Small(w)
                          THEN IF N(w) < Len(code) /\ code[N(w) + 1] = JUMPDEST /\ IsCodePos(code, 0, N(w))
                               THEN "T" ELSE "F"
                          ELSE IF Conc(w) \/ Huge(w) THEN "F" ELSE "U"

(***************************************************************************)
(* Machine state.                                                            *)
(*   fr   call stack; fr[1] is the ROOT pseudo-frame of the transaction      *)
(*        sender (no code), fr[2] the frame kvm.Call / kvm.Create started,   *)
(*        so kvm.depth = Len(fr) - 1                                         *)
(*   w    world,  lg  logs of the transaction                                *)
(*   halt "" while running; "ok" / "rev" (ErrExecutionReverted) / "fail"     *)
(*        (any other error) when the outermost call returned; "oom"/"fuel"   *)
(*   ret  return data of the outermost call                                  *)
(*   gf   some frame failed for a gas-class reason the specification knows   *)
(*   n, hw, dp   steps, highest stack, deepest kvm.depth (for invariants)    *)
(*   hs   the distinct byte strings hashed so far (Keccak is uninterpreted:   *)
(*        the h-th one has the hash HashW(h)); never reverted                *)
(*   fc, par, bad, gw  ghost: frame counter, parent id of every frame,       *)
(*        ids of failed frames, journal of SSTORE/LOG writes                 *)
(*        <<frame id, ro, kind, account, key, value>>                        *)
(* A frame: kind, self (storage/balance context), caddr (CALLER), val        *)
(* (CALLVALUE), code, pc, st (top = last), mem, inp, rd (return data buffer),*)
(* ro (static), sw/sl (snapshot of w/lg taken on entry), out (where the      *)
(* caller wants the output: <<offset, size>>), id (ghost).                   *)
(***************************************************************************)
RootFrame == [kind |-> "root", self |-> Origin, caddr |-> Origin, val |-> 0, code |-> <<>>, pc |-> 0,
              st |-> <<>>, mem |-> <<>>, inp |-> <<>>, rd |-> <<>>, ro |-> FALSE,
              sw |-> <<>>, sl |-> <<>>, out |-> <<0, 0>>, id |-> 0]
InitMachine(w0) == [fr |-> <<RootFrame>>, w |-> w0, lg |-> <<>>, halt |-> "", ret |-> <<>>, gf |-> FALSE,
                    n |-> 0, hw |-> 0, dp |-> 0, hs |-> <<>>, fc |-> 0, par |-> <<>>, bad |-> {}, gw |-> <<>>]

Top(m) == m.fr[Len(m.fr)]
SetTop(m, f) == [m EXCEPT !.fr[Len(m.fr)] = f]
Depth(m) == Len(m.fr) - 1                       \* kvm.depth
Peek(st, k) == st[Len(st) - k]                  \* stack.Back(k)
Drop(st, k) == SubSeq(st, 1, Len(st) - k)
Oom(m) == [m EXCEPT !.halt = "oom"]

(***************************************************************************)
(* ReturnTo: the caller (now on top) receives the outcome of a call/create.  *)
(* opCall & co: push 1/0, copy the output into the requested region on       *)
(* success AND on revert, keep it as return data; on other errors ret = nil. *)
(* opCreate: push the address or 0; return data only after a revert.         *)
(* For the root frame the outcome is the result of the transaction.          *)
(***************************************************************************)
ReturnTo(m, isCreate, status, ret, out, addrW) ==
  LET p == Top(m) IN
  IF p.kind = "root"
  THEN [m EXCEPT !.halt = status, !.ret = IF status = "fail" THEN <<>> ELSE ret]
  ELSE LET flag == IF isCreate THEN (IF status = "ok" THEN addrW ELSE Z32) ELSE BoolW(status = "ok")
           mem1 == IF ~isCreate /\ status # "fail" THEN MemSet(p.mem, out[1], Take(ret, out[2])) ELSE p.mem
           rd1  == IF isCreate THEN (IF status = "rev" THEN ret ELSE <<>>)
                   ELSE (IF status = "fail" THEN <<>> ELSE ret)
       IN SetTop(m, [p EXCEPT !.st = Append(p.st, flag), !.mem = mem1, !.rd = rd1, !.pc = p.pc + 1])

(***************************************************************************)
(* Finish: the running frame ends with (status, ret).  kvm.Call & co:        *)
(* `if err != nil { RevertToSnapshot(snapshot) }`.  create(): code deposit   *)
(* (MaxCodeSize) on success.                                                 *)
(***************************************************************************)
Finish(m, status, ret) ==
  LET f == Top(m)
      isCr == f.kind = "create"
      st1 == IF isCr /\ status = "ok" /\ Len(ret) > MaxCodeSize THEN "fail" ELSE status
      w1 == IF st1 = "ok" THEN (IF isCr THEN [m.w EXCEPT ![f.self].code = ret] ELSE m.w) ELSE f.sw
      l1 == IF st1 = "ok" THEN m.lg ELSE f.sl
      m1 == [m EXCEPT !.fr = SubSeq(m.fr, 1, Len(m.fr) - 1), !.w = w1, !.lg = l1,
                      !.bad = IF st1 = "ok" THEN m.bad ELSE m.bad \cup {f.id}]
  IN ReturnTo(m1, isCr, st1, ret, f.out, AddrW(f.self))
FailFrame(m) == Finish(m, "fail", <<>>)
GasFail(m) == Finish([m EXCEPT !.gf = TRUE], "fail", <<>>)

\* a new frame on top (interpreter.Run: fresh stack, memory, return data buffer)
Enter(m, kind, self, caddr, val, code, inp, ro, sw, out) ==
  IF \E i \in 1..Len(code) : code[i] > 255 THEN Oom(m)          \* code with symbolic bytes
  ELSE LET id == m.fc + 1
           f == [kind |-> kind, self |-> self, caddr |-> caddr, val |-> val, code |-> code, pc |-> 0,
                 st |-> <<>>, mem |-> <<>>, inp |-> inp, rd |-> <<>>, ro |-> ro,
                 sw |-> sw, sl |-> m.lg, out |-> out, id |-> id]
       IN [m EXCEPT !.fr = Append(m.fr, f), !.fc = id, !.par = Append(m.par, Top(m).id), !.dp = Max(m.dp, Len(m.fr))]

\* value operand of CALL / CALLCODE / CREATE: a natural, -1 = certainly more than any balance, -2 unknown
ValOf(vw) == IF Small(vw) THEN N(vw) ELSE IF Conc(vw) \/ Huge(vw) THEN -1 ELSE -2

(***************************************************************************)
(* DoCall: kvm.Call / CallCode / DelegateCall / StaticCall, invoked with the *)
(* caller p on top (arguments popped, memory expanded).  op is the opcode.   *)
(***************************************************************************)
DoCall(m, op, toW, vw, args, out) ==
  LET p == Top(m)
      v == IF op \in {CALL, CALLCODE} THEN ValOf(vw) ELSE 0
      to == AddrOf(toW)
      failed == ReturnTo(m, FALSE, "fail", <<>>, out, Z32)
      okWith(w1, ret) == ReturnTo([m EXCEPT !.w = w1], FALSE, "ok", ret, out, Z32)
  IN
  IF Depth(m) > DepthLimit THEN failed                                    \* ErrDepth
  ELSE IF v = -2 THEN Oom(m)
  ELSE IF v = -1 \/ v > Acct(m.w, p.self).bal THEN failed                  \* ErrInsufficientBalance
  ELSE IF to < 0 THEN Oom(m)
  ELSE IF IsPrecompile(to) /\ to # 4 THEN Oom(m)                           \* cryptographic precompiles
  ELSE CASE op = CALL ->
              IF ~Exists(m.w, to) /\ ~IsPrecompile(to) /\ v = 0 THEN okWith(m.w, <<>>)
              ELSE LET w1 == IF Exists(m.w, to) THEN m.w ELSE CreateAcct(m.w, to)
                       w2 == Transfer(w1, p.self, to, v)
                   IN IF to = 4 THEN okWith(w2, args)                      \* identity: a COPY of the input
                      ELSE IF w2[to].code = <<>> THEN okWith(w2, <<>>)
                      ELSE Enter([m EXCEPT !.w = w2], "call", to, p.self, v, w2[to].code, args, p.ro, m.w, out)
         [] op = CALLCODE ->
              IF to = 4 THEN okWith(m.w, args)
              ELSE IF Acct(m.w, to).code = <<>> THEN okWith(m.w, <<>>)
              ELSE Enter(m, "callcode", p.self, p.self, v, Acct(m.w, to).code, args, p.ro, m.w, out)
         [] op = DELEGATECALL ->
              IF to = 4 THEN okWith(m.w, args)
              ELSE IF Acct(m.w, to).code = <<>> THEN okWith(m.w, <<>>)
              ELSE Enter(m, "delegate", p.self, p.caddr, p.val, Acct(m.w, to).code, args, p.ro, m.w, out)
         [] op = STATICCALL ->
              LET w1 == Touch(m.w, to) IN                                  \* AddBalance(addr, 0)
              IF to = 4 THEN okWith(w1, args)
              ELSE IF w1[to].code = <<>> THEN okWith(w1, <<>>)
              ELSE Enter([m EXCEPT !.w = w1], "static", to, p.self, 0, w1[to].code, args, TRUE, m.w, out)

(***************************************************************************)
(* DoCreate: kvm.Create -> create().  The creator's nonce is incremented     *)
(* BEFORE the snapshot, so it survives a failed creation.                    *)
(***************************************************************************)
\* Intern: the number of byte string d in the list of hashed strings (appended when new)
HashNo(hs, d) == IF \E k \in 1..Len(hs) : hs[k] = d THEN CHOOSE k \in 1..Len(hs) : hs[k] = d ELSE Len(hs) + 1
HashAdd(hs, d) == IF \E k \in 1..Len(hs) : hs[k] = d THEN hs ELSE Append(hs, d)

\* create() with the address a already derived (a < 0: the specification cannot name it)
DoCreateAt(m, vw, init, a) ==
  LET p == Top(m)
      v == ValOf(vw)
      failedW(w1) == ReturnTo([m EXCEPT !.w = w1], TRUE, "fail", <<>>, <<0, 0>>, Z32)
  IN
  IF Depth(m) > DepthLimit THEN failedW(m.w)
  ELSE IF v = -2 THEN Oom(m)
  ELSE IF v = -1 \/ v > Acct(m.w, p.self).bal THEN failedW(m.w)
  ELSE IF a < 0 THEN Oom(m)
  ELSE LET nonce == Acct(m.w, p.self).nonce
           w1 == [Touch(m.w, p.self) EXCEPT ![p.self].nonce = nonce + 1]
       IN IF Acct(w1, a).nonce # 0 \/ Acct(w1, a).code # <<>> THEN failedW(w1)    \* ErrContractAddressCollision
          ELSE LET w2 == [CreateAcct(w1, a) EXCEPT ![a].nonce = 1]
                   w3 == Transfer(w2, p.self, a, v)
               IN IF init = <<>>                                    \* Run returns at once: empty code
                  THEN ReturnTo([m EXCEPT !.w = w3], TRUE, "ok", <<>>, <<0, 0>>, AddrW(a))
                  ELSE Enter([m EXCEPT !.w = w3], "create", a, p.self, v, init, <<>>, p.ro, w1, <<0, 0>>)
\* CREATE: address = hash of (creator, nonce)
DoCreate(m, vw, init) == LET p == Top(m) IN DoCreateAt(m, vw, init, NewAddr(p.self, Acct(m.w, p.self).nonce))
\* CREATE2: address = low 20 bytes of keccak(0xff ++ creator ++ salt ++ keccak(init code))  (crypto.CreateAddress2)
DoCreate2(m, vw, init, saltW) ==
  LET p == Top(m)
      hs1 == HashAdd(m.hs, init)
      pre == <<255>> \o Addr20(p.self) \o saltW \o HashW(HashNo(hs1, init))
      hs2 == HashAdd(hs1, pre)
  IN DoCreateAt([m EXCEPT !.hs = hs2], vw, init, H2Base + HashNo(hs2, pre))

(***************************************************************************)
(* Instruction helpers.  f is the running frame; Adv = "pc++".               *)
(***************************************************************************)
Adv(m, f) == SetTop(m, [f EXCEPT !.pc = f.pc + 1])
\* replace the k top items by the word r (OOMW = no verdict)
Res(m, f, k, r) == IF r = OOMW THEN Oom(m) ELSE Adv(m, [f EXCEPT !.st = Append(Drop(f.st, k), r)])
PushW(m, f, r) == Res(m, f, 0, r)
\* memory requirement n: -1 gas-class failure, -2 out of the model
MemThen(m, n, cont(_)) == IF n = -1 THEN GasFail(m) ELSE IF n = -2 THEN Oom(m) ELSE cont(n)
ByteAt(code, k) == IF k <= Len(code) THEN code[k] ELSE 0

Journal(m, f, kind, key, val) == Append(m.gw, <<f.id, f.ro, kind, f.self, key, val>>)

\* CALLDATACOPY / CODECOPY / EXTCODECOPY: copy a zero padded slice of `src` into memory
CopyOp(m, f, k, memW, offW, lenW, src) ==
  LET go(n) == LET o == DataOff(offW, src) IN
               IF o = -2 THEN Oom(m)
               ELSE LET len == IF lenW = Z32 THEN 0 ELSE N(lenW)
                        mem1 == Expand(f.mem, n)
                    IN Adv(m, [f EXCEPT !.st = Drop(f.st, k),
                                         !.mem = IF len = 0 THEN mem1 ELSE MemSet(mem1, N(memW), GetData(src, o, len))])
  IN MemThen(m, Req(memW, lenW), go)

(***************************************************************************)
(* Exec: one arm per instruction (kvm/instructions.go).  x = top, y = second *)
(***************************************************************************)
Exec(m, f, op) ==
  LET s == f.st
      x == Peek(s, 0)  y == Peek(s, 1)  z == Peek(s, 2)
      self == Acct(m.w, f.self)
  IN
  CASE op = STOP -> Finish(m, "ok", <<>>)
    [] op = ADD -> Res(m, f, 2, AddW(x, y))
    [] op = MUL -> Res(m, f, 2, MulW(x, y))
    [] op = SUB -> Res(m, f, 2, SubW(x, y))
    [] op = DIV -> Res(m, f, 2, DivW(x, y))
    [] op = SDIV -> Res(m, f, 2, SdivW(x, y))
    [] op = MOD -> Res(m, f, 2, ModW(x, y))
    [] op = SMOD -> Res(m, f, 2, SmodW(x, y))
    [] op = ADDMOD -> Res(m, f, 3, AddmodW(x, y, z))
    [] op = MULMOD -> Res(m, f, 3, MulmodW(x, y, z))
    [] op = EXP -> Res(m, f, 2, ExpW(x, y))
    [] op = SIGNEXTEND -> Res(m, f, 2, SignExtW(x, y))
    [] op = LT -> Res(m, f, 2, LtW(x, y))
    [] op = GT -> Res(m, f, 2, GtW(x, y))
    [] op = SLT -> Res(m, f, 2, SltW(x, y))
    [] op = SGT -> Res(m, f, 2, SgtW(x, y))
    [] op = EQ -> Res(m, f, 2, EqW(x, y))
    [] op = ISZERO -> Res(m, f, 1, IsZeroW(x))
    [] op = AND -> Res(m, f, 2, AndW(x, y))
    [] op = OR -> Res(m, f, 2, OrW(x, y))
    [] op = XOR -> Res(m, f, 2, XorW(x, y))
    [] op = NOT -> Res(m, f, 1, NotOp(x))
    [] op = BYTE -> Res(m, f, 2, ByteW(x, y))
    [] op = SHL -> Res(m, f, 2, ShlW(x, y))
    [] op = SHR -> Res(m, f, 2, ShrW(x, y))
    [] op = SAR -> Res(m, f, 2, SarW(x, y))
    [] op = SHA3 ->     \* offset x, size y: the hashed string is the memory slice, zero-extended by the expansion
         LET go(n) == LET mem1 == Expand(f.mem, n)
                          d == MemGet(mem1, IF y = Z32 THEN 0 ELSE N(x), IF y = Z32 THEN 0 ELSE N(y))
                      IN Adv([m EXCEPT !.hs = HashAdd(m.hs, d)],
                             [f EXCEPT !.mem = mem1, !.st = Append(Drop(s, 2), HashW(HashNo(HashAdd(m.hs, d), d)))])
         IN MemThen(m, Req(x, y), go)
    \* ---- environment
    [] op = ADDRESS -> PushW(m, f, AddrW(f.self))
    [] op = BALANCE -> IF AddrOf(x) < 0 THEN Oom(m) ELSE Res(m, f, 1, W(Acct(m.w, AddrOf(x)).bal))
    [] op = ORIGIN -> PushW(m, f, AddrW(Origin))
    [] op = CALLER -> PushW(m, f, AddrW(f.caddr))
    [] op = CALLVALUE -> PushW(m, f, W(f.val))
    [] op = CALLDATALOAD -> LET o == DataOff(x, f.inp) IN
                            IF o = -2 THEN Oom(m) ELSE Res(m, f, 1, GetData(f.inp, o, 32))
    [] op = CALLDATASIZE -> PushW(m, f, W(Len(f.inp)))
    [] op = CALLDATACOPY -> CopyOp(m, f, 3, x, y, z, f.inp)
    [] op = CODESIZE -> PushW(m, f, W(Len(f.code)))
    [] op = CODECOPY -> CopyOp(m, f, 3, x, y, z, f.code)
    [] op = GASPRICE -> PushW(m, f, W(GasPriceC))
    [] op = EXTCODESIZE -> IF AddrOf(x) < 0 THEN Oom(m) ELSE Res(m, f, 1, W(Len(Acct(m.w, AddrOf(x)).code)))
    [] op = EXTCODECOPY -> IF AddrOf(x) < 0 THEN Oom(m)
                           ELSE CopyOp(m, f, 4, y, z, Peek(s, 3), Acct(m.w, AddrOf(x)).code)
    [] op = EXTCODEHASH ->      \* 0 for an empty (or absent) account, else the hash of its code
         IF AddrOf(x) < 0 THEN Oom(m)
         ELSE LET ac == Acct(m.w, AddrOf(x)) IN
              IF ac.nonce = 0 /\ ac.bal = 0 /\ ac.code = <<>> THEN Res(m, f, 1, Z32)
              ELSE Res([m EXCEPT !.hs = HashAdd(m.hs, ac.code)], f, 1, HashW(HashNo(HashAdd(m.hs, ac.code), ac.code)))
    [] op = RETURNDATASIZE -> PushW(m, f, W(Len(f.rd)))
    [] op = RETURNDATACOPY ->
         \* memory is expanded first; then: offset not uint64, or offset + length beyond the buffer -> error
         LET go(n) == IF ~(Conc(y) \/ Huge(y)) THEN Oom(m)
                      ELSE LET len == IF z = Z32 THEN 0 ELSE N(z) IN
                           IF ~SmallLe(y, B30) \/ N(y) + len > Len(f.rd) THEN FailFrame(m)  \* ErrReturnDataOutOfBounds
                           ELSE LET mem1 == Expand(f.mem, n) IN
                                Adv(m, [f EXCEPT !.st = Drop(s, 3),
                                                 !.mem = IF len = 0 THEN mem1
                                                         ELSE MemSet(mem1, N(x), SubSeq(f.rd, N(y) + 1, N(y) + len))])
         IN MemThen(m, Req(x, z), go)
    [] op = BLOCKHASH -> IF Small(x) THEN Res(m, f, 1, IF N(x) < NumberC /\ N(x) + 256 >= NumberC
                                                      THEN W(HashBase + N(x)) ELSE Z32)
                         ELSE IF Conc(x) \/ Huge(x) THEN Res(m, f, 1, Z32) ELSE Oom(m)
    [] op = COINBASE -> PushW(m, f, W(CoinbaseA))
    [] op = TIMESTAMP -> PushW(m, f, W(TimeC))
    [] op = NUMBER -> PushW(m, f, W(NumberC))
    [] op = GASLIMIT -> PushW(m, f, W(GasLimitC))
    [] op = CHAINID -> PushW(m, f, W(ChainIdC))
    [] op = SELFBALANCE -> PushW(m, f, W(self.bal))
    \* ---- stack, memory, storage, flow
    [] op = POP -> Adv(m, [f EXCEPT !.st = Drop(s, 1)])
    [] op = MLOAD -> LET go(n) == LET mem1 == Expand(f.mem, n) IN
                                  Adv(m, [f EXCEPT !.mem = mem1, !.st = Append(Drop(s, 1), SubSeq(mem1, N(x) + 1, N(x) + 32))])
                     IN MemThen(m, Req(x, W(32)), go)
    [] op = MSTORE -> LET go(n) == Adv(m, [f EXCEPT !.st = Drop(s, 2), !.mem = MemSet(Expand(f.mem, n), N(x), y)])
                      IN MemThen(m, Req(x, W(32)), go)
    [] op = MSTORE8 -> LET go(n) == Adv(m, [f EXCEPT !.st = Drop(s, 2), !.mem = MemSet(Expand(f.mem, n), N(x), <<y[32]>>)])
                       IN MemThen(m, Req(x, One), go)
    [] op = SLOAD -> Res(m, f, 1, SGet(self.st, x))
    [] op = SSTORE -> Adv([m EXCEPT !.w = [Touch(m.w, f.self) EXCEPT ![f.self].st = SPut(self.st, x, y)],
                                    !.gw = Journal(m, f, "st", x, y)],
                          [f EXCEPT !.st = Drop(s, 2)])
    [] op = JUMP -> LET v == ValidJumpdest(f.code, x) IN
                    IF v = "U" THEN Oom(m) ELSE IF v = "F" THEN FailFrame(m)           \* ErrInvalidJump
                    ELSE SetTop(m, [f EXCEPT !.st = Drop(s, 1), !.pc = N(x)])
    [] op = JUMPI -> LET c == NonZero(y) IN
                     IF c = "U" THEN Oom(m)
                     ELSE IF c = "F" THEN Adv(m, [f EXCEPT !.st = Drop(s, 2)])
                     ELSE LET v == ValidJumpdest(f.code, x) IN
                          IF v = "U" THEN Oom(m) ELSE IF v = "F" THEN FailFrame(m)
                          ELSE SetTop(m, [f EXCEPT !.st = Drop(s, 2), !.pc = N(x)])
    [] op = PC -> PushW(m, f, W(f.pc))
    [] op = MSIZE -> PushW(m, f, W(Len(f.mem)))
    [] op = JUMPDEST -> Adv(m, f)
    [] IsPush(op) -> LET n == op - PUSH1 + 1       \* RightPadBytes(code[pc+1 : pc+1+n], n), big endian
                     IN SetTop(m, [f EXCEPT !.st = Append(s, [i \in 1..32 |-> IF i <= 32 - n THEN 0
                                                              ELSE ByteAt(f.code, f.pc + 1 + (i - (32 - n)))]),
                                            !.pc = f.pc + n + 1])
    [] IsDup(op) -> Adv(m, [f EXCEPT !.st = Append(s, Peek(s, op - DUP1))])
    [] IsSwap(op) -> LET k == op - SWAP1 + 1  l == Len(s) IN
                     Adv(m, [f EXCEPT !.st = [s EXCEPT ![l] = s[l - k], ![l - k] = s[l]]])
    [] IsLog(op) -> LET nt == op - LOG0
                        go(n) == LET mem1 == Expand(f.mem, n)
                                     d == MemGet(mem1, IF y = Z32 THEN 0 ELSE N(x), IF y = Z32 THEN 0 ELSE N(y))
                                     tp == [i \in 1..nt |-> Peek(s, 1 + i)]
                                 IN Adv([m EXCEPT !.lg = Append(m.lg, [a |-> f.self, t |-> tp, d |-> d]),
                                                  !.gw = Journal(m, f, "log", tp, d)],
                                        [f EXCEPT !.st = Drop(s, 2 + nt), !.mem = mem1])
                    IN MemThen(m, Req(x, y), go)
    \* ---- frames
    [] op \in {RETURN, REVERT} ->
         LET go(n) == LET mem1 == Expand(f.mem, n)
                          d == MemGet(mem1, IF y = Z32 THEN 0 ELSE N(x), IF y = Z32 THEN 0 ELSE N(y))
                      IN Finish(m, IF op = RETURN THEN "ok" ELSE "rev", d)
         IN MemThen(m, Req(x, y), go)
    [] op = SELFDESTRUCT ->
         LET b == AddrOf(x) IN
         IF b < 0 THEN Oom(m)
         ELSE LET w1 == AddBal(m.w, b, self.bal)                 \* AddBalance(beneficiary, balance)
                  w2 == [w1 EXCEPT ![f.self].bal = 0, ![f.self].sd = TRUE]   \* Suicide(self)
              IN Finish([m EXCEPT !.w = w2], "ok", <<>>)
    [] op \in {CALL, CALLCODE} ->
         \* gas x, to y, value z, in (3,4), out (5,6)
         LET io == Peek(s, 3)  is == Peek(s, 4)  oo == Peek(s, 5)  os == Peek(s, 6)
             go(n) == LET mem1 == Expand(f.mem, n)
                          args == MemGet(mem1, IF is = Z32 THEN 0 ELSE N(io), IF is = Z32 THEN 0 ELSE N(is))
                          out == IF os = Z32 THEN <<0, 0>> ELSE <<N(oo), N(os)>>
                      IN DoCall(SetTop(m, [f EXCEPT !.st = Drop(s, 7), !.mem = mem1]), op, y, z, args, out)
         IN MemThen(m, Req2(Req(oo, os), Req(io, is)), go)
    [] op \in {DELEGATECALL, STATICCALL} ->
         LET io == Peek(s, 2)  is == Peek(s, 3)  oo == Peek(s, 4)  os == Peek(s, 5)
             go(n) == LET mem1 == Expand(f.mem, n)
                          args == MemGet(mem1, IF is = Z32 THEN 0 ELSE N(io), IF is = Z32 THEN 0 ELSE N(is))
                          out == IF os = Z32 THEN <<0, 0>> ELSE <<N(oo), N(os)>>
                      IN DoCall(SetTop(m, [f EXCEPT !.st = Drop(s, 6), !.mem = mem1]), op, y, Z32, args, out)
         IN MemThen(m, Req2(Req(oo, os), Req(io, is)), go)
    [] op = CREATE ->
         \* value x, offset y, size z
         LET go(n) == LET mem1 == Expand(f.mem, n)
                          init == MemGet(mem1, IF z = Z32 THEN 0 ELSE N(y), IF z = Z32 THEN 0 ELSE N(z))
                      IN DoCreate(SetTop(m, [f EXCEPT !.st = Drop(s, 3), !.mem = mem1]), x, init)
         IN MemThen(m, Req(y, z), go)
    [] op = CREATE2 ->
         \* endowment x, offset y, size z, salt
         LET go(n) == LET mem1 == Expand(f.mem, n)
                          init == MemGet(mem1, IF z = Z32 THEN 0 ELSE N(y), IF z = Z32 THEN 0 ELSE N(z))
                      IN DoCreate2(SetTop(m, [f EXCEPT !.st = Drop(s, 4), !.mem = mem1]), x, init, Peek(s, 3))
         IN MemThen(m, Req(y, z), go)
    [] OTHER -> Oom(m)

(***************************************************************************)
(* Step: one iteration of the loop of Interpreter.Run on the top frame.      *)
(***************************************************************************)
Step(m) ==
  LET f == Top(m)
      op == ByteAt(f.code, f.pc + 1)          \* GetOp: STOP beyond the end of the code
      m0 == [m EXCEPT !.n = m.n + 1, !.hw = Max(m.hw, Len(f.st))]
  IN IF ~ValidOp(op) THEN FailFrame(m0)                                           \* ErrInvalidOpCode
     ELSE IF Len(f.st) < Pops(op) THEN FailFrame(m0)                              \* ErrStackUnderflow
     ELSE IF Len(f.st) > StackLimit + Pops(op) - Pushes(op) THEN FailFrame(m0)    \* ErrStackOverflow
     ELSE IF f.ro /\ (Writes(op) \/ (op = CALL /\ NonZero(Peek(f.st, 2)) = "T")) THEN FailFrame(m0)  \* ErrWriteProtection
     ELSE IF f.ro /\ op = CALL /\ NonZero(Peek(f.st, 2)) = "U" THEN Oom(m0)
     ELSE IF Unmodelled(op) THEN Oom(m0)
     ELSE Exec(m0, f, op)

Running(m) == m.halt = ""
RECURSIVE Run(_)
Run(m) == IF ~Running(m) THEN m
          ELSE IF Fuel > 0 /\ m.n >= Fuel THEN [m EXCEPT !.halt = "fuel"]
          ELSE Run(Step(m))

(***************************************************************************)
(* The designated out-of-gas point.  Gas is abstract, but one consequence of *)
(* running out of it is specified: if the outermost frame cannot pay for an  *)
(* instruction, the call ends with an error, no return data, no gas left and *)
(* the world and logs of before the call (kvm.Call: RevertToSnapshot, gas=0).*)
(* The driver reaches that point by supplying one unit less than a           *)
(* single-frame run consumed.                                                *)
(***************************************************************************)
OutOfGas(w0) == [InitMachine(w0) EXCEPT !.halt = "fail", !.gf = TRUE]

\* the two entry points of the driver: kvm.Call(AccountRef(Origin), to, input, gas, value) and kvm.Create
StartCall(w0, to, value, input) == DoCall(InitMachine(w0), CALL, W(to), W(value), input, <<0, 0>>)
StartCreate(w0, value, init) == DoCreate(InitMachine(w0), W(value), init)

(***************************************************************************)
(* Properties of a finished run (checked by the MC modules on every program) *)
(***************************************************************************)
Verdict(m) == m.halt \in {"ok", "rev", "fail"}
\* the stack and the call depth never exceed their limits
Bounded(m) == m.hw <= StackLimit /\ m.dp <= DepthLimit + 1
\* no write was performed in a static context
StaticClean(m) == \A i \in 1..Len(m.gw) : ~m.gw[i][2]
\* journal formulation of "a reverted or failed frame leaves no state change": the final storage and
\* logs are exactly the writes of the frames none of whose ancestors (or themselves) failed, in order
\* the writing frame and all its ancestors (par: parent ids; 0 = the root) ended successfully
Committed(m, i) == LET RECURSIVE Good(_)
                       Good(id) == id = 0 \/ (id \notin m.bad /\ Good(m.par[id]))
                   IN Good(m.gw[i][1])
LastWrite(m, a, k) == LET I == {i \in 1..Len(m.gw) : m.gw[i][3] = "st" /\ m.gw[i][4] = a /\ m.gw[i][5] = k /\ Committed(m, i)}
                      IN IF I = {} THEN 0 ELSE CHOOSE i \in I : \A j \in I : j <= i
JournalAgrees(m, w0) ==
  /\ \A a \in DOMAIN m.w \cup DOMAIN w0 :
       \A k \in DOMAIN Acct(m.w, a).st \cup DOMAIN Acct(w0, a).st \cup {m.gw[i][5] : i \in {j \in 1..Len(m.gw) : m.gw[j][3] = "st"}} :
          LET i == LastWrite(m, a, k) IN
          SGet(Acct(m.w, a).st, k) = IF i = 0 THEN SGet(Acct(w0, a).st, k) ELSE m.gw[i][6]
  /\ LET L == {i \in 1..Len(m.gw) : m.gw[i][3] = "log" /\ Committed(m, i)}
     IN /\ Cardinality(L) = Len(m.lg)
        /\ \A i \in L : LET r == Cardinality({j \in L : j <= i}) IN
                        m.lg[r].a = m.gw[i][4] /\ m.lg[r].t = m.gw[i][5] /\ m.lg[r].d = m.gw[i][6]
\* an unsuccessful outermost call changes nothing (except the nonce of a creating sender)
FailedTopClean(m, w0) == m.halt \in {"rev", "fail"} =>
                            /\ m.lg = <<>>
                            /\ \A a \in DOMAIN m.w \cup DOMAIN w0 :
                                 LET x == Acct(m.w, a)  y == Acct(w0, a) IN
                                 x.bal = y.bal /\ x.st = y.st /\ x.code = y.code /\ x.sd = y.sd
\* value is conserved; SELFDESTRUCT to oneself burns (AddBalance then Suicide zeroes it)
NoValueCreated(m, w0) == Verdict(m) => TotalBal(m.w) <= TotalBal(w0)
=============================================================================
