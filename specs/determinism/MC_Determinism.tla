---------------------------- MODULE MC_Determinism ----------------------------
(***************************************************************************)
(* Model for TLC: the consensus-level consequences of C06.                  *)
(*                                                                         *)
(* Nodes run the actions of Determinism.tla: every node executes the        *)
(* genesis document, proposes blocks built from ITS OWN state               *)
(* (BlockOperations.CreateProposalBlock: height, LastBlockID, AppHash and   *)
(* NextValidatorsHash are copied from the proposer's LatestBlockState) and  *)
(* applies the blocks consensus decides (BlockExecutor.ApplyBlock, which    *)
(* first runs validateBlock against the node's own state).                  *)
(*                                                                         *)
(* The application is ABSTRACT: what a block does is not modelled, only     *)
(* that an execution has SOME result -- the result of every single          *)
(* execution is chosen freely (\E salt), i.e. the model allows every        *)
(* conceivable dependence on configuration, cache state, iteration order    *)
(* or process.  With FaithfulGen = FaithfulExec = TRUE the executions are   *)
(* the guarded actions of Determinism.tla (a result must be explained by    *)
(* the tables): then the invariants below hold.  With one of them FALSE the *)
(* guards of that kind of execution are dropped (what the real code would   *)
(* be if C06 failed): the same invariants are violated (companion runs of   *)
(* checks/C06.py, which must report the violation -- the invariants are     *)
(* not vacuous).                                                            *)
(*                                                                         *)
(* The validators a block's execution reports are a function of its payload *)
(* (constant Reports), given to consensus in ANY ORDER: the model converts  *)
(* every permutation to the same set (Determinism!AsSet), which is the      *)
(* content of ValUpdateOrderIndependent at this level; the arithmetic       *)
(* level is MC_ValUpdates.tla.                                              *)
(*                                                                         *)
(* Not modelled here (other properties): which block is decided when        *)
(* several are proposed (C01 -- `decided` is an oracle that fixes one       *)
(* block per height), who may propose (C12), block validity beyond the      *)
(* fields that depend on execution (C03, C13).                              *)
(***************************************************************************)
EXTENDS Determinism

CONSTANTS Nodes,      \* node identities (strings)
          Payloads,   \* what a block can carry (identities)
          Reports,    \* Reports[p]: the validator set the application reports after a block with payload p ({} = nothing)
          GenVals,    \* NextValidators of the genesis state: set of <<address, power>>
          MaxH,       \* heights explored
          MaxProps,   \* proposals per height (each by another node)
          Salts,      \* how many different results one execution may choose from
          FaithfulGen,  \* TRUE: genesis executions obey the table (the specification); FALSE: anything goes
          FaithfulExec  \* the same for block executions

VARIABLES blocks,     \* proposals: [h, last, app, nvh, pay, by]  (last: identity of the previous block)
          decided     \* decided blocks: at most one per height (C01)

vars == <<gen, exec, upd, run, blocks, decided>>

Doc == "doc"

(* the identity (hash) of a block covers all of its content, hence its ancestry *)
Id(b) == <<"block", b.h, b.last, b.app, b.nvh, b.pay, b.by>>

(* ---- abstract application: an injective constructor per observable, salted ---- *)
GenResult(s) == [root |-> <<"root", s>>, hash |-> <<"genesis", s, 0>>, nv |-> <<"nv0", s>>, nvs |-> GenVals]
ExecResult(par, b, s) ==
  [app |-> <<"app", par, Id(b), s>>, rcp |-> <<"rcp", b.pay, s>>, blm |-> <<"blm", b.pay, s>>, gas |-> s, rew |-> <<"rew", b.h>>,
   vals |-> Reports[b.pay], err |-> ""]
NextWithPriorities(nv, vu, s) == <<"nv", nv, vu, s>>

(* ---- unguarded executions (FaithfulGen / FaithfulExec = FALSE) ---- *)
GenesisAnyhow(n, doc, g) ==
  /\ gen' = Learn(gen, doc, g)
  /\ run' = IF Started(n) THEN run
            ELSE run \cup {[n |-> n, doc |-> doc, h |-> 0, app |-> g.root, tip |-> g.hash, nv |-> g.nv, nvs |-> g.nvs]}
  /\ UNCHANGED <<exec, upd>>
ApplyBlockAnyhow(n, par, blk, res, vu, nv2, nvs2) ==
  /\ Started(n)
  /\ LET r == RunOf(n) IN
     /\ exec' = Learn(exec, <<par, blk>>, res)
     /\ upd' = Learn(upd, <<r.nv, vu>>, nv2)
     /\ run' = Move(n, [n |-> n, doc |-> r.doc, h |-> r.h + 1, app |-> res.app, tip |-> blk, nv |-> nv2, nvs |-> nvs2])
  /\ UNCHANGED gen

(* ---- validateBlock, the part that depends on execution: the block extends the node's chain and carries ---- *)
(* ---- the node's own application hash and next-validators hash (address + power)                        ---- *)
ValidBlock(r, b) == /\ b.h = r.h + 1
                    /\ b.last = r.tip
                    /\ b.app = r.app
                    /\ b.nvh = r.nvs

Init == /\ gen = {} /\ exec = {} /\ upd = {} /\ run = {} /\ blocks = {} /\ decided = {}

Start(n) ==
  /\ ~Started(n)
  /\ \E s \in Salts : IF FaithfulGen THEN Genesis(n, Doc, GenResult(s)) ELSE GenesisAnyhow(n, Doc, GenResult(s))
  /\ UNCHANGED <<blocks, decided>>

(* CreateProposalBlock from the node's own state *)
Propose(n, p) ==
  /\ Started(n)
  /\ LET r == RunOf(n) IN
     /\ r.h < MaxH
     /\ ~\E b \in blocks : b.by = n /\ b.h = r.h + 1
     /\ Cardinality({b \in blocks : b.h = r.h + 1}) < MaxProps
     /\ blocks' = blocks \cup {[h |-> r.h + 1, last |-> r.tip, app |-> r.app, nvh |-> r.nvs, pay |-> p, by |-> n]}
  /\ UNCHANGED <<gen, exec, upd, run, decided>>

(* finalizeCommit: the decided block is applied; the application reports its validators in some order *)
Apply(n, b) ==
  /\ Started(n)
  /\ b \in blocks
  /\ \A d \in decided : d.h = b.h => d = b
  /\ LET r == RunOf(n) IN
     /\ ValidBlock(r, b)
     /\ \E s1, s2 \in Salts :
          LET res == ExecResult(r.app, b, s1)
              vu == CalcUpdates(r.nvs, res.vals)
              nvs2 == ApplyUpdates(r.nvs, vu)
              nv2 == NextWithPriorities(r.nv, vu, s2)
          IN IF FaithfulExec THEN ApplyBlock(n, r.app, Id(b), res, vu, nv2, nvs2)
                         ELSE ApplyBlockAnyhow(n, r.app, Id(b), res, vu, nv2, nvs2)
  /\ decided' = decided \cup {b}
  /\ UNCHANGED blocks

Next == \/ \E n \in Nodes : Start(n)
        \/ \E n \in Nodes, p \in Payloads : Propose(n, p)
        \/ \E n \in Nodes, b \in blocks : Apply(n, b)

Spec == Init /\ [][Next]_vars

(***************************************************************************)
(* Invariants                                                              *)
(***************************************************************************)
(* a correct proposer's block is valid at every correct node that stands where the proposer stood when it proposed *)
OwnProposalAccepted ==
  \A b \in blocks, r \in run : (r.h = b.h - 1 /\ r.tip = b.last /\ r.doc = Doc) => ValidBlock(r, b)

(* no node is ever unable to apply the decided block (it would halt: ApplyBlock errors are fatal in finalizeCommit) *)
DecidedIsApplicable ==
  \A d \in decided, r \in run : (r.h = d.h - 1 /\ r.tip = d.last) => ValidBlock(r, d)

(* the validator set given to consensus does not depend on the order of the report: every order of the same *)
(* members is the same set, and the change set / next members are functions of that set                     *)
RECURSIVE Orders(_)
Orders(S) == IF S = {} THEN {<<>>} ELSE UNION {{<<x>> \o q : q \in Orders(S \ {x})} : x \in S}
ValUpdateOrderIndependent ==
  \A p \in Payloads : \A q \in Orders(Reports[p]) :
     /\ AsSet(q) = Reports[p]
     /\ \A r \in run : CalcUpdates(r.nvs, AsSet(q)) = CalcUpdates(r.nvs, Reports[p])

Inv == /\ Functional
       /\ AppHashAgreement
       /\ OwnProposalAccepted
       /\ DecidedIsApplicable
       /\ ValUpdateOrderIndependent
       /\ RunsRecorded /\ OneRecordPerRun

(* reachability companions: must be VIOLATED (the model does reach validator-set changes and full height) *)
NeverChangesValidators == \A r \in run : r.nvs = GenVals
NeverReachesMaxH == \A r \in run : r.h < MaxH
=================================================================================
