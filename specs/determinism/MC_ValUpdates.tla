---------------------------- MODULE MC_ValUpdates ----------------------------
(***************************************************************************)
(* The validator-set update applied to consensus, at the level of the       *)
(* arithmetic: kai/state/cstate/execution.go                                *)
(*                                                                         *)
(*   valUpdates = calculateValidatorSetUpdates(state.NextValidators.        *)
(*                                  Validators, vals)   -> CalcSeq          *)
(*   updateState: nValSet = NextValidators.Copy();                          *)
(*                if len(valUpdates) > 0 { nValSet.UpdateWithChangeSet }    *)
(*                nValSet.IncrementProposerPriority(1)  -> ConsensusUpdate  *)
(*                                                                         *)
(* on top of specs/valset/ValidatorSet.tla (UpdateOp takes a BAG of         *)
(* changes, IncrementOp is the rotation step): property C06, clause "the    *)
(* validator-set update applied to consensus does not depend on the order   *)
(* in which the application reports validators".                            *)
(*                                                                         *)
(* `vals` is what the application reported: a SEQUENCE of [a, p] (full      *)
(* validator list of the staking contract, in the contract's order).        *)
(* calculateValidatorSetUpdates is transcribed on sequences, statement by   *)
(* statement (the map `last`, the delete after every reported entry, the    *)
(* removals appended in map-iteration order), so that its order             *)
(* (in)dependence is a checked property, not an assumption:                 *)
(*                                                                         *)
(*   OrderIndependent   for every report that names every validator at most *)
(*                      once, every permutation of the report and every     *)
(*                      order of the appended removals gives the same       *)
(*                      result (same error or same set, priorities and      *)
(*                      proposer included).                                 *)
(*                                                                         *)
(* With AllowDup = TRUE reports may name a validator twice (WELLFORMED of   *)
(* Determinism.tla dropped): OrderIndependent is then VIOLATED in the model *)
(* (<<[a,old],[a,new]>> updates a, <<[a,new],[a,old]>> is rejected as a     *)
(* duplicate change) -- a companion run of checks/C06.py expects exactly    *)
(* that; the staking contract keeps its validator list duplicate-free.      *)
(*                                                                         *)
(* MBT: every transition is printed (Dump) and replayed by                  *)
(* harness/determinism TestValUpdates into the real                         *)
(* calculateValidatorSetUpdates + updateState, each report in several       *)
(* permutations.                                                            *)
(***************************************************************************)
EXTENDS ValidatorSet, Json

CONSTANTS Addrs,        \* validator addresses (small integers)
          Powers,       \* powers the application may report (0 = the validator is reported with no power)
          InitPowers,   \* <<p1, .., pn>>: genesis validators 1..n
          Depth,        \* number of blocks
          MaxReport,    \* largest report explored
          AllowDup      \* reports may name an address twice

VARIABLES nvals,        \* state.NextValidators: sequence of [a, p, prio] in the code's order
          hist          \* <<report, result class>> per block
vars == <<nvals, hist>>

Entry == [a : Addrs, p : Powers]

(* ---- calculateValidatorSetUpdates ---- *)
RECURSIVE CalcLoop(_, _, _)
CalcLoop(last, rep, acc) ==          \* `for _, val := range vals`: last = the map, acc = updates so far
  IF rep = <<>> THEN [upd |-> acc, left |-> DOMAIN last]
  ELSE LET v == Head(rep)
           found == v.a \in DOMAIN last
           acc2 == IF ~found \/ last[v.a] # v.p THEN Append(acc, v) ELSE acc      \* new, or another power
       IN CalcLoop([x \in DOMAIN last \ {v.a} |-> last[x]], Tail(rep), acc2)      \* delete(last, val.Address)

RECURSIVE Orders(_)
Orders(S) == IF S = {} THEN {<<>>} ELSE UNION {{<<x>> \o q : q \in Orders(S \ {x})} : x \in S}

(* map-iteration orders of a set of addresses that the model distinguishes: ascending and descending (UpdateOp  *)
(* turns the change list into a set first thing, so more orders would only repeat the same evaluation)         *)
RECURSIVE Asc(_)
Asc(S) == IF S = {} THEN <<>> ELSE LET m == MinS(S) IN <<m>> \o Asc(S \ {m})
Rev(q) == [i \in 1..Len(q) |-> q[Len(q) + 1 - i]]
MapOrders(S) == {Asc(S), Rev(Asc(S))}

(* the change lists the code can produce for a report: removals are appended in map-iteration order *)
CalcSeqs(nv, rep) ==
  IF rep = <<>> THEN {<<>>}                                                        \* `if len(vals) == 0 { return }`
  ELSE LET last == [a \in {nv[i].a : i \in 1..Len(nv)} |-> Get(nv, a).p]
           r == CalcLoop(last, rep, <<>>)
       IN {r.upd \o [i \in 1..Len(q) |-> [a |-> q[i], p |-> 0]] : q \in MapOrders(r.left)}

(* ---- updateState, the validator part ---- *)
AfterChanges(nv, chs) ==
  LET u == IF chs = <<>> THEN [res |-> "ok", v |-> nv] ELSE UpdateOp(nv, chs)
  IN IF u.res # "ok" THEN [res |-> u.res, v |-> nv, prop |-> 0]                    \* ApplyBlock fails, state unchanged
     ELSE LET r == IncrementOp(u.v, 1) IN [res |-> "ok", v |-> r.v, prop |-> r.prop]

(* the results the code can produce for a report (one per order of the removals) *)
ConsensusUpdates(nv, rep) == {AfterChanges(nv, chs) : chs \in CalcSeqs(nv, rep)}
ConsensusUpdate(nv, rep) == CHOOSE r \in ConsensusUpdates(nv, rep) : TRUE

(* ---- reports ---- *)
RECURSIVE SeqsUpTo(_)
SeqsUpTo(n) == IF n = 0 THEN {<<>>} ELSE SeqsUpTo(n - 1) \cup {Append(q, e) : q \in {q \in SeqsUpTo(n - 1) : Len(q) = n - 1}, e \in Entry}
Unique(q) == \A i, j \in 1..Len(q) : i # j => q[i].a # q[j].a
Ascending(q) == \A i \in 1..Len(q) - 1 : q[i].a < q[i + 1].a
AllReports == {q \in SeqsUpTo(MaxReport) : AllowDup \/ Unique(q)}
(* one representative per report that names every validator once: ascending addresses *)
Canonical == {q \in AllReports : Unique(q) => Ascending(q)}
Perms(q) == {[i \in 1..Len(q) |-> q[o[i]]] : o \in Orders(1..Len(q))}

InitChs == [i \in 1..Len(InitPowers) |-> [a |-> i, p |-> InitPowers[i]]]
(* MakeGenesisState: NextValidators = NewValidatorSet(vals).CopyIncrementProposerPriority(1) *)
Init == /\ nvals = IncrementOp(NewSet(InitChs).v, 1).v
        /\ hist = <<>>

Report(rep) == LET r == ConsensusUpdate(nvals, rep)
               IN /\ nvals' = r.v
                  /\ hist' = Append(hist, <<rep, r.res>>)
Next == /\ Len(hist) < Depth
        /\ \E rep \in Canonical : Report(rep)
Spec == Init /\ [][Next]_vars
View == nvals

(***************************************************************************)
(* Properties                                                              *)
(***************************************************************************)
(* every order of the report and every order of the removals: one result (evaluated in the states whose reports *)
(* the model goes on to apply, i.e. for every transition of the graph)                                         *)
OrderIndependent ==
  Len(hist) < Depth =>
  \A rep \in Canonical :
     LET all == UNION {ConsensusUpdates(nvals, q) : q \in Perms(rep)} IN Cardinality(all) = 1

(* the set the update leaves is well formed (C12's invariants carry over to the cstate path) *)
SetOK == WellFormed(nvals) /\ Len(nvals) > 0

(* a report that names every current member with its current power changes nothing but the rotation *)
SameReportOnlyRotates ==
  LET same == SortSeq([i \in 1..Len(nvals) |-> [a |-> nvals[i].a, p |-> nvals[i].p]], LAMBDA x, y : x.a < y.a)
  IN ConsensusUpdate(nvals, same) = [res |-> "ok", v |-> IncrementOp(nvals, 1).v, prop |-> IncrementOp(nvals, 1).prop]

Inv == SetOK /\ OrderIndependent /\ SameReportOnlyRotates

(* reachability companion: must be VIOLATED (the model does reach membership changes) *)
NeverChangesMembers == {nvals[i].a : i \in 1..Len(nvals)} = 1..Len(InitPowers)

Dump == PrintT(ToJson([h |-> hist', v |-> nvals']))
================================================================================
