------------------------------ MODULE Determinism ------------------------------
(***************************************************************************)
(* Property C06: block execution is deterministic -- applying a given       *)
(* block to a given parent state yields the same application hash,          *)
(* receipts, logs bloom, gas used and validator-set updates on every node   *)
(* and in every run; the validator-set update applied to consensus is a     *)
(* function of the SET of validators the application reports.               *)
(*                                                                         *)
(* What the code does (anchors):                                            *)
(*   genesis.SetupGenesisBlock / Genesis.ToBlock                            *)
(*        executes the genesis document (alloc, staking contract            *)
(*        deployment, creation and start of the genesis validators) at      *)
(*        EVERY start of a node and compares the block it gets with the     *)
(*        stored one                                            -> Genesis  *)
(*   cstate.BlockExecutor.ApplyBlock                                        *)
(*        validateBlock; BlockOperations.CommitAndValidateBlockTxs          *)
(*        (commitBlock: mint, finalize, double-sign, the transaction loop   *)
(*        with snapshot / revert-and-skip, validator read-back; then        *)
(*        WriteBlockAndSetHead: StateDB.Commit, BlockInfo, app hash);       *)
(*        calculateValidatorSetUpdates; updateState; Save    -> ApplyBlock  *)
(*   BlockOperations.commitBlock on a state that is not written             *)
(*        (what CreateProposalBlock / RPC do)                -> Reexecute   *)
(*                                                                         *)
(* The specification is about EQUALITY OF RUNS, so its state is what has    *)
(* been observed so far:                                                    *)
(*   gen[doc]                 the genesis state of a genesis document       *)
(*   exec[<<parent, block>>]  the result of executing block on parent       *)
(*   upd[<<next, changes>>]   the NextValidators (with priorities and       *)
(*                            proposer) that follow from NextValidators     *)
(*                            `next` and the change SET `changes`           *)
(* Each is a function (kept as a set of <<key, value>> pairs): an action    *)
(* that would record a second, different value for a key is not enabled     *)
(* (invariant Functional); a real execution that needs such a step is a     *)
(* violation of C06 and is what DeterminismTrace.tla reports.               *)
(*                                                                         *)
(* A `run` is one sequence of executions by one stack of real objects in    *)
(* one configuration (cache configuration, proposer or receiver of the      *)
(* blocks, warm or re-opened chain object, parent or fresh child process):  *)
(* the specification does not know configurations -- that is the point.     *)
(*                                                                         *)
(* Values (state roots, block hashes, digests, addresses, powers) are       *)
(* opaque here: strings in traces, tuples / model values in MC_Determinism. *)
(* A validator is a pair <<address, power>>.                                *)
(*                                                                         *)
(* Deliberate deviations from the code, named:                              *)
(*  NOORDER    the application's report and the change list are SETS: the   *)
(*             order in which getValidatorSets lists validators and the     *)
(*             order in which calculateValidatorSetUpdates appends removals *)
(*             (Go map iteration) are not part of any result.               *)
(*  WELLFORMED the report names every validator once, with a positive       *)
(*             power (the staking contract keeps valSets without            *)
(*             duplicates); what the code does with other reports is        *)
(*             specified and replayed in MC_ValUpdates.tla.                 *)
(*  DIGEST     priorities and proposer of a validator set are carried as    *)
(*             one opaque value `nv` (real voting powers are ~10^15, out    *)
(*             of TLC's integers); their arithmetic is ValidatorSet.tla's   *)
(*             (property C12) and is bound to the cstate path at small      *)
(*             powers by MC_ValUpdates.tla.                                 *)
(***************************************************************************)
EXTENDS Integers, Sequences, FiniteSets, TLC

CONSTANTS NoPower      \* the power that means "remove" in a change set ("0" in traces, 0 in models)

VARIABLES gen,         \* genesis table
          exec,        \* execution table (the functional table of C06)
          upd,         \* validator-set update table
          run          \* the runs: a set of records [n, doc, h, app, tip, nv, nvs] (where run n stands), one per n

dvars == <<gen, exec, upd, run>>

(* ---- tables: finite maps kept as sets of <<key, value>> pairs with at most one pair per key (TLC cannot ask   ---- *)
(* ---- whether a string is in the domain of an empty function; the pair form also makes Functional a predicate) ---- *)
Has(t, k) == \E p \in t : p[1] = k
Get(t, k) == (CHOOSE p \in t : p[1] = k)[2]
Explains(t, k, v) == \A p \in t : p[1] = k => p[2] = v        \* the key is new or the value is the recorded one
Learn(t, k, v) == t \cup {<<k, v>>}                           \* (used under Explains: at most one pair per key)
FunctionalTable(t) == \A p, q \in t : p[1] = q[1] => p[2] = q[2]

(* ---- runs ---- *)
Started(n) == \E r \in run : r.n = n
RunOf(n) == CHOOSE r \in run : r.n = n
Move(n, r) == (run \ {RunOf(n)}) \cup {r}

(* ---- validator sets as sets of <<address, power>> ---- *)
AddrsOf(S) == {v[1] : v \in S}
AsSet(seq) == {<<seq[i][1], seq[i][2]>> : i \in 1..Len(seq)}          \* NOORDER
WellFormedReport(S) == /\ \A v, w \in S : v[1] = w[1] => v = w          \* WELLFORMED
                       /\ \A v \in S : v[2] # NoPower

(* calculateValidatorSetUpdates(NextValidators, reported) as a set: nothing if the application reports nothing;       *)
(* otherwise every reported validator that is new or has another power, and a removal for every member not reported. *)
CalcUpdates(next, reported) ==
  IF reported = {} THEN {}
  ELSE (reported \ next) \cup {<<a, NoPower>> : a \in AddrsOf(next) \ AddrsOf(reported)}

(* UpdateWithChangeSet, membership and powers: changed and new members take the reported power, removed ones leave *)
ApplyUpdates(next, changes) ==
  {v \in next : v[1] \notin AddrsOf(changes)} \cup {v \in changes : v[2] # NoPower}

(* A result of executing a block: [app, rcp, blm, gas, rew, vals, err]                                  *)
(*   app  application hash (state root) after the block     rcp  the stored receipts (status, cumulative *)
(*   blm  logs bloom of the block                                gas, bloom, tx hash, contract address,  *)
(*   gas  gas used                                               logs, gas used)                         *)
(*   rew  block reward minted                               vals validators reported, AS A SET           *)
(*   err  "" or the class of failure (a node that cannot execute what another executed disagrees)        *)

(***************************************************************************)
(* Genesis(n, doc, g): run n executes genesis document doc and gets         *)
(* g = [root, hash, nv, nvs] (state root, genesis block hash, the           *)
(* NextValidators of the genesis consensus state).                          *)
(***************************************************************************)
Genesis(n, doc, g) ==
  /\ Explains(gen, doc, g)
  /\ Started(n) => RunOf(n).doc = doc                    \* a restart re-executes the document of its own chain
  /\ gen' = Learn(gen, doc, g)
  /\ run' = IF Started(n) THEN run
            ELSE run \cup {[n |-> n, doc |-> doc, h |-> 0, app |-> g.root, tip |-> g.hash, nv |-> g.nv, nvs |-> g.nvs]}
  /\ UNCHANGED <<exec, upd>>

(***************************************************************************)
(* ApplyBlock(n, par, blk, res, vu, nv2, nvs2): run n executes block blk on *)
(* parent state par and commits it; the application's result is res, the    *)
(* change set given to consensus is vu, the resulting NextValidators are    *)
(* nvs2 (members) / nv2 (with priorities and proposer).                     *)
(***************************************************************************)
ApplyBlock(n, par, blk, res, vu, nv2, nvs2) ==
  /\ Started(n)
  /\ LET r == RunOf(n) IN
     /\ par = r.app                                      \* the block executes on the state the run stands on
     /\ Explains(exec, <<par, blk>>, res)                \* C06: same block, same parent state, same result
     /\ res.err = ""                                     \* (a failed execution leaves the run where it is: Reexecute)
     /\ vu = CalcUpdates(r.nvs, res.vals)                \* the change set is a function of the SET reported
     /\ nvs2 = ApplyUpdates(r.nvs, vu)                   \* and so are the members of the next validator set
     /\ Explains(upd, <<r.nv, vu>>, nv2)                 \* and its priorities and proposer
     /\ exec' = Learn(exec, <<par, blk>>, res)
     /\ upd' = Learn(upd, <<r.nv, vu>>, nv2)
     /\ run' = Move(n, [n |-> n, doc |-> r.doc, h |-> r.h + 1, app |-> res.app, tip |-> blk, nv |-> nv2, nvs |-> nvs2])
  /\ UNCHANGED gen

(***************************************************************************)
(* Reexecute(par, blk, res): somebody executes blk on par without           *)
(* committing (commitBlock on a state that is thrown away: proposal         *)
(* pre-execution, repeated executions on a warm or copied StateDB, with     *)
(* or without prefetcher / snapshot tree).  Only the table is involved.     *)
(***************************************************************************)
Reexecute(par, blk, res) ==
  /\ Explains(exec, <<par, blk>>, res)
  /\ exec' = Learn(exec, <<par, blk>>, res)
  /\ UNCHANGED <<gen, upd, run>>

(***************************************************************************)
(* Properties                                                              *)
(***************************************************************************)
(* the three tables are functions *)
Functional == FunctionalTable(gen) /\ FunctionalTable(exec) /\ FunctionalTable(upd)

(* runs of one genesis document that executed the same chain of blocks (the tip's hash covers its ancestry) *)
SameChain(a, b) == a.doc = b.doc /\ a.h = b.h /\ a.tip = b.tip
SameState(a, b) == a.app = b.app /\ a.nv = b.nv /\ a.nvs = b.nvs

(* all correct nodes have the same app hash and next validator set after the same height *)
AppHashAgreement == \A a, b \in run : SameChain(a, b) => SameState(a, b)
(* the same, for one run against all others (cheap form for long traces) *)
AgreesWithAll(n) == Started(n) => \A b \in run : SameChain(RunOf(n), b) => SameState(RunOf(n), b)
(* one record per run; every run stands on a state the tables know *)
RunsRecorded ==
  \A r \in run : /\ Has(gen, r.doc)
                 /\ r.h = 0 => r.app = Get(gen, r.doc).root
OneRecordPerRun == \A a, b \in run : a.n = b.n => a = b

(***************************************************************************)
(* Network level (real consensus nodes): a proposal is [blk, st] -- the     *)
(* block a correct node proposed for a round and the chain state            *)
(* (LatestBlockState: last block, app hash, the three validator sets) it    *)
(* built it from; a prevote is [blk, st, free, has] -- the block voted for   *)
(* ("" = nil), the voter's chain state, whether the voter is free of locks  *)
(* (no earlier round of the height had a proposal), and whether it held the *)
(* complete proposal block of the round when it voted (a node that never    *)
(* got the proposal prevotes nil on its propose timeout: not a rejection).  *)
(***************************************************************************)
(* voter and proposer are at the same height, hence (AppHashAgreement) in the same chain state *)
SameStateAsProposer(prop, vote) == vote.st = prop.st
(* OwnProposalAccepted: a correct proposer's block is ValidBlock at -- hence prevoted by -- every correct, *)
(* unlocked node in the same chain state that holds the block                                             *)
Accepts(prop, vote) == (vote.free /\ vote.has /\ vote.st = prop.st) => vote.blk = prop.blk
=================================================================================
