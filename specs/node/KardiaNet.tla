------------------------------- MODULE KardiaNet -------------------------------
(***************************************************************************)
(* Several correct validators, each running the HANDLERS of KardiaNode.tla *)
(* (the transcription of consensus/state.go that is bound to the code by    *)
(* replay and trace validation), an asynchronous network and Byzantine      *)
(* validators holding less than one third of the power.                     *)
(*                                                                         *)
(* Where specs/bft/KardiaBFT.tla decides Agreement for ANY validator that   *)
(* respects the C03 obligations, this module decides it for the handlers    *)
(* themselves: it closes the argument "handlers => obligations => agreement"*)
(* on one model, and it shows that the deviation named in MC_NodeEnv (a     *)
(* node locks and precommits an INVALID block once it sees +2/3 prevotes    *)
(* for it) is unreachable under the fault assumption - no FaultGuard here.  *)
(*                                                                         *)
(* Network: everything a correct node publishes stays available forever     *)
(* (`net`); any node may receive any available message at any time, in any  *)
(* order, or never (loss, delay, reordering; duplicates are no-ops of the    *)
(* handlers and are not explored).  Timeouts fire whenever armed.           *)
(* Byzantine validators: every vote and proposal they could sign (any type, *)
(* round, block id, POL round) is available from the start and each node    *)
(* receives its own selection of them (equivocation, withholding).          *)
(* Blocks: correct proposer n creates BlockOf[n]; Byzantine proposers use    *)
(* ByzBids (valid or invalid).  A block's part is available once a proposal  *)
(* for it has been published.                                               *)
(*                                                                         *)
(* One height (the protocol restarts from scratch at every height; what is  *)
(* carried over - LastCommit - does not influence decisions); rounds        *)
(* 1..MaxRound.                                                             *)
(***************************************************************************)
EXTENDS KardiaNode

CONSTANTS Corr,       \* identities of the correct validators (real handlers)
          ByzBids,    \* block ids Byzantine proposers may use
          BlockOf,    \* BlockOf[n]: id of the block correct validator n creates when it proposes
          MaxRound,   \* rounds 1..MaxRound are explored
          UseDie      \* TRUE: weighted random walks (TLC -simulate): a uniform choice among ALL enabled actions would
                      \* almost always deliver one of the many Byzantine messages and rarely reach a decision;
                      \* FALSE: every enabled action (exhaustive search)

Byz == Idx \ Corr
H   == 1
AllBids == ByzBids \cup {BlockOf[n] : n \in Corr}

VARIABLES ns,         \* ns[n] = [s: KardiaNode state, inq: own messages not yet handled (FIFO), timer]
          net,        \* messages published by correct validators
          got,        \* got[n]: messages of others already handled by n (each is handled at most once)
          signed,     \* signed[n]: signature requests of n, in order
          seen,       \* seen[n]: valid votes n has handled
          decided,    \* decided[n]: block id n committed, or NoB
          die         \* weighting device for random walks (UseDie): which class of action is drawn next
vars == <<ns, net, got, signed, seen, decided, die>>

(***************************** helpers (as in MC_NodeEnv) *****************************)
IsMsgOut(o) == o.o \in {"vote", "proposal", "part"}
MsgOf(o) ==
  IF o.o = "vote" THEN [k |-> "vote", type |-> o.type, h |-> o.h, r |-> o.r, bid |-> o.bid, i |-> o.i, ok |-> TRUE, peer |-> o.i]
  ELSE IF o.o = "proposal" THEN [k |-> "proposal", h |-> o.h, r |-> o.r, pol |-> o.pol, bid |-> o.bid, i |-> o.i, sigOK |-> TRUE]
  ELSE [k |-> "part", h |-> o.h, r |-> o.r, bid |-> o.bid]
RECURSIVE MsgsOf(_)
MsgsOf(out) == IF out = <<>> THEN <<>>
               ELSE (IF IsMsgOut(Head(out)) THEN <<MsgOf(Head(out))>> ELSE <<>>) \o MsgsOf(Tail(out))
Older(n, ti) == \/ n.h < ti.h
                \/ n.h = ti.h /\ n.r < ti.r
                \/ n.h = ti.h /\ n.r = ti.r /\ ti.step > 0 /\ n.step <= ti.step
RECURSIVE LastTimer(_, _)
LastTimer(out, cur) == IF out = <<>> THEN cur
                       ELSE LastTimer(Tail(out), IF Head(out).o = "timeout" /\ ~Older(Head(out), cur)
                                                 THEN [h |-> Head(out).h, r |-> Head(out).r, step |-> Head(out).step, armed |-> TRUE]
                                                 ELSE cur)
SignedOf(out) == SelectSeq(out, LAMBDA o : o.o \in {"vote", "proposal"})
SeenOf(m) == IF m.k = "vote" /\ m.ok THEN {[type |-> m.type, h |-> m.h, r |-> m.r, bid |-> m.bid, i |-> m.i]} ELSE {}
Range(s) == {s[k] : k \in 1..Len(s)}
Decision(out) == LET a == SelectSeq(out, LAMBDA o : o.o = "apply") IN IF a = <<>> THEN NoB ELSE a[1].bid
Panicked(out) == \E k \in 1..Len(out) : out[k].o = "panic"

(***************************** what a node may receive *****************************)
\* parts are keyed by block only (the handler ignores the round of a part)
PartMsg(b) == [k |-> "part", h |-> H, r |-> 1, bid |-> b]
\* every vote / proposal a Byzantine validator could sign
ByzVotes == {[k |-> "vote", type |-> t, h |-> H, r |-> r, bid |-> b, i |-> i, ok |-> TRUE, peer |-> i] :
               t \in {PrevoteT, PrecommitT}, r \in 1..MaxRound, b \in AllBids \cup {NilB}, i \in Byz}
ByzProps == {[k |-> "proposal", h |-> H, r |-> r, pol |-> pol, bid |-> b, i |-> i, sigOK |-> TRUE] :
               r \in 1..MaxRound, pol \in 0..(MaxRound - 1), b \in ByzBids, i \in Byz}
Proposed(b) == b \in ByzBids \/ \E m \in net : m.k = "proposal" /\ m.bid = b
Available == {m \in net : m.k # "part"} \cup ByzVotes \cup ByzProps \cup {PartMsg(b) : b \in {x \in AllBids : Proposed(x)}}
\* a proposal is only looked at by a node in its round (others are dropped unseen: not explored); a vote for a
\* round the node will never track is likewise skipped
Useful(n, m) ==
  LET s == ns[n].s IN
  /\ s.h = H
  /\ m \notin got[n]
  /\ (m.k = "proposal" => m.r = s.r /\ ~s.proposal.has /\ m.i # n)
  /\ (m.k = "part" => s.pparts.has /\ ~s.pparts.done /\ s.pparts.bid = m.bid)
  /\ (m.k = "vote" => m.i # n)

(***************************** transitions *****************************)
Env(n) == [newBid |-> BlockOf[n]]
After(n, res, inq0, timer0, m) ==
  /\ ~Panicked(res.out)
  /\ ns' = [ns EXCEPT ![n] = [s |-> res.s, inq |-> inq0 \o MsgsOf(res.out), timer |-> LastTimer(res.out, timer0)]]
  /\ net' = net \cup Range(MsgsOf(res.out))
  /\ signed' = [signed EXCEPT ![n] = @ \o SignedOf(res.out)]
  /\ seen' = [seen EXCEPT ![n] = @ \cup SeenOf(m)]
  /\ decided' = [decided EXCEPT ![n] = IF @ = NoB THEN Decision(res.out) ELSE @]

NoMsg == [k |-> "none"]
Own(n) == /\ ns[n].inq # <<>> /\ ns[n].s.h = H
          /\ LET m == Head(ns[n].inq)
             IN After(n, HandleMsg(ns[n].s, m, Env(n)), Tail(ns[n].inq), ns[n].timer, m)
          /\ UNCHANGED got
Fire(n) == /\ ns[n].timer.armed /\ ns[n].s.h = H /\ ns[n].inq = <<>>
           /\ ns[n].timer.r <= MaxRound
           /\ After(n, HandleTimeout(ns[n].s, ns[n].timer, Env(n)), ns[n].inq, [ns[n].timer EXCEPT !.armed = FALSE], NoMsg)
           /\ UNCHANGED got
Recv(n, m) == /\ ns[n].inq = <<>>          \* own messages first (receiveRoutine may interleave; the handlers commute here)
              /\ Useful(n, m)
              /\ After(n, HandleMsg(ns[n].s, m, Env(n)), ns[n].inq, ns[n].timer, m)
              /\ got' = [got EXCEPT ![n] = @ \cup {m}]

Init == /\ ns = [n \in Corr |-> [s |-> InitNode(n, H), inq |-> <<>>,
                                 timer |-> [h |-> H, r |-> 1, step |-> NewHeight, armed |-> TRUE]]]
        /\ net = {} /\ got = [n \in Corr |-> {}]
        /\ signed = [n \in Corr |-> <<>>] /\ seen = [n \in Corr |-> {}]
        /\ decided = [n \in Corr |-> NoB]
        /\ die \in 1..8
FromCorrect(m) == m \in net \/ (m.k = "part" /\ m.bid \notin ByzBids)
D(S) == ~UseDie \/ die \in S
Act == \E n \in Corr :
          \/ D({1, 2, 3, 4, 5, 6}) /\ Own(n)                                           \* (also whenever something is queued)
          \/ D({1, 2, 3, 4}) /\ \E m \in Available : FromCorrect(m) /\ Recv(n, m)    \* honest traffic
          \/ D({5, 6}) /\ Fire(n)                                                     \* a timeout
          \/ D({7, 8}) /\ \E m \in Available : ~FromCorrect(m) /\ Recv(n, m)          \* Byzantine traffic
Next == /\ Act /\ die' \in 1..8
\* nothing of the drawn class is enabled: draw again
Reroll == UseDie /\ ~ENABLED Act /\ die' \in 1..8 /\ UNCHANGED <<ns, net, got, signed, seen, decided>>
Spec == Init /\ [][Next \/ Reroll]_vars

\* rounds beyond MaxRound are not explored
Bounded == \A n \in Corr : ns[n].s.r <= MaxRound
View == <<ns, net, got, decided>>

(***************************** properties *****************************)
\* C01
Agreement == \A a, b \in Corr : decided[a] # NoB /\ decided[b] # NoB => decided[a] = decided[b]
\* only valid blocks are decided (a Byzantine proposer cannot get an invalid block committed)
Validity == \A n \in Corr : decided[n] \notin InvalidBids
\* C03, for every correct validator, on its signature log and what it had handled
C03 == \A n \in Corr :
          /\ OneVotePerTypeHR(signed[n])
          /\ PrecommitNeedsPolka(signed[n], seen[n])
          /\ LockRespected(signed[n], seen[n], AllBids)
          /\ OnlyValidVoted(signed[n])
\* the deviation named in MC_NodeEnv is unreachable with < 1/3 Byzantine power
NeverLocksInvalid == \A n \in Corr : ns[n].s.lockedB \notin InvalidBids /\ ns[n].s.validB \notin InvalidBids

\* reachability companions (each must be VIOLATED: the model is not vacuous)
NoDecision   == \A n \in Corr : decided[n] = NoB
NoSecondRound == \A n \in Corr : ns[n].s.r = 1
NoLockCarried == \A n \in Corr : ~(ns[n].s.lockedB # NoB /\ ns[n].s.r > ns[n].s.lockedR)
=================================================================================
