------------------------------- MODULE NodePrefixes -------------------------------
(* Scripted prefixes for MC_NodeEnv with Me = 2 and the proposer rotation 1,2,3,4,... at height 1  *)
(* (2,3,4,1 at height 2).  Each drives the node into a state from which the exhaustive search and   *)
(* the random walks start; TLC asserts that every action is enabled where the script uses it.        *)
(* Vote types: 1 prevote, 2 precommit.                                                               *)
EXTENDS Sequences
F == <<"fire">>
O == <<"own">>
\* round 1: proposal A by validator 1 complete, node prevoted A
P_prevotedA == << F, <<"prop", 1, "A", 0, 1>>, <<"part", "A">>, O >>
\* ... +2/3 prevotes for A: locked on A at round 1 and precommitted it (own precommit delivered)
P_lockedA1  == P_prevotedA \o << <<"bundle", 1, 1, "A">>, O >>
\* ... +2/3 precommits nil at round 1, precommit timeout: round 2 (node is the proposer: re-proposes A, POL 1)
P_r2lockedA == P_lockedA1 \o << <<"bundle", 2, 1, "nil">>, F >>
\* ... own proposal, part, own prevote delivered; precommits nil at round 2; timeout: round 3, still locked at 1
P_r3lockedA == P_r2lockedA \o << O, O, O, <<"bundle", 2, 2, "nil">>, O, F >>
\* round 1 timed out (prevote nil; the others' round-1 prevotes never arrive), +2/3 precommits nil, round 2 as
\* proposer of the own block M, locked on M at round 2
P_lockedM2  == << F, F, O, <<"bundle", 2, 1, "nil">>, O, F,
                  O, O, O, <<"bundle", 1, 2, "M">>, O >>
\* ... and moved on to round 3 while locked at round 2
P_r3lockedM == P_lockedM2 \o << <<"bundle", 2, 2, "nil">>, F >>
\* valid block known but not locked: prevoted nil on timeout, then saw the proposal and +2/3 prevotes for A
P_validA    == << F, F, O, <<"prop", 1, "A", 0, 1>>, <<"part", "A">>, <<"vote", 1, 1, 1, "A">>, <<"vote", 3, 1, 1, "A">>, <<"vote", 4, 1, 1, "A">> >>
\* round 3 (proposer 3) with a proposal that carries POL round 2 but whose block has not arrived; node prevoted nil
P_waitPOL   == << F, F, O, <<"bundle", 2, 1, "nil">>, O, F, O, O, O, <<"bundle", 2, 2, "nil">>, O, F,
                  <<"prop", 3, "A", 2, 3>>, F, O >>
\* committed height 1 (block A), now at height 2 in NewHeight
P_height2   == P_lockedA1 \o << <<"bundle", 2, 1, "A">> >>
\* commit decided (+2/3 precommits for A) before the block is known
P_commitNoBlock == << F, <<"bundle", 2, 1, "A">> >>
\* peer 3 has used up its two catch-up rounds with votes that do NOT verify (HeightVoteSet charges a peer for every
\* untracked round it makes the node create, before the vote is looked at): a third untracked round of that peer -
\* round 3, which the search offers - must be refused, other peers may still open it
P_catchupSpent == << F, <<"badvote", 3, 1, 4, "A">>, <<"badvote", 3, 1, 5, "A">> >>
All == << <<>>, P_prevotedA, P_lockedA1, P_r2lockedA, P_r3lockedA, P_lockedM2, P_r3lockedM, P_validA, P_waitPOL,
          P_height2, P_commitNoBlock, P_catchupSpent >>
===================================================================================
