------------------------------- MODULE MC_NodeEnv -------------------------------
(***************************************************************************)
(* ONE correct validator (index Me) running the KardiaNode handlers against  *)
(* a fully adversarial environment that owns every other validator key:      *)
(* it may deliver any proposal of the right proposer (or of a wrong one),     *)
(* any block part, any vote of any other validator for any round and block,   *)
(* whole +2/3 bundles, votes with broken signatures, late precommits of the    *)
(* previous height, fire the node's timeout, and race all of that against      *)
(* the node's own messages on its internal queue.  This is property C03's      *)
(* quantifier ("all delivery orders, timeouts and Byzantine inputs fed to a    *)
(* single correct validator").  The model serves                               *)
(*   - TLC: the C03 obligations as invariants over `signed`/`seen`;            *)
(*   - MBT: behaviours replayed on a real ConsensusState with real signed      *)
(*     messages, comparing the projection after every step: every transition   *)
(*     of depth-bounded BFS from a set of START STATES (the initial state and   *)
(*     the states reached by the scripted prefixes below: locked, moved on      *)
(*     while locked, valid block known, waiting for a POL, next height, ...),   *)
(*     and weighted random walks (simulation) from the same start states.       *)
(* The only restriction on the environment: it never assembles +2/3 votes     *)
(* for an invalid block (that needs > 1/3 faulty power).                       *)
(***************************************************************************)
EXTENDS KardiaNode, Json

CONSTANTS Me,          \* index of the validator under test
          Bids,        \* block ids the environment may propose / vote for (per height the same names)
          MyBid,       \* id of the block the node itself creates
          MaxRound,    \* environment votes carry rounds 1..MaxRound
          MaxHeight,   \* the node works on heights 1..MaxHeight
          Depth,       \* bound on the number of actions after the start state
          UseDie,      \* TRUE: weighted random walks (simulation); FALSE: all actions always enabled (BFS)
          Prefixes     \* sequence of scripted prefixes (each a sequence of actions); start states

VARIABLES st,      \* [s: node state, inq: internal queue (FIFO), timer: what the ticker holds,
                   \*  signed: log of signature requests, seen: valid votes delivered]
          hist,    \* actions taken so far (prefix included), each with the expected observation after it
          n0,      \* length of the prefix in hist
          die,     \* weighting device for random walks
          done     \* the walk has been printed
vars == <<st, hist, n0, die, done>>

Others  == Idx \ {Me}
AllBids == Bids \cup {MyBid}
NoTimer == [h |-> 0, r |-> 0, step |-> 0, armed |-> FALSE]
Env     == [newBid |-> MyBid]

St0 == [s |-> InitNode(Me, 1), inq |-> <<>>,
        timer |-> [h |-> 1, r |-> 1, step |-> NewHeight, armed |-> TRUE],      \* scheduleRound0
        signed |-> <<>>, seen |-> {},
        evs |-> {}]       \* duplicate-vote evidence handed to the pool (tryAddVote -> AddEvidenceFromConsensus)

\* outputs of a step: own messages go to the internal queue, timeouts to the ticker
IsMsgOut(o) == o.o \in {"vote", "proposal", "part"}
MsgOf(o) ==
  IF o.o = "vote" THEN [k |-> "vote", type |-> o.type, h |-> o.h, r |-> o.r, bid |-> o.bid, i |-> o.i, ok |-> TRUE, peer |-> 0]
  ELSE IF o.o = "proposal" THEN [k |-> "proposal", h |-> o.h, r |-> o.r, pol |-> o.pol, bid |-> o.bid, i |-> o.i, sigOK |-> TRUE]
  ELSE [k |-> "part", h |-> o.h, r |-> o.r, bid |-> o.bid]
RECURSIVE MsgsOf(_)
MsgsOf(out) == IF out = <<>> THEN <<>>
               ELSE (IF IsMsgOut(Head(out)) THEN <<MsgOf(Head(out))>> ELSE <<>>) \o MsgsOf(Tail(out))
\* consensus/ticker.go timeoutRoutine: a new timeout replaces the held one unless it is for an older
\* height / round, or for a step that is not later within the same round; the held (h, r, step) is
\* remembered after it has fired (armed = FALSE)
Older(n, ti) == \/ n.h < ti.h
                \/ n.h = ti.h /\ n.r < ti.r
                \/ n.h = ti.h /\ n.r = ti.r /\ ti.step > 0 /\ n.step <= ti.step
RECURSIVE LastTimer(_, _)
LastTimer(out, cur) == IF out = <<>> THEN cur
                       ELSE LastTimer(Tail(out), IF Head(out).o = "timeout" /\ ~Older(Head(out), cur)
                                                 THEN [h |-> Head(out).h, r |-> Head(out).r, step |-> Head(out).step, armed |-> TRUE]
                                                 ELSE cur)
SignedOf(out) == SelectSeq(out, LAMBDA o : o.o \in {"vote", "proposal"})
\* evidence is identified by the validator, the vote coordinates and the UNORDERED pair of block ids
EvsOf(out) == {[i |-> out[k].i, type |-> out[k].type, h |-> out[k].h, r |-> out[k].r, pair |-> {out[k].a, out[k].b}] :
                  k \in {j \in 1..Len(out) : out[j].o = "evidence"}}
Panicked(out) == \E k \in 1..Len(out) : out[k].o = "panic"

\* projection compared with the real node after every action
Proj(t) ==
  [ h |-> t.h, r |-> t.r, step |-> t.step, hasProp |-> t.proposal.has, pol |-> t.proposal.pol,
    pblock |-> t.pblock, pparts |-> IF t.pparts.has THEN t.pparts.bid ELSE NoB,
    lockedR |-> t.lockedR, lockedB |-> t.lockedB, validR |-> t.validR, validB |-> t.validB,
    commitR |-> t.commitR, ttp |-> t.ttp,
    rounds |-> t.rounds,
    votes |-> [r \in t.rounds |-> t.votes[r]],
    last |-> t.lastCommit ]

VoteMsg(i, type, h, r, b) == [k |-> "vote", type |-> type, h |-> h, r |-> r, bid |-> b, i |-> i, ok |-> TRUE, peer |-> i]
SeenOf(m) == IF m.k = "vote" /\ m.ok THEN {[type |-> m.type, h |-> m.h, r |-> m.r, bid |-> m.bid, i |-> m.i]} ELSE {}

\* the node's own block exists (and can be voted for / delivered by others) once it has proposed it
Made(t) == \E k \in 1..Len(t.signed) : t.signed[k].o = "proposal" /\ t.signed[k].h = t.s.h /\ t.signed[k].bid = MyBid
Usable(t, b) == b # MyBid \/ Made(t)

\* Fault assumption (< 1/3 faulty power): the environment never completes +2/3 votes of one type and
\* round for an INVALID block (more than 1/3 of the power would have to be faulty).  Without it the code
\* locks and precommits such a block in enterPrecommit (upstream Tendermint re-validates there and halts);
\* finalizeCommit re-validates and panics.  Noted in DESIGN.md as a deviation, not claimed as a finding.
FaultGuard(t, type, r, b, who) ==
  LET vs == IF type = PrecommitT THEN PC(t.s, r) ELSE PV(t.s, r)
  IN ~(b \in InvalidBids /\ Two3(t.s.h, VFor(t.s.h, vs, b) + SumP(t.s.h, {i \in who : vs[i] = NoB})))

\* a bundle: the votes of ALL other validators for (type, r, b), delivered one after the other
RECURSIVE Bundle(_, _, _, _, _)
Bundle(c, todo, type, r, b) ==
  IF todo = {} THEN c
  ELSE LET i  == CHOOSE x \in todo : \A y \in todo : x <= y
           m  == VoteMsg(i, type, c.s.h, r, b)
           c1 == IF c.s.h # c.h0 THEN c                                  \* height changed mid-bundle: stop
                 ELSE LET res == HandleMsg(c.s, m, Env)
                      IN [c EXCEPT !.s = res.s, !.out = @ \o res.out, !.seen = @ \cup SeenOf(m)]
       IN Bundle(c1, todo \ {i}, type, r, b)

(* Actions are data: <<"own">> <<"fire">> <<"prop", r, b, pol, signer>> <<"part", b>>                 *)
(* <<"vote", i, type, r, b>> <<"badvote", i, type, r, b>> <<"lastpc", i, b>> <<"bundle", type, r, b>>    *)
Enabled(t, a) ==
  CASE a[1] = "own"     -> t.inq # <<>>
    [] a[1] = "fire"    -> t.timer.armed
    [] a[1] = "prop"    -> a[5] # Me
    [] a[1] = "part"    -> Usable(t, a[2])
    [] a[1] = "vote"    -> Usable(t, a[5]) /\ FaultGuard(t, a[3], a[4], a[5], {a[2]})
    [] a[1] = "badvote" -> Usable(t, a[5])
    [] a[1] = "lastpc"  -> t.s.h > 1 /\ a[3] # MyBid
    [] a[1] = "bundle"  -> Usable(t, a[4]) /\ FaultGuard(t, a[2], a[3], a[4], Others)

\* the handler call(s) of an action: [s, out, inq0, timer0, seen]
Call(t, a) ==
  LET s == t.s
      one(res, inq0, timer0, sn) == [s |-> res.s, out |-> res.out, inq0 |-> inq0, timer0 |-> timer0, seen |-> sn]
  IN CASE a[1] = "own"  -> one(HandleMsg(s, Head(t.inq), Env), Tail(t.inq), t.timer, SeenOf(Head(t.inq)))
       [] a[1] = "fire" -> one(HandleTimeout(s, t.timer, Env), t.inq, [t.timer EXCEPT !.armed = FALSE], {})
       [] a[1] = "prop" -> one(HandleMsg(s, [k |-> "proposal", h |-> s.h, r |-> a[2], pol |-> a[4], bid |-> a[3], i |-> a[5], sigOK |-> TRUE], Env),
                               t.inq, t.timer, {})
       [] a[1] = "part" -> one(HandleMsg(s, [k |-> "part", h |-> s.h, r |-> s.r, bid |-> a[2]], Env), t.inq, t.timer, {})
       [] a[1] = "vote" -> LET m == VoteMsg(a[2], a[3], s.h, a[4], a[5]) IN one(HandleMsg(s, m, Env), t.inq, t.timer, SeenOf(m))
       [] a[1] = "badvote" -> LET m == [VoteMsg(a[2], a[3], s.h, a[4], a[5]) EXCEPT !.ok = FALSE] IN one(HandleMsg(s, m, Env), t.inq, t.timer, {})
       [] a[1] = "lastpc" -> LET m == VoteMsg(a[2], PrecommitT, s.h - 1, s.lastR, a[3]) IN one(HandleMsg(s, m, Env), t.inq, t.timer, {})
       [] a[1] = "bundle" -> LET c == Bundle([s |-> s, out |-> <<>>, seen |-> {}, h0 |-> s.h], Others, a[2], a[3], a[4])
                             IN [s |-> c.s, out |-> c.out, inq0 |-> t.inq, timer0 |-> t.timer, seen |-> c.seen]

\* the state after an action and the observation recorded for the replay
Do(t, a) ==
  LET c == Call(t, a)
      t1 == [s |-> c.s, inq |-> c.inq0 \o MsgsOf(c.out), timer |-> LastTimer(c.out, c.timer0),
             signed |-> t.signed \o SignedOf(c.out), seen |-> t.seen \cup c.seen, evs |-> t.evs \cup EvsOf(c.out)]
  IN [t |-> t1, bad |-> Panicked(c.out),
      rec |-> [a |-> a, o |-> Proj(c.s), out |-> SelectSeq(c.out, LAMBDA o : o.o # "timeout"),
               t |-> t1.timer, q |-> Len(t1.inq), ev |-> Cardinality(t1.evs), evl |-> t1.evs]]

\* scripted prefixes: every action must be enabled where it is used
RECURSIVE RunPrefix(_, _, _)
RunPrefix(t, h, p) == IF p = <<>> THEN [t |-> t, h |-> h]
                      ELSE LET a == Head(p) IN
                           IF ~Enabled(t, a) THEN Assert(FALSE, <<"prefix action not enabled", a, Len(h)>>)
                           ELSE LET d == Do(t, a) IN RunPrefix(d.t, Append(h, d.rec), Tail(p))

Init == /\ \E k \in 1..Len(Prefixes) : LET r == RunPrefix(St0, <<>>, Prefixes[k]) IN st = r.t /\ hist = r.h
        /\ n0 = Len(hist)
        /\ die \in 1..6 /\ done = FALSE

Step(a) == /\ Enabled(st, a)
           /\ LET d == Do(st, a) IN ~d.bad /\ st' = d.t /\ hist' = Append(hist, d.rec)
           /\ die' \in 1..6 /\ UNCHANGED <<n0, done>>

\* End of a behaviour.  In simulation mode the walk is printed exactly once, by the single successor of
\* its last state (an invariant would be evaluated on every CANDIDATE successor, not only the chosen one).
AtEndOfWalk == Len(hist) - n0 >= Depth \/ st.s.h > MaxHeight
Finish == /\ UseDie /\ AtEndOfWalk /\ ~done
          /\ done' = TRUE /\ UNCHANGED <<st, hist, n0, die>>
          /\ PrintT(ToJson([w |-> hist, n0 |-> n0]))
\* nothing of the drawn class is enabled: draw again (keeps random walks from ending early)
Reroll == /\ UseDie /\ ~AtEndOfWalk /\ die \in {1, 2} /\ st.inq = <<>> /\ (die = 1 \/ ~st.timer.armed)
          /\ die' \in 3..6 /\ UNCHANGED <<st, hist, n0, done>>

Rounds == 1..MaxRound
Near   == {r \in Rounds : r >= st.s.r - 1 /\ r <= st.s.r + 1}     \* rounds around the node's current one
Types  == {PrevoteT, PrecommitT}
D(S)   == ~UseDie \/ die \in S
Next ==
  /\ ~AtEndOfWalk
  /\ \/ (D({1, 2}) \/ st.inq # <<>>) /\ Step(<<"own">>)
     \/ D({2}) /\ Step(<<"fire">>)
     \* proposals of the right proposer for the node's round (other rounds are ignored by the node: a few)
     \/ D({3}) /\ \E b \in Bids, pol \in 0..(MaxRound - 1) : Step(<<"prop", st.s.r, b, pol, ProposerOf[st.s.h][st.s.r]>>)
     \/ D({3}) /\ \E b \in AllBids : Step(<<"part", b>>)
     \/ D({6}) /\ \E r \in Rounds \ {st.s.r}, b \in Bids : Step(<<"prop", r, b, 0, ProposerOf[st.s.h][r]>>)
     \/ D({6}) /\ \E b \in Bids, x \in Others : x # ProposerOf[st.s.h][st.s.r] /\ Step(<<"prop", st.s.r, b, 0, x>>)
     \* votes
     \/ D({4}) /\ \E type \in Types, r \in Near, b \in AllBids \cup {NilB} : Step(<<"bundle", type, r, b>>)
     \/ D({5}) /\ \E type \in Types, r \in Rounds, b \in AllBids \cup {NilB} : Step(<<"bundle", type, r, b>>)
     \/ D({5, 6}) /\ \E i \in Others, type \in Types, r \in Rounds, b \in AllBids \cup {NilB} : Step(<<"vote", i, type, r, b>>)
     \/ D({6}) /\ \E i \in Others, b \in Bids : Step(<<"lastpc", i, b>>)
     \/ D({6}) /\ \E i \in Others, r \in Rounds : Step(<<"badvote", i, PrevoteT, r, "A">>)
Spec == Init /\ [][Next \/ Reroll \/ Finish]_vars

View == <<st.s, st.inq, st.timer>>

\* ---- property C03 on the node's signature log ----
C03 == /\ OneVotePerTypeHR(st.signed)
       /\ PrecommitNeedsPolka(st.signed, st.seen)
       /\ LockRespected(st.signed, st.seen, AllBids)
       /\ OnlyValidVoted(st.signed)
\* C19 (consensus side): evidence is produced only against a validator that really sent two different votes of
\* one type for one height and round (both are in `seen` or were refused as the conflicting second vote)
EvidenceOnlyForEquivocators ==
  \A e \in st.evs : Cardinality(e.pair) = 2 /\ e.i # Me
\* sanity of the transcription
TypeOK == /\ st.s.lockedB # NoB => st.s.lockedR >= 1
          /\ st.s.validB # NoB => st.s.validR >= 1
          /\ st.s.lockedB \notin InvalidBids /\ st.s.validB \notin InvalidBids

\* every transition, for the replay of the exhaustive runs: the actions that lead to the pre-state, and the
\* action with its expected observation (compact: the per-step observations of the path are not repeated)
Dump == PrintT(ToJson([acts |-> [i \in 1..Len(hist) |-> hist[i].a], last |-> hist'[Len(hist')]]))
=================================================================================
