------------------------------- MODULE MC_Ticker -------------------------------
(***************************************************************************)
(* consensus/ticker.go timeoutRoutine: the node's only clock.  It holds ONE *)
(* timeout; a newly scheduled one replaces it unless it is for an older      *)
(* height / round, or for a step that is not later within the same round;    *)
(* what fired is remembered for that comparison.  MC_NodeEnv, KardiaNet and  *)
(* the network drivers use exactly this rule (Older / LastTimer) for the     *)
(* node's timer; here it is bound to the REAL ticker: every sequence of      *)
(* Depth actions - schedule <<h, r, step>> or let the held timeout fire - is *)
(* replayed on consensus.NewTimeoutTicker() and the timeouts that come out   *)
(* of its channel are compared.                                              *)
(***************************************************************************)
EXTENDS Integers, Sequences, TLC, Json

CONSTANTS Hs, Rs, Steps, Depth

VARIABLES held,    \* [h, r, step, armed]: what the routine holds (initially the empty timeout info)
          hist,    \* actions so far: <<"s", h, r, step>> or <<"w", fires?>>
          fired    \* what has come out of the channel, in order
vars == <<held, hist, fired>>

Older(n, ti) == \/ n.h < ti.h
                \/ n.h = ti.h /\ n.r < ti.r
                \/ n.h = ti.h /\ n.r = ti.r /\ ti.step > 0 /\ n.step <= ti.step

Init == held = [h |-> 0, r |-> 0, step |-> 0, armed |-> FALSE] /\ hist = <<>> /\ fired = <<>>
Sched(h, r, st) ==
  /\ hist' = Append(hist, <<"s", h, r, st>>)
  /\ held' = IF Older([h |-> h, r |-> r, step |-> st], held) THEN held ELSE [h |-> h, r |-> r, step |-> st, armed |-> TRUE]
  /\ UNCHANGED fired
Wait ==
  /\ hist' = Append(hist, <<"w", IF held.armed THEN 1 ELSE 0>>)      \* 1: this wait sees the held timeout fire
  /\ IF held.armed THEN fired' = Append(fired, <<held.h, held.r, held.step>>) /\ held' = [held EXCEPT !.armed = FALSE]
                   ELSE UNCHANGED <<fired, held>>
Next == /\ Len(hist) < Depth
        /\ (Wait \/ \E h \in Hs, r \in Rs, st \in Steps : Sched(h, r, st))
Spec == Init /\ [][Next]_vars

\* one line per complete behaviour: the actions, what must have fired, and whether a timeout is still pending
Dump == (Len(hist') = Depth) => PrintT(ToJson([a |-> hist', f |-> fired', p |-> held'.armed, ph |-> <<held'.h, held'.r, held'.step>>]))
=================================================================================
