------------------------------- MODULE KardiaNode -------------------------------
(***************************************************************************)
(* Handler-level specification of one consensus node: a transcription of    *)
(* consensus/state.go (ConsensusState).  One input of receiveRoutine — a    *)
(* peer or internal message, or a timeout — is ONE atomic step, exactly as   *)
(* one iteration of the loop under cs.mtx:                                   *)
(*      HandleMsg(s, m, env)      HandleTimeout(s, ti, env)                  *)
(* Both return a context [s |-> new node state, out |-> outputs], where the  *)
(* outputs are, in program order, the messages put on the internal queue     *)
(* (own proposal, own block part, own signed votes), the timeouts handed to  *)
(* the ticker, block-store / application calls and evidence reports.         *)
(* The enterNewRound/Propose/Prevote/PrevoteWait/Precommit/PrecommitWait/    *)
(* Commit/finalizeCommit cascade is written as nested operators threading     *)
(* the context, guards copied from the code, effects in the code's order.     *)
(*                                                                           *)
(* Kardia deviations from Tendermint that are modelled as such: rounds start *)
(* at 1 (0 = "none": LockedRound, ValidRound, POLRound < 1), HeightVoteSet    *)
(* .SetRound creates round 0 on its first call, a vote is signed with the     *)
(* CURRENT cs.Round (the deferred updateRoundStep runs after signing).  The  *)
(* POL-round check of setProposal was vacuous for unsigned rounds in the code *)
(* as found; it was repaired (d00f155) and is modelled as repaired.           *)
(*                                                                           *)
(* Validator sets may change from height to height: PowerAt[h][i] is the      *)
(* power of validator IDENTITY i (its key) in the set of height h, 0 = not a  *)
(* member; every quorum predicate carries the height of the vote set it       *)
(* judges (LastCommit: h-1).  WaitForTxs selects the default configuration    *)
(* (round 1 of a height is proposed when the NewRound timeout fires).         *)
(*                                                                           *)
(* Abstractions: a block is its id (a string); a block has one part; block   *)
(* validity (cstate.validateBlock) is the predicate bid \notin InvalidBids;   *)
(* signatures are valid/invalid flags on messages; vote sets keep the first   *)
(* vote of each validator (VoteSet.tla is the full model of a vote set; peer  *)
(* majority claims never reach ConsensusState through receiveRoutine).        *)
(***************************************************************************)
EXTENDS Integers, Sequences, FiniteSets, TLC

CONSTANTS N,            \* number of validator identities 1..N
          PowerAt,      \* PowerAt[h][i] = voting power of validator i in the set of height h (0: not a member);
                        \* i is the validator's identity (its key), not its position in the set of a height
          ProposerOf,   \* ProposerOf[h][r] = index of the proposer of round r at height h
          InvalidBids,  \* block ids that fail cstate.validateBlock
          SkipTimeoutCommit, \* config.IsSkipTimeoutCommit
          WaitForTxs         \* config.WaitForTxs() with CreateEmptyBlocksInterval > 0 (the default configuration):
                             \* round 1 of a height is proposed when the NewRound timeout fires

Idx  == 1..N
NoB  == "none"     \* no block / no vote
NilB == "nil"      \* vote for nil
RECURSIVE SumP(_, _)
SumP(h, S) == IF S = {} THEN 0 ELSE LET i == CHOOSE x \in S : TRUE IN PowerAt[h][i] + SumP(h, S \ {i})
Total(h) == SumP(h, Idx)
Two3(h, p) == 3 * p > 2 * Total(h)          \* strictly more than two thirds (VoteSet.tla: ThresholdsExact)

\* cstypes.RoundStepType
NewHeight == 1  NewRound == 2  Propose == 3  Prevote == 4  PrevoteWait == 5
Precommit == 6  PrecommitWait == 7  Commit == 8
PrevoteT == 1  PrecommitT == 2       \* kproto.SignedMsgType

(****************************** vote sets ******************************)
EmptyVS     == [i \in Idx |-> NoB]
VSum(h, vs)    == SumP(h, {i \in Idx : vs[i] # NoB})
VFor(h, vs, b) == SumP(h, {i \in Idx : vs[i] = b})
VBlocks(vs) == {vs[i] : i \in Idx} \ {NoB}
HasMaj(h, vs)  == \E b \in VBlocks(vs) : Two3(h, VFor(h, vs, b))                 \* HasTwoThirdsMajority
Maj(h, vs)     == IF HasMaj(h, vs) THEN CHOOSE b \in VBlocks(vs) : Two3(h, VFor(h, vs, b)) ELSE NoB
HasAny(h, vs)  == Two3(h, VSum(h, vs))                                            \* HasTwoThirdsAny
HasAllV(h, vs) == VSum(h, vs) = Total(h)
EmptyRVS    == [pv |-> EmptyVS, pc |-> EmptyVS]

(****************************** node state ******************************)
NoProposal == [has |-> FALSE, r |-> 0, pol |-> 0, bid |-> NoB]
NoParts    == [has |-> FALSE, bid |-> NoB, done |-> FALSE]

\* the state updateToState leaves behind for height h (me = 0: not a validator)
InitNode(me, h) ==
  [ me |-> me, h |-> h, r |-> 1, step |-> NewHeight,
    proposal |-> NoProposal, pblock |-> NoB, pparts |-> NoParts,
    lockedR |-> 0, lockedB |-> NoB, validR |-> 0, validB |-> NoB,
    rounds |-> {1}, hvsR |-> 1, votes |-> [r \in {1} |-> EmptyRVS], catchup |-> <<>>,
    commitR |-> 0, lastCommit |-> EmptyVS, hasLast |-> FALSE, lastR |-> 0, ttp |-> FALSE,
    storeH |-> h - 1 ]

Ctx(s)     == [s |-> s, out |-> <<>>]
Emit(c, o) == [c EXCEPT !.out = Append(@, o)]
SetS(c, s) == [c EXCEPT !.s = s]

RVS(s, r) == IF r \in s.rounds THEN s.votes[r] ELSE EmptyRVS
PV(s, r)  == RVS(s, r).pv
PC(s, r)  == RVS(s, r).pc
IsVal(s)  == s.me \in Idx /\ PowerAt[s.h][s.me] > 0
Proposer(s, r) == ProposerOf[s.h][r]

AddRounds(s, new) ==
  [s EXCEPT !.rounds = @ \cup new,
            !.votes = [r \in (s.rounds \cup new) |-> IF r \in s.rounds THEN s.votes[r] ELSE EmptyRVS]]

\* HeightVoteSet.SetRound(upto): creates the missing rounds hvs.round-1 .. upto (so round 0 the first time)
SetRound(s, upto) ==
  LET new == {r \in (s.hvsR - 1)..upto : r \notin s.rounds}
  IN [AddRounds(s, new) EXCEPT !.hvsR = upto]

IsProposalComplete(s) ==
  /\ s.proposal.has /\ s.pblock # NoB
  /\ \/ s.proposal.pol < 1
     \/ HasMaj(s.h, PV(s, s.proposal.pol))

ScheduleTimeout(c, h, r, step) == Emit(c, [o |-> "timeout", h |-> h, r |-> r, step |-> step])

\* signAddVote: signs with the CURRENT round and puts the vote on the internal queue
SignAddVote(c, type, b) ==
  IF ~IsVal(c.s) THEN c
  ELSE Emit(c, [o |-> "vote", type |-> type, h |-> c.s.h, r |-> c.s.r, bid |-> b, i |-> c.s.me])

(********************* finalizeCommit / updateToState *********************)
FinalizeCommit(c, h) ==
  LET s == c.s IN
  IF s.h # h \/ s.step # Commit THEN c
  ELSE LET b == Maj(s.h, PC(s, s.commitR)) IN
       IF b \in InvalidBids THEN Emit(c, [o |-> "panic", why |-> "committed invalid block"])
       ELSE
       LET c1 == IF s.storeH < h THEN Emit(c, [o |-> "save", h |-> h, bid |-> b]) ELSE c
           c2 == Emit(c1, [o |-> "apply", h |-> h, bid |-> b])
           s2 == [InitNode(s.me, h + 1) EXCEPT !.lastCommit = PC(s, s.commitR), !.hasLast = TRUE, !.lastR = s.commitR,
                                                    !.storeH = h]
       IN ScheduleTimeout(SetS(c2, s2), h + 1, 1, NewHeight)

TryFinalizeCommit(c, h) ==
  LET s == c.s
      b == Maj(s.h, PC(s, s.commitR))
  IN IF b = NoB \/ b = NilB THEN c
     ELSE IF s.pblock # b THEN c
     ELSE FinalizeCommit(c, h)

EnterCommit(c, h, cr) ==
  LET s == c.s IN
  IF s.h # h \/ Commit <= s.step THEN c
  ELSE LET b  == Maj(s.h, PC(s, cr))
           s1 == IF s.lockedB = b /\ b # NoB
                 THEN [s EXCEPT !.pblock = s.lockedB, !.pparts = [has |-> TRUE, bid |-> s.lockedB, done |-> TRUE]] ELSE s
           s2 == IF s1.pblock # b /\ ~(s1.pparts.has /\ s1.pparts.bid = b)
                 THEN [s1 EXCEPT !.pblock = NoB, !.pparts = [has |-> TRUE, bid |-> b, done |-> FALSE]] ELSE s1
           s3 == [s2 EXCEPT !.step = Commit, !.commitR = cr]
       IN TryFinalizeCommit(SetS(c, s3), h)

EnterPrecommitWait(c, h, r) ==
  LET s == c.s IN
  IF s.h # h \/ r # s.r \/ s.ttp THEN c
  ELSE LET c1 == ScheduleTimeout(c, h, r, PrecommitWait)
       IN SetS(c1, [s EXCEPT !.ttp = TRUE])

EnterPrecommit(c, h, r) ==
  LET s == c.s IN
  IF s.h # h \/ r < s.r \/ (s.r = r /\ Precommit <= s.step) THEN c
  ELSE
    LET pv == PV(s, r)
        b  == Maj(h, pv)
        done(cc) == SetS(cc, [cc.s EXCEPT !.r = r, !.step = Precommit])
    IN IF b = NoB THEN done(SignAddVote(c, PrecommitT, NilB))                 \* no polka: precommit nil, keep lock
       ELSE IF b = NilB THEN                                                   \* polka for nil: unlock, precommit nil
            done(SignAddVote(SetS(c, [s EXCEPT !.lockedR = 0, !.lockedB = NoB]), PrecommitT, NilB))
       ELSE IF s.lockedB = b THEN                                              \* relock
            done(SignAddVote(SetS(c, [s EXCEPT !.lockedR = r]), PrecommitT, b))
       ELSE IF s.pblock = b THEN                                               \* lock the proposal block
            done(SignAddVote(SetS(c, [s EXCEPT !.lockedR = r, !.lockedB = b]), PrecommitT, b))
       ELSE LET s1 == [s EXCEPT !.lockedR = 0, !.lockedB = NoB]               \* polka for a block we do not have
                s2 == IF ~(s1.pparts.has /\ s1.pparts.bid = b)
                      THEN [s1 EXCEPT !.pblock = NoB, !.pparts = [has |-> TRUE, bid |-> b, done |-> FALSE]] ELSE s1
            IN done(SignAddVote(SetS(c, s2), PrecommitT, NilB))

EnterPrevoteWait(c, h, r) ==
  LET s == c.s IN
  IF s.h # h \/ r < s.r \/ (s.r = r /\ PrevoteWait <= s.step) THEN c
  ELSE LET c1 == ScheduleTimeout(c, h, r, PrevoteWait)
       IN SetS(c1, [s EXCEPT !.r = r, !.step = PrevoteWait])

DoPrevote(c) ==
  LET s == c.s IN
  IF s.lockedB # NoB THEN SignAddVote(c, PrevoteT, s.lockedB)
  ELSE IF s.pblock = NoB THEN SignAddVote(c, PrevoteT, NilB)
  ELSE IF s.pblock \in InvalidBids THEN SignAddVote(c, PrevoteT, NilB)     \* blockExec.ValidateBlock fails
  ELSE SignAddVote(c, PrevoteT, s.pblock)

EnterPrevote(c, h, r) ==
  LET s == c.s IN
  IF s.h # h \/ r < s.r \/ (s.r = r /\ Prevote <= s.step) THEN c
  ELSE LET c1 == DoPrevote(c)
       IN SetS(c1, [c1.s EXCEPT !.r = r, !.step = Prevote])

\* env.newBid: id of the block this node creates if it has to (bound by the driver / the network model)
DecideProposal(c, h, r, env) ==
  LET s  == c.s
      b  == IF s.validB # NoB THEN s.validB ELSE env.newBid
      c1 == Emit(c, [o |-> "proposal", h |-> h, r |-> r, pol |-> s.validR, bid |-> b, i |-> s.me])
  IN Emit(c1, [o |-> "part", h |-> h, r |-> r, bid |-> b])

EnterPropose(c, h, r, env) ==
  LET s == c.s IN
  IF s.h # h \/ r < s.r \/ (s.r = r /\ Propose <= s.step) THEN c
  ELSE LET c1 == ScheduleTimeout(c, h, r, Propose)
           c2 == IF IsVal(s) /\ Proposer(s, s.r) = s.me THEN DecideProposal(c1, h, r, env) ELSE c1
           c3 == SetS(c2, [c2.s EXCEPT !.r = r, !.step = Propose])
       IN IF IsProposalComplete(c3.s) THEN EnterPrevote(c3, h, c3.s.r) ELSE c3

EnterNewRound(c, h, r, env) ==
  LET s == c.s IN
  IF s.h # h \/ r < s.r \/ (s.r = r /\ s.step # NewHeight) THEN c
  ELSE LET s1 == [s EXCEPT !.r = r, !.step = NewRound, !.ttp = FALSE,
                           !.proposal = IF r = 1 THEN @ ELSE NoProposal,
                           !.pblock   = IF r = 1 THEN @ ELSE NoB,
                           !.pparts   = IF r = 1 THEN @ ELSE NoParts]
           s2 == SetRound(s1, r + 1)
       IN IF WaitForTxs /\ r = 1 THEN ScheduleTimeout(SetS(c, s2), h, r, NewRound)   \* CreateEmptyBlocksInterval
          ELSE EnterPropose(SetS(c, s2), h, r, env)

(****************************** inputs ******************************)
\* setProposal.  p = [h, r, pol, bid, i, sigOK]; the signature is checked against the proposer of the
\* node's CURRENT round; the POL round must be 0 (none) or below the proposal's round.
SetProposal(c, p) ==
  LET s == c.s IN
  IF s.proposal.has THEN c
  ELSE IF p.h # s.h \/ p.r # s.r THEN c
  ELSE IF p.pol >= 1 /\ p.pol >= p.r THEN c          \* ErrInvalidProposalPOLRound (repaired in d00f155: the test was vacuous)
  ELSE IF ~p.sigOK \/ p.i # Proposer(s, s.r) THEN c
  ELSE SetS(c, [s EXCEPT !.proposal = [has |-> TRUE, r |-> p.r, pol |-> p.pol, bid |-> p.bid],
                         !.pparts = IF s.pparts.has THEN @ ELSE [has |-> TRUE, bid |-> p.bid, done |-> FALSE]])

\* addProposalBlockPart for the single part of block m.bid
AddProposalBlockPart(c, m) ==
  LET s == c.s IN
  IF s.h # m.h THEN c
  ELSE IF ~s.pparts.has THEN c
  ELSE IF s.pparts.done \/ m.bid # s.pparts.bid THEN c
  ELSE
    LET s1 == [s EXCEPT !.pparts.done = TRUE, !.pblock = m.bid]
        b  == Maj(s1.h, PV(s1, s1.r))
        has23 == b # NoB
        s2 == IF has23 /\ b # NilB /\ s1.validR < s1.r /\ s1.pblock = b
              THEN [s1 EXCEPT !.validR = s1.r, !.validB = s1.pblock] ELSE s1
        c2 == SetS(c, s2)
    IN IF s2.step <= Propose /\ IsProposalComplete(s2)
       THEN LET c3 == EnterPrevote(c2, s2.h, s2.r)
            IN IF has23 THEN EnterPrecommit(c3, s2.h, s2.r) ELSE c3
       ELSE IF s2.step = Commit THEN TryFinalizeCommit(c2, s2.h)
       ELSE c2

\* VoteSet.AddVote restricted to what reaches a node: first vote wins; a different second vote of the
\* same validator is a conflict (never added: no peer has claimed a majority)
\* (VoteSet.addVerifiedVote: a conflicting vote for the block that already HAS the majority replaces the
\* validator's canonical vote although it is reported as a conflict and not counted again)
AddToVS(vs, v) == IF vs[v.i] = NoB THEN [added |-> TRUE, conflict |-> FALSE, vs |-> [vs EXCEPT ![v.i] = v.bid]]
                  ELSE IF vs[v.i] = v.bid THEN [added |-> FALSE, conflict |-> FALSE, vs |-> vs]
                  ELSE [added |-> FALSE, conflict |-> TRUE,
                        vs |-> IF Maj(v.h, vs) = v.bid THEN [vs EXCEPT ![v.i] = v.bid] ELSE vs]

\* tryAddVote's reaction to ErrVoteConflictingVotes: evidence unless the vote is our own
Conflict(c, v, old) ==
  IF v.i = c.s.me THEN c
  ELSE Emit(c, [o |-> "evidence", i |-> v.i, type |-> v.type, h |-> v.h, r |-> v.r, a |-> old, b |-> v.bid])

\* tryAddVote/addVote.  v = [type, h, r, bid, i, ok, peer]; ok = FALSE: wrong signature / address / index
AddVote(c, v, env) ==
  LET s == c.s IN
  IF v.h + 1 = s.h /\ v.type = PrecommitT THEN                       \* late precommit for the previous height
     IF s.step # NewHeight \/ ~s.hasLast \/ ~v.ok \/ v.r # s.lastR THEN c     \* LastCommit is the vote set of the commit round
     ELSE LET res == AddToVS(s.lastCommit, v) IN
          IF res.conflict THEN Conflict(SetS(c, [s EXCEPT !.lastCommit = res.vs]), v, s.lastCommit[v.i])
          ELSE IF ~res.added THEN c
          ELSE LET c1 == SetS(c, [s EXCEPT !.lastCommit = res.vs])
               IN IF SkipTimeoutCommit /\ HasAllV(v.h, res.vs) THEN EnterNewRound(c1, s.h, 1, env) ELSE c1
  ELSE IF v.h # s.h THEN c
  ELSE
    LET known  == v.r \in s.rounds
        ncatch == Len(SelectSeq(s.catchup, LAMBDA x : x = v.peer))
    IN IF ~known /\ ncatch >= 2 THEN c                                \* ErrGotVoteFromUnwantedRound
       ELSE
         LET s0  == IF known THEN s
                    ELSE [AddRounds(s, {v.r}) EXCEPT !.catchup = Append(@, v.peer)]
             cur == IF v.type = PrevoteT THEN s0.votes[v.r].pv ELSE s0.votes[v.r].pc
             res == IF v.ok THEN AddToVS(cur, v) ELSE [added |-> FALSE, conflict |-> FALSE, vs |-> cur]
         IN IF res.conflict
            THEN Conflict(SetS(c, IF v.type = PrevoteT THEN [s0 EXCEPT !.votes[v.r].pv = res.vs]
                                                       ELSE [s0 EXCEPT !.votes[v.r].pc = res.vs]), v, cur[v.i])
            ELSE IF ~res.added THEN SetS(c, s0)
            ELSE
              LET s1 == IF v.type = PrevoteT THEN [s0 EXCEPT !.votes[v.r].pv = res.vs]
                                             ELSE [s0 EXCEPT !.votes[v.r].pc = res.vs]
                  h  == s1.h
              IN IF v.type = PrevoteT THEN
                   LET pv == res.vs
                       b  == Maj(h, pv)
                       \* unlock: +2/3 prevotes for something else in a round in (lockedR, current round]
                       s2 == IF b # NoB /\ s1.lockedB # NoB /\ s1.lockedR < v.r /\ v.r <= s1.r /\ s1.lockedB # b
                             THEN [s1 EXCEPT !.lockedR = 0, !.lockedB = NoB] ELSE s1
                       \* valid block
                       s3 == IF b # NoB /\ b # NilB /\ s2.validR < v.r /\ v.r = s2.r
                             THEN LET t1 == IF s2.pblock = b THEN [s2 EXCEPT !.validR = v.r, !.validB = s2.pblock]
                                            ELSE [s2 EXCEPT !.pblock = NoB]
                                  IN IF ~(t1.pparts.has /\ t1.pparts.bid = b)
                                     THEN [t1 EXCEPT !.pparts = [has |-> TRUE, bid |-> b, done |-> FALSE]] ELSE t1
                             ELSE s2
                       c3 == SetS(c, s3)
                   IN IF s3.r < v.r /\ HasAny(h, pv) THEN EnterNewRound(c3, h, v.r, env)          \* round skip
                      ELSE IF s3.r = v.r /\ Prevote <= s3.step THEN
                           IF b # NoB /\ (IsProposalComplete(s3) \/ b = NilB) THEN EnterPrecommit(c3, h, v.r)
                           ELSE IF HasAny(h, pv) THEN EnterPrevoteWait(c3, h, v.r)
                           ELSE c3
                      ELSE IF s3.proposal.has /\ 1 <= s3.proposal.pol /\ s3.proposal.pol = v.r THEN
                           IF IsProposalComplete(s3) THEN EnterPrevote(c3, h, s3.r) ELSE c3
                      ELSE c3
                 ELSE
                   LET pc == res.vs
                       b  == Maj(h, pc)
                       c1 == SetS(c, s1)
                   IN IF b # NoB THEN
                        LET c2 == EnterNewRound(c1, h, v.r, env)
                            c3 == EnterPrecommit(c2, h, v.r)
                        IN IF b # NilB THEN
                             LET c4 == EnterCommit(c3, h, v.r)
                             IN IF SkipTimeoutCommit /\ HasAllV(h, pc) THEN EnterNewRound(c4, c4.s.h, 1, env) ELSE c4
                           ELSE EnterPrecommitWait(c3, h, v.r)
                      ELSE IF s1.r <= v.r /\ HasAny(h, pc) THEN
                        EnterPrecommitWait(EnterNewRound(c1, h, v.r, env), h, v.r)
                      ELSE c1

HandleMsg(s, m, env) ==
  LET c == Ctx(s) IN
  CASE m.k = "proposal" -> SetProposal(c, m)
    [] m.k = "part"     -> AddProposalBlockPart(c, m)
    [] m.k = "vote"     -> AddVote(c, m, env)

HandleTimeout(s, ti, env) ==
  LET c == Ctx(s) IN
  IF ti.h # s.h \/ ti.r < s.r \/ (ti.r = s.r /\ ti.step < s.step) THEN c
  ELSE CASE ti.step = NewHeight     -> EnterNewRound(c, ti.h, 1, env)
         [] ti.step = NewRound      -> EnterPropose(c, ti.h, 1, env)
         [] ti.step = Propose       -> EnterPrevote(c, ti.h, ti.r)
         [] ti.step = PrevoteWait   -> EnterPrecommit(c, ti.h, ti.r)
         [] ti.step = PrecommitWait -> EnterNewRound(EnterPrecommit(c, ti.h, ti.r), ti.h, ti.r + 1, env)

(******************* per-validator obligations (property C03) *******************)
(* stated over a log `signed` of the node's own signature requests (records as emitted:  *)
(* o = "vote"/"proposal") and `seen`, the set of valid votes delivered to it so far.      *)
SeenFor(seen, type, h, r, b) == SumP(h, {i \in Idx : [type |-> type, h |-> h, r |-> r, bid |-> b, i |-> i] \in seen})
Polka(seen, h, r, b) == Two3(h, SeenFor(seen, PrevoteT, h, r, b))
\* at most one vote of each type and at most one proposal per (height, round)
OneVotePerTypeHR(signed) ==
  \A k1, k2 \in 1..Len(signed) :
     (k1 < k2 /\ signed[k1].o = signed[k2].o /\ signed[k1].h = signed[k2].h /\ signed[k1].r = signed[k2].r
        /\ (signed[k1].o = "vote" => signed[k1].type = signed[k2].type)) => FALSE
\* a precommit for a block needs +2/3 prevotes for it in that round
PrecommitNeedsPolka(signed, seen) ==
  \A k \in 1..Len(signed) :
     (signed[k].o = "vote" /\ signed[k].type = PrecommitT /\ signed[k].bid # NilB)
        => Polka(seen, signed[k].h, signed[k].r, signed[k].bid)
\* (The property says "prevotes no other block"; agreement needs - and doPrevote gives - more: it does not prevote
\* nil either while locked, otherwise the locked validators' own nil prevotes would unlock them, see KardiaBFT.)
\* after precommitting b at r, a prevote for anything else at r2 > r needs a +2/3 prevote set for a
\* different value in a round in (r, r2]
LockRespected(signed, seen, blocks) ==
  \A k1, k2 \in 1..Len(signed) :
     (/\ k1 < k2 /\ signed[k1].o = "vote" /\ signed[k2].o = "vote"
      /\ signed[k1].type = PrecommitT /\ signed[k1].bid # NilB
      /\ signed[k2].type = PrevoteT /\ signed[k2].h = signed[k1].h /\ signed[k2].r > signed[k1].r
      /\ signed[k2].bid # signed[k1].bid)      \* anything else - NIL INCLUDED: a locked validator prevotes its block
     => \E r3 \in (signed[k1].r + 1)..signed[k2].r, w \in (blocks \cup {NilB}) \ {signed[k1].bid} :
           Polka(seen, signed[k1].h, r3, w)
\* only valid blocks are voted for
OnlyValidVoted(signed) == \A k \in 1..Len(signed) : signed[k].o = "vote" => signed[k].bid \notin InvalidBids
=================================================================================
