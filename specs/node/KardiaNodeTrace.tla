----------------------------- MODULE KardiaNodeTrace -----------------------------
(***************************************************************************)
(* Trace validation: a run of REAL consensus nodes (harness/node net        *)
(* driver: several real ConsensusState instances, messages carried by the   *)
(* driver in an adversarial order, a Byzantine validator played by the       *)
(* driver) is explained step by step by the KardiaNode handlers.             *)
(*                                                                         *)
(* trace.ndjson: line 1 = header [n, power (per height), prop, me, invalid,   *)
(* wait]; then one                                                          *)
(* line per handler call of some node, in the order the single-threaded      *)
(* scheduler made them:                                                      *)
(*   [n, k = "msg"|"timeout", m | ti, newBid, post, out, touts]              *)
(* post = projection of the real node after the call, out = messages it put   *)
(* on its internal queue, touts = timeouts it scheduled.  The step function   *)
(* is deterministic, so validation is linear; every event must match.         *)
(* Invariants evaluated on every state of the explained trace:                *)
(*   Agreement   no two correct nodes commit different blocks at a height     *)
(*   C03         the per-validator obligations on each node's signature log   *)
(***************************************************************************)
EXTENDS Integers, Sequences, FiniteSets, TLC, Json

Trace == ndJsonDeserialize("trace.ndjson")
Hdr == Trace[1]
NN  == Hdr.n                      \* number of real nodes in the run

VARIABLES st,         \* st[n]: KardiaNode state of real node n
          l,          \* next trace line
          signed,     \* signed[n]: signature requests of node n
          seen,       \* seen[n]: valid votes delivered to node n
          committed,  \* committed[n]: sequence of <<h, bid>> applied by node n
          hbase,      \* hbase[n]: node n's state when it entered its current height (what follows #ENDHEIGHT)
          hlog        \* hlog[n]: the inputs node n handled at its current height = its WAL after the last #ENDHEIGHT
vars == <<st, l, signed, seen, committed, hbase, hlog>>

K == INSTANCE KardiaNode WITH N <- Len(Hdr.power[1]), PowerAt <- Hdr.power, ProposerOf <- Hdr.prop,
                              InvalidBids <- {Hdr.invalid[i] : i \in 1..Len(Hdr.invalid)},
                              SkipTimeoutCommit <- FALSE, WaitForTxs <- Hdr.wait

Nodes == 1..NN
Init == /\ st = [n \in Nodes |-> K!InitNode(Hdr.me[n], 1)]
        /\ l = 2
        /\ signed = [n \in Nodes |-> <<>>]
        /\ seen = [n \in Nodes |-> {}]
        /\ committed = [n \in Nodes |-> <<>>]
        /\ hbase = [n \in Nodes |-> K!InitNode(Hdr.me[n], 1)]
        /\ hlog = [n \in Nodes |-> <<>>]

\* vote sets as a sequence ordered by round (JSON arrays come back as sequences)
RECURSIVE RoundSeq(_, _)
RoundSeq(t, S) == IF S = {} THEN <<>>
                  ELSE LET r == CHOOSE x \in S : \A y \in S : x <= y
                       IN <<[r |-> r, pv |-> t.votes[r].pv, pc |-> t.votes[r].pc]>> \o RoundSeq(t, S \ {r})
Proj(t) ==
  [ h |-> t.h, r |-> t.r, step |-> t.step, hasProp |-> t.proposal.has, pol |-> t.proposal.pol,
    pblock |-> t.pblock, pparts |-> IF t.pparts.has THEN t.pparts.bid ELSE K!NoB,
    lockedR |-> t.lockedR, lockedB |-> t.lockedB, validR |-> t.validR, validB |-> t.validB,
    commitR |-> t.commitR, ttp |-> t.ttp,
    votes |-> RoundSeq(t, t.rounds),
    last |-> t.lastCommit ]

MsgOuts(out)  == SelectSeq(out, LAMBDA o : o.o \in {"vote", "proposal", "part"})
TimeOuts(out) == SelectSeq(out, LAMBDA o : o.o = "timeout")
Applies(out)  == SelectSeq(out, LAMBDA o : o.o = "apply")
SignedOf(out) == SelectSeq(out, LAMBDA o : o.o \in {"vote", "proposal"})
RECURSIVE AppSeq(_)
AppSeq(out) == IF out = <<>> THEN <<>> ELSE <<<<Head(out).h, Head(out).bid>>>> \o AppSeq(Tail(out))
\* the JSON writer of the driver gives the same field set as the specification's output records
Norm(o) == IF o.o = "vote" THEN [o |-> "vote", type |-> o.type, h |-> o.h, r |-> o.r, bid |-> o.bid, i |-> o.i]
           ELSE IF o.o = "proposal" THEN [o |-> "proposal", h |-> o.h, r |-> o.r, pol |-> o.pol, bid |-> o.bid, i |-> o.i]
           ELSE IF o.o = "part" THEN [o |-> "part", h |-> o.h, r |-> o.r, bid |-> o.bid]
           ELSE [o |-> "timeout", h |-> o.h, r |-> o.r, step |-> o.step]
NormSeq(s) == [k \in 1..Len(s) |-> Norm(s[k])]

SeenOf(e) == IF e.k = "msg" /\ e.m.k = "vote" /\ e.m.ok
             THEN {[type |-> e.m.type, h |-> e.m.h, r |-> e.m.r, bid |-> e.m.bid, i |-> e.m.i]} ELSE {}

(***************************************************************************)
(* A restart (event k = "restart": the node process is stopped between two  *)
(* handler calls and a new one is built on the surviving database and WAL). *)
(* The specification of recovery IS the replay: the new process starts from *)
(* the state updateToState builds for the stored height — with LastCommit   *)
(* rebuilt from the stored seen-commit, which keeps only the precommits for *)
(* the committed block and for nil — and feeds every input logged after the *)
(* last #ENDHEIGHT through the same handlers.  What it signs on the way     *)
(* must be what it had signed the first time (C05: no conflicting           *)
(* signature), and the state it ends in is the specified one (so it agrees  *)
(* with everybody about height, round, lock and whose turn it is: C04).     *)
(***************************************************************************)
Handle(s, e) == IF e.k = "timeout" THEN K!HandleTimeout(s, e.ti, [newBid |-> e.newBid])
                ELSE K!HandleMsg(s, e.m, [newBid |-> e.newBid])
RECURSIVE Replay(_, _, _, _)
Replay(s, log, k, outs) ==
  IF k > Len(log) THEN [s |-> s, out |-> outs]
  ELSE LET res == Handle(s, log[k]) IN Replay(res.s, log, k + 1, outs \o MsgOuts(res.out))
SeenCommitOf(s) ==
  IF ~s.hasLast THEN s
  ELSE LET cb == K!Maj(s.h - 1, s.lastCommit)
       IN [s EXCEPT !.lastCommit = [i \in DOMAIN s.lastCommit |->
                                      IF s.lastCommit[i] \in {cb, K!NilB} THEN s.lastCommit[i] ELSE K!NoB]]
Recovered(n) == Replay(SeenCommitOf(hbase[n]), hlog[n], 1, <<>>)
InLog(sg, o) == \E k \in 1..Len(sg) : Norm(sg[k]) = Norm(o)

RestartStep(e) ==
  LET rec == Recovered(e.n)
      sp  == Proj(rec.s)
      dif == {<<f, sp[f], e.post[f]>> : f \in {g \in DOMAIN sp : sp[g] # e.post[g]}}
      resigned == SignedOf(rec.out)
      so == NormSeq(rec.out)
      ro == NormSeq(e.out)
      \* NAMED DEVIATION (reported by the check as node:restart:reproposed-different-block, a known finding of C05):
      \* the replay passes through decideProposal again BEFORE it reaches the logged own proposal, and creates and
      \* signs a NEW block from what the pools hold now (evidence, transactions); the default PrivValidator keeps no
      \* last-sign state, so a second, different proposal for the same height and round gets signed.  It only ever
      \* sits in the internal queue (the logged proposal is restored and wins), so it is tolerated here - the same
      \* position, height, round, POL round and signer, another block id, for "proposal" and its "part" only.
      Reproposed(k) == /\ so[k].o \in {"proposal", "part"} /\ ro[k].o = so[k].o
                       /\ so[k].h = ro[k].h /\ so[k].r = ro[k].r /\ so[k].bid # ro[k].bid
                       /\ (so[k].o = "proposal" => so[k].i = ro[k].i /\ so[k].pol = ro[k].pol)
      outsModulo == Len(so) = Len(ro) /\ \A k \in 1..Len(so) : so[k] = ro[k] \/ Reproposed(k)
      deviates == so # ro /\ outsModulo
      match == /\ sp = e.post                                       \* it is where its twin is
               /\ (so = ro \/ outsModulo)                           \* it re-signed exactly its old messages (see above)
               /\ \A k \in 1..Len(resigned) : InLog(signed[e.n], resigned[k])  \* what the replay signs is in its log
  IN /\ (deviates => PrintT(<<"DEVIATION", "reproposed-different-block", "line", l, "node", e.n>>))
     /\ IF match THEN TRUE ELSE (PrintT(<<"MISMATCH", "line", l, "node", e.n, "event", "restart",
                               "state fields <<name, specified, real>>", dif,
                               "spec_out", NormSeq(rec.out), "real_out", NormSeq(e.out)>>) /\ FALSE)
     /\ st' = [st EXCEPT ![e.n] = rec.s]
     /\ hbase' = [hbase EXCEPT ![e.n] = SeenCommitOf(@)]
     /\ UNCHANGED <<signed, seen, committed, hlog>>

Step ==
  /\ l <= Len(Trace)
  /\ Trace[l].k # "restart"
  /\ LET e   == Trace[l]
         s   == st[e.n]
         env == [newBid |-> e.newBid]
         res == IF e.k = "timeout" THEN K!HandleTimeout(s, e.ti, env) ELSE K!HandleMsg(s, e.m, env)
         match == /\ Proj(res.s) = e.post                          \* the real node's state is the specified one
                  /\ NormSeq(MsgOuts(res.out)) = NormSeq(e.out)    \* it published exactly the specified messages
                  /\ NormSeq(TimeOuts(res.out)) = NormSeq(e.touts) \* and scheduled the specified timeouts
         sp == Proj(res.s)
         dif == {<<f, sp[f], e.post[f]>> : f \in {g \in DOMAIN sp : sp[g] # e.post[g]}}
     IN /\ IF match THEN TRUE ELSE (PrintT(<<"MISMATCH", "line", l, "node", e.n, "event", [x \in DOMAIN e \ {"post"} |-> e[x]],
                               "state fields <<name, specified, real>>", dif,
                               "spec_out", NormSeq(MsgOuts(res.out)), "real_out", NormSeq(e.out),
                               "spec_touts", NormSeq(TimeOuts(res.out)), "real_touts", NormSeq(e.touts)>>) /\ FALSE)
        /\ st' = [st EXCEPT ![e.n] = res.s]
        /\ signed' = [signed EXCEPT ![e.n] = @ \o SignedOf(res.out)]
        /\ seen' = [seen EXCEPT ![e.n] = @ \cup SeenOf(e)]
        /\ committed' = [committed EXCEPT ![e.n] = @ \o AppSeq(Applies(res.out))]
        /\ IF res.s.h # s.h
           THEN hbase' = [hbase EXCEPT ![e.n] = res.s] /\ hlog' = [hlog EXCEPT ![e.n] = <<>>]
           ELSE hbase' = hbase /\ hlog' = [hlog EXCEPT ![e.n] = Append(@, [k |-> e.k, newBid |-> e.newBid,
                                                  m |-> IF e.k = "msg" THEN e.m ELSE [k |-> "none"],
                                                  ti |-> IF e.k = "timeout" THEN e.ti ELSE [h |-> 0, r |-> 0, step |-> 0]])]
  /\ l' = l + 1
Restart == /\ l <= Len(Trace) /\ Trace[l].k = "restart" /\ RestartStep(Trace[l]) /\ l' = l + 1
Next == Step \/ Restart
Spec == Init /\ [][Next]_vars

\* ---- C01 ----
Agreement == \A a, b \in Nodes : \A i \in 1..Len(committed[a]), j \in 1..Len(committed[b]) :
                committed[a][i][1] = committed[b][j][1] => committed[a][i][2] = committed[b][j][2]
\* ---- C03 (the node's own signature log against what it had received) ----
AllBidsSeen == {v.bid : v \in UNION {seen[n] : n \in Nodes}} \cup {K!NilB}
C03 == \A n \in Nodes :
          /\ K!OneVotePerTypeHR(signed[n])
          /\ K!PrecommitNeedsPolka(signed[n], seen[n])
          /\ K!LockRespected(signed[n], seen[n], AllBidsSeen)
          /\ K!OnlyValidVoted(signed[n])

\* both properties are monotone in the trace (logs only grow): evaluating them on the final state decides
\* them for every prefix, and keeps validation linear
AtEnd == l > Len(Trace)
AgreementAtEnd == AtEnd => Agreement
C03AtEnd == AtEnd => C03

\* acceptance: every line consumed (one state per line; the initial state stands for the header)
Accepted == IF TLCGet("stats").diameter = Len(Trace) THEN TRUE
            ELSE PrintT(<<"REJECTED: matched", TLCGet("stats").diameter - 1, "of", Len(Trace) - 1, "events">>) /\ FALSE
\* diagnostic for a rejected trace: what the specification computes at the first unmatched line
DiagLine(k) ==
  LET e   == Trace[k]
      s   == st[e.n]
      res == IF e.k = "timeout" THEN K!HandleTimeout(s, e.ti, [newBid |-> e.newBid]) ELSE K!HandleMsg(s, e.m, [newBid |-> e.newBid])
  IN <<"line", k, "node", e.n, "spec post", Proj(res.s), "real post", e.post, "spec out", res.out, "real out", e.out, e.touts>>
==================================================================================
