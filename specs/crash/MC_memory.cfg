SPECIFICATION Spec
CONSTANTS
  MaxH = 3
  FlushEvery = FALSE
INVARIANT StoresAgreeOnPrefix
ACTION_CONSTRAINT DumpCrash
