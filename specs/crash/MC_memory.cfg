SPECIFICATION Spec
CONSTANTS
  MaxH = 3
  FlushEvery = FALSE
INVARIANT StoresAgreeOnPrefix
INVARIANT WalIntactWhenWriting
ACTION_CONSTRAINT DumpCrash
