SPECIFICATION Spec
CONSTANTS
  MaxH = 3
  FlushEvery = TRUE
INVARIANT NoConflictingSignature
