------------------------------ MODULE CrashRecovery ------------------------------
(***************************************************************************)
(* Crash recovery of one validator (property C05).                           *)
(*                                                                         *)
(* The DURABLE state is modelled as the code writes it — one action per      *)
(* durable operation, in program order, as MEASURED on the real code with a  *)
(* counting database and a counting WAL (harness/node/crash_test.go,         *)
(* TestCrashOps).  Per height h the validator issues:                        *)
(*   wal(prevote h)      WriteSync of its own signed prevote  (receiveRoutine) *)
(*   wal(precommit h)    WriteSync of its own signed precommit               *)
(*   SaveBlock           block, parts, seen commit            (finalizeCommit) *)
(*   wal(EndHeight h)    WriteSync                                            *)
(*   writeBlockWithState app hash, block info                 (ApplyBlock)    *)
(*   trieFlush           state trie nodes — ONLY when the cache mode flushes   *)
(*                       every block (TrieDirtyDisabled)                       *)
(*   writeHead           head block pointer                                    *)
(*   saveState           consensus-state record of height h                    *)
(* (peer messages and timeouts are WAL writes too, without fsync: they are     *)
(* the `tail` that may or may not survive; they do not carry obligations).     *)
(*                                                                         *)
(* Crash(k): the process dies before operation k; the database keeps exactly   *)
(* the writes done so far, the WAL keeps every synced record and any prefix    *)
(* of the unsynced tail.                                                       *)
(*                                                                         *)
(* Recover transcribes what the code does on the surviving files               *)
(* (mainchain/backend.go, blockchain.NewBlockChain, cstate.Store.Load,         *)
(* consensus OnStart/catchupReplay) — there is NO handshake that re-applies a   *)
(* saved block and the default PrivValidator keeps NO last-sign state:          *)
(*   head'   = head if its state root is on disk, else rewound to the newest    *)
(*             flushed root (setHeadBeyondRoot), bodies above it dropped;       *)
(*   state   = the consensus-state record of head' if present, else GENESIS;    *)
(*   resume  = state + 1;                                                       *)
(*   replay  = WAL has EndHeight(resume-1) and NOT EndHeight(resume): the votes  *)
(*             of `resume` found in the WAL are re-signed identically;           *)
(*             otherwise nothing is replayed and the validator may sign         *)
(*             anything at heights it has already voted on.                      *)
(***************************************************************************)
EXTENDS Integers, Sequences, FiniteSets, TLC, Json

CONSTANTS MaxH,         \* heights 1..MaxH
          FlushEvery    \* TRUE: state flushed every block; FALSE: recent state kept in memory

Steps == IF FlushEvery
         THEN <<"walPrevote", "walPrecommit", "SaveBlock", "walEndHeight", "writeBlockWithState", "trieFlush", "writeHead", "saveState">>
         ELSE <<"walPrevote", "walPrecommit", "SaveBlock", "walEndHeight", "writeBlockWithState", "writeHead", "saveState">>

VARIABLES pc, h,                 \* next operation: Steps[pc] of height h (volatile)
          wal,                   \* sequence of synced records [k, h, v]
          blocks,                \* heights in the block store (SaveBlock)
          apphash,               \* heights with app hash / block info
          flushed,               \* heights whose state root is on disk (0 = genesis)
          head,                  \* head block pointer
          cstate,                \* heights with a consensus-state record (0 = genesis record)
          restored,              \* votes of the current height the running process knows (volatile)
          published,             \* history: <<height, type, value>> made public before a crash
          committed,             \* history: heights this validator decided (SaveBlock done)
          lastSign,              \* history: the last signature request <<h, type, v>> after a restart
          crashes, rec,          \* history: number of crashes; the last recovery outcome
          torn                   \* durable: the WAL ends in a record that reached the disk only in part
vars == <<pc, h, wal, blocks, apphash, flushed, head, cstate, restored, published, committed, lastSign, crashes, rec, torn>>

Types == {"prevote", "precommit"}
NoRec == [head |-> -1, state |-> -1, resume |-> -1, replay |-> FALSE]

Init == /\ pc = 1 /\ h = 1
        /\ wal = <<[k |-> "end", h |-> 0, v |-> "-"]>>
        /\ blocks = {} /\ apphash = {0} /\ flushed = {0} /\ head = 0 /\ cstate = {0}
        /\ restored = {} /\ published = {} /\ committed = {} /\ lastSign = <<>> /\ crashes = 0 /\ rec = NoRec
        /\ torn = FALSE

Val(t) == IF \E x \in restored : x[1] = t THEN (CHOOSE x \in restored : x[1] = t)[2] ELSE "free"
\* a vote of type t is signed and its record synced: the value the process remembers (from this life or
\* from WAL replay) if any, otherwise ANY value — the block B of this height or nil
SignAndSync(t) ==
  \E v \in {"B", "nil"} :
     /\ (Val(t) = "free" \/ Val(t) = v)
     /\ restored' = {x \in restored : x[1] # t} \cup {<<t, v>>}
     /\ wal' = Append(wal, [k |-> t, h |-> h, v |-> v])
     /\ published' = published \cup {<<h, t, v>>}
     /\ lastSign' = IF crashes > 0 THEN <<h, t, v>> ELSE lastSign

Step ==
  /\ h <= MaxH
  /\ LET s == Steps[pc] IN
     CASE s = "walPrevote"   -> SignAndSync("prevote") /\ UNCHANGED <<blocks, apphash, flushed, head, cstate, committed>>
       [] s = "walPrecommit" -> SignAndSync("precommit") /\ UNCHANGED <<blocks, apphash, flushed, head, cstate, committed>>
       [] s = "SaveBlock"    -> /\ blocks' = blocks \cup {h} /\ committed' = committed \cup {h}
                                /\ UNCHANGED <<wal, apphash, flushed, head, cstate, restored, published, lastSign>>
       [] s = "walEndHeight" -> /\ wal' = Append(wal, [k |-> "end", h |-> h, v |-> "-"])
                                /\ UNCHANGED <<blocks, apphash, flushed, head, cstate, restored, published, committed, lastSign>>
       [] s = "writeBlockWithState" -> /\ apphash' = apphash \cup {h}
                                /\ UNCHANGED <<wal, blocks, flushed, head, cstate, restored, published, committed, lastSign>>
       [] s = "trieFlush"    -> /\ flushed' = flushed \cup {h}
                                /\ UNCHANGED <<wal, blocks, apphash, head, cstate, restored, published, committed, lastSign>>
       [] s = "writeHead"    -> /\ head' = h
                                /\ UNCHANGED <<wal, blocks, apphash, flushed, cstate, restored, published, committed, lastSign>>
       [] s = "saveState"    -> /\ cstate' = cstate \cup {h}
                                /\ restored' = {}            \* updateToState: next height
                                /\ UNCHANGED <<wal, blocks, apphash, flushed, head, published, committed, lastSign>>
  /\ IF pc = Len(Steps) THEN pc' = 1 /\ h' = h + 1 ELSE pc' = pc + 1 /\ h' = h
  /\ ~torn           \* nothing is ever appended behind a torn record (see Recover)
  /\ UNCHANGED <<crashes, rec, torn>>

MaxOf(S) == CHOOSE x \in S : \A y \in S : y <= x
HasEnd(w, k) == \E i \in 1..Len(w) : w[i].k = "end" /\ w[i].h = k

\* what the restart computes from the surviving files
Recovery ==
  LET head1  == IF head \in flushed THEN head ELSE MaxOf({x \in flushed : x <= head})
      st     == IF head1 \in cstate THEN head1 ELSE 0
      resume == st + 1
      replay == ~HasEnd(wal, resume) /\ HasEnd(wal, resume - 1)
  IN [head |-> head1, state |-> st, resume |-> resume, replay |-> replay]

CrashRecover ==
  /\ h <= MaxH /\ crashes < 1
  /\ LET r == Recovery
         votes == {<<wal[i].k, wal[i].v>> : i \in {j \in 1..Len(wal) : wal[j].k \in Types /\ wal[j].h = r.resume}}
     IN /\ head' = r.head
        /\ blocks' = {x \in blocks : x <= r.head} \cup {x \in blocks : x > r.head /\ FlushEvery}   \* a rewind deletes the bodies above the new head
        /\ h' = r.resume /\ pc' = 1
        /\ restored' = IF r.replay THEN votes ELSE {}
        /\ rec' = r
        /\ crashes' = crashes + 1
        \* the unsynced record being written when the process died may be torn; OnStart detects the
        \* DataCorruptionError during catchupReplay, repairs the file (longest valid prefix: the torn record held
        \* no synced data) and only then opens the WAL for appending — torn is FALSE again when Step resumes
        /\ torn' = FALSE
  /\ UNCHANGED <<wal, apphash, flushed, cstate, published, committed, lastSign>>

Next == Step \/ CrashRecover
Spec == Init /\ [][Next]_vars

\* votes published at heights the restarted validator will go through again WITHOUT remembering them:
\* there it may sign anything (no last-sign state) — the crash points where this set is non-empty are exactly
\* the ones at which NoConflictingSignature can be violated
Exposed(r) == {x \in published : x[1] >= r.resume /\ ~(r.replay /\ x[1] = r.resume)}
\* one line per crash point, for the comparison with the real restarts (harness/node TestCrashSweep)
DumpCrash == crashes' = crashes \/
             PrintT(ToJson([mode |-> IF FlushEvery THEN "flush" ELSE "memory", h |-> h, step |-> Steps[pc],
                            head |-> rec'.head, state |-> rec'.state, resume |-> rec'.resume, replay |-> rec'.replay,
                            exposed |-> Cardinality(Exposed(rec'))]))

\* the WAL is a sequence of intact records whenever the validator appends to it (checked on the real files by
\* decoding the whole log the recovered validator leaves behind; tail variant "torn" of the crash sweep)
WalIntactWhenWriting == ~torn

(******************************* property C05 *******************************)
\* never signs a vote that conflicts with one it had published before the crash
NoConflictingSignature ==
  lastSign = <<>> \/ ~(\E x \in published : x[1] = lastSign[1] /\ x[2] = lastSign[2] /\ x[3] # lastSign[3]
                                            /\ TRUE)
\* the stores agree on a prefix of what was committed: never ahead of it
StoresAgreeOnPrefix == /\ head \in committed \cup {0}
                       /\ \A x \in cstate : x \in committed \cup {0}
\* when state is flushed every block no committed block is lost by a restart
NoCommittedBlockLost == (FlushEvery /\ crashes > 0) => \A x \in committed : x \in blocks
\* ... and the validator resumes at the first height it has not fully applied
ResumesAtFrontier == (FlushEvery /\ crashes > 0) => rec.resume >= MaxOf(committed \cup {0})
==================================================================================
