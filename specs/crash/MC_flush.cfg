SPECIFICATION Spec
CONSTANTS
  MaxH = 3
  FlushEvery = TRUE
INVARIANT StoresAgreeOnPrefix
INVARIANT NoCommittedBlockLost
ACTION_CONSTRAINT DumpCrash
