SPECIFICATION Spec
CONSTANTS
  MaxH = 3
  FlushEvery = TRUE
INVARIANT StoresAgreeOnPrefix
INVARIANT NoCommittedBlockLost
INVARIANT WalIntactWhenWriting
ACTION_CONSTRAINT DumpCrash
