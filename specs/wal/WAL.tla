--------------------------------- MODULE WAL ---------------------------------
(***************************************************************************)
(* The consensus write-ahead log of go-kardia at RECORD granularity.        *)
(* Property C15: reading returns exactly what was written, in order,        *)
(* across file rotation; SearchForEndHeight finds a marker iff it was       *)
(* written and positions the reader behind it; every truncation, bit flip,  *)
(* length change and garbage suffix is reported as end-of-log or as a       *)
(* DataCorruptionError; repair keeps the longest valid prefix.              *)
(*                                                                         *)
(* Code transcribed (one operator per public call / critical section):      *)
(*   consensus/wal.go      BaseWAL.OnStart/OnStop/Write/WriteSync/          *)
(*                         FlushAndSync/SearchForEndHeight,                 *)
(*                         WALEncoder.Encode, WALDecoder.Decode             *)
(*   lib/autofile/group.go OpenGroup (file numbering), Group.Write (bufio), *)
(*                         FlushAndSync, checkHeadSizeLimit, RotateFile,    *)
(*                         checkTotalSizeLimit, GroupReader.Read            *)
(*   consensus/state.go    repairWalFile                                    *)
(*                                                                         *)
(* On disk a record is  crc32c(4) | length(4) | payload(length)  and a log  *)
(* is the group of files  wal.000, wal.001, ..., wal (the head).  The       *)
(* specification does not model bytes.  A record on disk is a SLOT          *)
(*      [id, k, h, sz, d]                                                   *)
(* id = position in the write order, k = kind ("eh" = EndHeightMessage,     *)
(* anything else = an ordinary message), h = height of a marker (0          *)
(* otherwise), sz = payload size, d = DAMAGE CLASS.  The damage classes     *)
(* partition everything that can happen to the bytes of one record; the     *)
(* Go driver maps every byte offset / bit of a real record to its class     *)
(* and checks that the real decoder does what the class says:               *)
(*                                                                         *)
(*   "ok"      untouched                                                    *)
(*   "crc"     the 4 checksum bytes differ             (framing intact)     *)
(*   "body"    payload bytes differ, length field right (framing intact)    *)
(*   "lenS"    length field smaller than the payload   (framing lost)       *)
(*   "lenL"    length field larger, <= MaxMsg          (framing lost)       *)
(*   "lenH"    length field > MaxMsg                   (framing lost,       *)
(*             must be refused BEFORE the buffer is allocated)              *)
(*   "cut1_3"  file ends 1..3 bytes into the checksum                       *)
(*   "cut4"    file ends right after the checksum                           *)
(*   "cut5_7"  file ends inside the length field                            *)
(*   "cut8"    file ends right after the header (no payload byte)           *)
(*   "cutBody" file ends inside the payload, a non-zero byte is missing     *)
(*   "cutZero" file ends inside the payload, only 0x00 bytes are missing    *)
(*   "cutBodyS", "cutZeroS"  the same, and the bytes that FOLLOW in the     *)
(*             stream (the beginning of the next file, or whatever was      *)
(*             appended later) happen to equal the missing ones: a reader   *)
(*             that continues behind the cut splices the record together    *)
(*             again (one missing byte: probability 1/256)                  *)
(*   junk slots (k = "junk"): bytes that are not a record, appended to a    *)
(*   file:  "j3" 1..3 bytes, "j7" 4..7 bytes, "j8" 8 or more bytes          *)
(*                                                                         *)
(* What Decode does with a damaged record depends on the reader it is       *)
(* given, because it calls rd.Read (not io.ReadFull) and ignores the byte   *)
(* count:                                                                   *)
(*   "group"  autofile.GroupReader (SearchForEndHeight, catchupReplay):     *)
(*            Read fills the buffer completely, continuing in the NEXT      *)
(*            FILE of the group, and returns (n, io.EOF) only at the end    *)
(*            of the head.  A log is therefore one continuous stream.       *)
(*   "file"   *os.File (repairWalFile): Read returns what is there with a   *)
(*            nil error; the rest of Decode's buffer stays zero.            *)
(* Consequences transcribed below (TailEnd): a file that ends 1..3 bytes    *)
(* into a checksum is a clean io.EOF for the group reader and a             *)
(* DataCorruptionError for the file reader; a payload that lost only zero   *)
(* bytes still decodes, unchanged, through the file reader.                 *)
(*                                                                         *)
(* Assumptions (probabilistic facts the record-level model takes as         *)
(* certain; the driver's inputs are seeded, so a run is reproducible):      *)
(*   A1  CRC-32C detects every change of a payload or of its framing that   *)
(*       the driver produces (certain for single-bit flips and bursts of    *)
(*       <= 32 bits; probability 1 - 2^-32 otherwise).                      *)
(*   A2  no payload contains, at the offset where a reader that lost the    *)
(*       framing happens to look, a byte string that is itself a valid      *)
(*       record.                                                            *)
(***************************************************************************)
EXTENDS Integers, Sequences, FiniteSets, TLC

CONSTANTS MaxMsg,   \* maxMsgSizeBytes: largest payload Encode writes / Decode allocates
          HdrSz,    \* bytes of crc + length in front of every payload (8; 0 in unit-size models)
          WritesPerRecord  \* number of Group.Write calls by which WALEncoder.Encode hands ONE record to
                           \* the group: 1 as implemented (one buffer crc|length|payload, one Write);
                           \* 2 = the header and the payload separately (companion model, see WriteTick)
ASSUME WritesPerRecord \in {1, 2}

FrameKeeping == {"crc", "body"}                       \* next record still found at its place
FrameLosing  == {"lenS", "lenL", "lenH"}              \* reader is somewhere inside the bytes
SpliceClasses == {"cutBodyS", "cutZeroS"}
ZeroClasses  == {"cutZero", "cutZeroS"}
CutClasses   == {"cut1_3", "cut4", "cut5_7", "cut8", "cutBody", "cutZero"} \cup SpliceClasses
JunkClasses  == {"j3", "j7", "j8"}
FlipClasses  == FrameKeeping \cup FrameLosing

(* pc: which bytes of the record this entry stands for -- "all", or (WritesPerRecord = 2   *)
(* only, when a rotation came between the two group writes of the record) "hdr" = the 8    *)
(* bytes crc|length at the END of a file, "pay" = the payload at the START of the next.    *)
Slot(id, k, h, sz, d) == [id |-> id, k |-> k, h |-> h, sz |-> sz, d |-> d, pc |-> "all"]
Junk(c)               == Slot(0, "junk", 0, 0, c)

(***************************************************************************)
(* State of one WAL directory + the process that has it open.               *)
(*   files  on-disk content, oldest first; files[Len(files)] is the head    *)
(*          (always present: every access opens it with O_CREATE)           *)
(*   buf    records sitting in Group.headBuf (bufio.Writer), not on disk    *)
(*   next   id of the next record                                           *)
(*   limit  Group.headSizeLimit (0 = never rotate)                          *)
(*   tlimit Group.totalSizeLimit (0 = never remove files)                   *)
(*   gone   number of oldest files removed by checkTotalSizeLimit: files[1]  *)
(*          .. files[gone] are kept as empty entries so that positions stay  *)
(*          file indices (a reader that is asked for a removed index opens   *)
(*          it with O_CREATE and finds an empty file)                        *)
(*   up     BaseWAL started                                                 *)
(* Deviation: the bufio.Writer holds 40 960 bytes and spills to disk when   *)
(* full; here the buffer is unbounded (the drivers stay below that size).   *)
(* What a spill followed by a crash leaves is a "cut*" tail, see Truncate.  *)
(***************************************************************************)
New(limit) == [files |-> << <<>> >>, buf |-> <<>>, next |-> 1, limit |-> limit, tlimit |-> 0, gone |-> 0, up |-> FALSE]

NFiles(w)   == Len(w.files)
HeadF(w)    == w.files[NFiles(w)]
PieceSz(x)  == IF x.pc = "all" THEN HdrSz + x.sz ELSE IF x.pc = "hdr" THEN HdrSz ELSE x.sz
RECURSIVE SumSz(_)
SumSz(f)    == IF f = <<>> THEN 0 ELSE PieceSz(Head(f)) + SumSz(Tail(f))
HeadDisk(w) == SumSz(HeadF(w))          \* AutoFile.Size(): what stat() says, buffered data excluded

St(w, r)    == [st |-> w, res |-> r]

(* bytes are bytes: the header of a record directly followed by its payload IS the record *)
Fits2(a, b) == a.id = b.id /\ a.pc = "hdr" /\ b.pc = "pay"
JoinP(a, b) ==
  IF a # <<>> /\ b # <<>> /\ Fits2(a[Len(a)], b[1])
  THEN SubSeq(a, 1, Len(a) - 1) \o <<[b[1] EXCEPT !.pc = "all"]>> \o Tail(b)
  ELSE a \o b

(* Group.FlushAndSync: headBuf.Flush(); Head.Sync() *)
Flush(w) == [w EXCEPT !.files[NFiles(w)] = JoinP(@, w.buf), !.buf = <<>>]

(* ONE Group.Write (g.mtx held for this call only): group write n of the record goes to *)
(* the bufio buffer.                                                                   *)
Piece(n)    == IF WritesPerRecord = 1 THEN "all" ELSE IF n = 1 THEN "hdr" ELSE "pay"
GroupWrite(w, x, n) == [w EXCEPT !.buf = JoinP(@, <<[x EXCEPT !.pc = Piece(n)]>>)]
RECURSIVE GroupWrites(_, _, _, _)
GroupWrites(w, x, from, to) == IF from > to THEN w ELSE GroupWrites(GroupWrite(w, x, from), x, from + 1, to)

(* WALEncoder.Encode through BaseWAL.Write: a payload above MaxMsg is refused and      *)
(* nothing is written; otherwise the record goes to the buffer, by WritesPerRecord     *)
(* group writes.  No fsync.  (Nothing comes between the group writes here; what the    *)
(* group's ticker does when it comes between them is WriteTick below.)                 *)
Write(w, k, h, sz) ==
  IF sz > MaxMsg THEN St(w, "toobig")
  ELSE St(GroupWrites([w EXCEPT !.next = @ + 1], Slot(w.next, k, h, sz, "ok"), 1, WritesPerRecord), "ok")

(* BaseWAL.WriteSync = Write; FlushAndSync (not reached when Write fails) *)
WriteSync(w, k, h, sz) ==
  LET r == Write(w, k, h, sz) IN IF r.res = "ok" THEN St(Flush(r.st), "ok") ELSE r

(* Group.RotateFile: flush the buffer INTO THE OLD HEAD, close it, rename it to        *)
(* wal.<maxIndex>, maxIndex++.  The new head comes into existence on the next access.  *)
Rotate(w) == [Flush(w) EXCEPT !.files = Append(@, <<>>)]

(* Group.checkHeadSizeLimit (run by the group's ticker): compares the size of the head *)
(* FILE (buffered records do not count) with the limit.                                *)
Tick(w) ==
  IF w.limit # 0 /\ HeadDisk(w) >= w.limit THEN St(Rotate(w), "rot") ELSE St(w, "no")

(***************************************************************************)
(* The group's ticker is a goroutine of its own: checkHeadSizeLimit takes   *)
(* g.mtx in RotateFile, Group.Write takes it per call, nothing else orders  *)
(* them.  So the check can also run INSIDE one BaseWAL.Write, after any of  *)
(* its group writes (and, for WriteSync, in front of the FlushAndSync).     *)
(* WriteTick = group writes 1..g, checkHeadSizeLimit, group writes g+1...   *)
(* With WritesPerRecord = 1 the record is in the buffer when the check      *)
(* runs, RotateFile flushes it into the old head, and this is Write; Tick.  *)
(* With WritesPerRecord = 2 and g = 1 the old head gets the header, the     *)
(* payload goes to the next file: that file starts in the middle of a       *)
(* frame.  The GroupReader that reads on from the old file splices the      *)
(* record together again, a reader opened at the new file (every file index *)
(* SearchForEndHeight tries; repairWalFile on the head) meets payload bytes *)
(* where a checksum should be.  FilesStartAtFrame (below) is the invariant  *)
(* the per-file readers rely on; it holds for WritesPerRecord = 1 and TLC   *)
(* refutes it for 2 (companion run of checks/C15.py).  The driver binds the *)
(* assumption: it runs checkHeadSizeLimit from a hook at the end of         *)
(* Group.Write, at every group-write position of a real message.            *)
(***************************************************************************)
WriteTick(w, k, h, sz, g, sync) ==
  LET x  == Slot(w.next, k, h, sz, "ok")
      w1 == GroupWrites([w EXCEPT !.next = @ + 1], x, 1, g)
      t  == Tick(w1)
      w2 == GroupWrites(t.st, x, g + 1, WritesPerRecord) IN
  [st |-> IF sync THEN Flush(w2) ELSE w2, mid |-> w1, tick |-> t.res]

(* Group.checkTotalSizeLimit (run by the same ticker): while the files of the group    *)
(* (buffered records do not count) hold totalSizeLimit bytes or more, remove the       *)
(* oldest one -- at most 4 per call (maxFilesToRemove), never the head.  Returns the   *)
(* number of files removed and why it stopped.                                         *)
RECURSIVE SumFiles(_, _)
SumFiles(w, i) == IF i > NFiles(w) THEN 0 ELSE SumSz(w.files[i]) + SumFiles(w, i + 1)
TotalDisk(w) == SumFiles(w, 1)
RECURSIVE PruneN(_, _)
PruneN(w, k) ==
  IF TotalDisk(w) < w.tlimit THEN [st |-> w, n |-> 0, why |-> "size"]
  ELSE IF k = 0 THEN [st |-> w, n |-> 0, why |-> "four"]
  ELSE IF w.gone + 1 = NFiles(w) THEN [st |-> w, n |-> 0, why |-> "head"]
  ELSE LET r == PruneN([w EXCEPT !.files[w.gone + 1] = <<>>, !.gone = @ + 1], k - 1) IN [r EXCEPT !.n = @ + 1]
Prune(w) == IF w.tlimit = 0 THEN [st |-> w, n |-> 0, why |-> "off"] ELSE PruneN(w, 4)

(* autofile.OpenGroup numbers the files by what it finds in the directory: if          *)
(* every numbered file has been removed the head is index 0 again.                     *)
Reindex(w) == IF w.gone > 0 /\ w.gone + 1 = NFiles(w) THEN [w EXCEPT !.files = <<HeadF(w)>>, !.gone = 0] ELSE w

(* NewWAL + BaseWAL.OnStart: a NEW log (empty head, no rotated file left) gets the marker of height 0, synced. *)
(* (Before the repair of F-wal-start-marker-after-rotation every empty head got one: a log that stopped right    *)
(* after a rotation then carried a second #ENDHEIGHT 0 behind its records, which hid the records of the initial  *)
(* height from the replay - found by the rotating crash sweep of C05.)                                            *)
Start(w, ehsz) ==
  LET w1 == [Reindex(w) EXCEPT !.up = TRUE] IN
  IF HeadF(w) = <<>> /\ NFiles(w1) = 1 THEN WriteSync(w1, "eh", 0, ehsz).st ELSE w1

(* BaseWAL.OnStop: FlushAndSync, close *)
Stop(w)  == [Flush(w) EXCEPT !.up = FALSE]
(* the process dies: whatever is in the bufio buffer is gone *)
Crash(w) == [w EXCEPT !.buf = <<>>, !.up = FALSE]

(***************************************************************************)
(* Damage to the bytes on disk (environment actions).                       *)
(***************************************************************************)
(* change bits of record j of file f: class c \in FlipClasses *)
Corrupt(w, f, j, c) == [w EXCEPT !.files[f][j].d = c]
(* file f ends inside record j (class c \in CutClasses), or exactly in front of it     *)
(* (c = "clean": indistinguishable from a shorter log)                                 *)
Truncate(w, f, j, c) ==
  LET keep == SubSeq(w.files[f], 1, j - 1) IN
  [w EXCEPT !.files[f] = IF c = "clean" THEN keep ELSE Append(keep, [w.files[f][j] EXCEPT !.d = c])]
(* bytes that are not a record are appended to file f *)
Garbage(w, f, c) == [w EXCEPT !.files[f] = Append(@, Junk(c))]

(***************************************************************************)
(* WALDecoder.Decode, iterated.                                             *)
(***************************************************************************)
RECURSIVE Cat(_, _)
Cat(files, i) == IF i > Len(files) THEN <<>> ELSE JoinP(files[i], Cat(files, i + 1))
(* What a reader makes of a piece of a record that is not completed by the bytes       *)
(* around it: a header alone is a record cut behind its header ("cut8"); a payload     *)
(* alone is "mid": bytes that begin in the middle of a frame (like junk of 8 bytes or  *)
(* more: a corruption error, and the framing is lost).                                 *)
Seen(s) == [p \in 1..Len(s) |-> IF s[p].pc = "all" THEN s[p]
                                ELSE [s[p] EXCEPT !.d = IF s[p].pc = "hdr" THEN "cut8" ELSE "mid"]]
(* what a GroupReader opened at file index i delivers: files i, i+1, ..., head         *)
Stream(w, i) == Seen(Cat(w.files, i))
(* one file on its own (os.File) *)
File(w, f)   == Seen(w.files[f])
(* every file of the group begins at a record boundary *)
FilesStartAtFrame(w) == \A f \in 1..NFiles(w) : w.files[f] = <<>> \/ w.files[f][1].pc # "pay"

(* The damaged slot is the LAST thing in the stream: what the Decode call that meets   *)
(* it returns.  "ok" = the written message, unchanged.  (Decode, step by step:         *)
(*  rd.Read(4 crc bytes): io.EOF -> io.EOF, other error -> corruption;                 *)
(*  rd.Read(4 length bytes): any error -> corruption;  length > MaxMsg -> corruption;  *)
(*  rd.Read(payload): any error -> corruption;  checksum;  unmarshal.)                 *)
TailEnd(d, mode) ==
  CASE d \in {"cut1_3", "j3"} -> IF mode = "group" THEN "eof" ELSE "dce"
    [] d \in ZeroClasses      -> IF mode = "file" THEN "ok" ELSE "dce"
    [] OTHER                  -> "dce"

(* Decode until the first error, starting in front of slot p of stream s: the ids of   *)
(* the messages returned and how the reading ends (io.EOF / DataCorruptionError).      *)
(* A damaged slot that is followed by more bytes (of the same or of the next file) is  *)
(* a corruption error in both modes: a cut is spliced with the bytes that follow and   *)
(* fails the checksum (A1) -- unless those bytes equal the missing ones (splice        *)
(* classes): then the written message is returned and the NEXT record, whose first     *)
(* bytes were consumed, is the corruption error.                                       *)
Eaten(s, p) == p > 1 /\ p <= Len(s) /\ s[p - 1].d \in SpliceClasses
RECURSIVE ReadFrom(_, _, _)
ReadFrom(s, p, mode) ==
  IF p > Len(s) THEN [ids |-> <<>>, end |-> "eof"]
  ELSE IF Eaten(s, p) THEN [ids |-> <<>>, end |-> "dce"]
  ELSE IF s[p].d = "ok"
       THEN LET r == ReadFrom(s, p + 1, mode) IN [ids |-> <<s[p].id>> \o r.ids, end |-> r.end]
  ELSE IF p = Len(s)
       THEN LET e == TailEnd(s[p].d, mode) IN
            IF e = "ok" THEN [ids |-> <<s[p].id>>, end |-> "eof"] ELSE [ids |-> <<>>, end |-> e]
  ELSE IF s[p].d \in SpliceClasses THEN [ids |-> <<s[p].id>>, end |-> "dce"]
  ELSE [ids |-> <<>>, end |-> "dce"]

(* The damage classes describe the bytes of ONE record (or one piece of junk) whose     *)
(* neighbours in the stream are intact.  Two damaged neighbours merge into byte        *)
(* patterns the classes do not name (zero junk behind a record that lost zero bytes    *)
(* completes it; two fragments of 1..3 bytes make a fragment of 2..6), so the          *)
(* specification is only claimed for isolated damage.                                  *)
Isolated(w) == LET s == Stream(w, 1) IN \A p \in 1..(Len(s) - 1) : s[p].d = "ok" \/ s[p + 1].d = "ok"

(* every record of the group through a GroupReader (what catchupReplay's loop does     *)
(* with the reader it got from SearchForEndHeight), and one file through os.File       *)
ReadAll(w)     == ReadFrom(Stream(w, 1), 1, "group")
ReadFile(w, f) == ReadFrom(File(w, f), 1, "file")

(***************************************************************************)
(* BaseWAL.SearchForEndHeight(height, &WALSearchOptions{ign}).              *)
(*                                                                         *)
(*   lastHeightFound := -1                                                  *)
(*   for index := max; index >= min; index-- {                              *)
(*     gr := group.NewReader(index)        -- reads index, index+1, .. head *)
(*     for { msg, err := dec.Decode()                                       *)
(*       io.EOF:   if 0 < lastHeightFound < height -> not found             *)
(*                 else next (older) file                                   *)
(*       corruption && ign: continue      -- with whatever bytes come next  *)
(*       other error: return it                                             *)
(*       EndHeight(h'): lastHeightFound = h'; h' = height -> FOUND, gr      *)
(*   } }  not found                                                         *)
(*                                                                         *)
(* With ign, a record whose framing is lost leaves the decoder inside the   *)
(* bytes; every further Decode reads 8 bytes or more of whatever is there.  *)
(* By A1/A2 these calls return corruption errors until the reader happens   *)
(* to stand on a record boundary again, or the stream ends (io.EOF).  WHERE *)
(* that is depends on the bytes, so the specification allows every later    *)
(* boundary: Scan returns the SET of admissible outcomes.  A cut or a too   *)
(* long length consumes at least one byte of the following record, so the   *)
(* earliest boundary is the one after the next record (Skip = 2); a short   *)
(* or refused length and junk can be consumed exactly (Skip = 1: eight      *)
(* zero bytes are a frame of length 0, which the group reader refuses       *)
(* after having consumed precisely those eight bytes).                      *)
(***************************************************************************)
Skip(d) == IF d \in {"lenS", "lenH", "mid"} \cup JunkClasses THEN 1 ELSE 2
Resume(s, p, n) == (IF p + n > Len(s) + 1 THEN Len(s) + 1 ELSE p + n)..(Len(s) + 1)
Out(t, p, l) == [t |-> t, p |-> p, l |-> l]

RECURSIVE Scan(_, _, _, _, _)
Scan(s, p, lhf, h, ign) ==
  IF p > Len(s) THEN {Out("eof", 0, lhf)}
  ELSE LET x == s[p] IN
    IF x.d = "ok" THEN
      IF x.k = "eh"
      THEN IF x.h = h THEN {Out("found", p, x.h)} ELSE Scan(s, p + 1, x.h, h, ign)
      ELSE Scan(s, p + 1, lhf, h, ign)
    ELSE IF p = Len(s) /\ TailEnd(x.d, "group") = "eof" THEN {Out("eof", 0, lhf)}
    ELSE IF p < Len(s) /\ x.d \in SpliceClasses THEN
      \* the message comes out whole; the record behind it has lost its first bytes
      IF x.k = "eh" /\ x.h = h THEN {Out("found", p, x.h)}
      ELSE IF ~ign THEN {Out("err", 0, 0)}
      ELSE UNION {Scan(s, q, IF x.k = "eh" THEN x.h ELSE lhf, h, ign) : q \in Resume(s, p, 2)}
    ELSE IF ~ign THEN {Out("err", 0, 0)}
    ELSE IF x.d \in FrameKeeping THEN Scan(s, p + 1, lhf, h, ign)
    ELSE UNION {Scan(s, q, lhf, h, ign) : q \in Resume(s, p, Skip(x.d))}

(* outcomes: [t |-> "found", i |-> file index the reader was opened at, p |-> position *)
(* of the marker in Stream(w, i)] | [t |-> "nf"] | [t |-> "err"]                        *)
Res(t, i, p) == [t |-> t, i |-> i, p |-> p]
RECURSIVE SearchIdx(_, _, _, _, _)
SearchIdx(w, i, lhf, h, ign) ==
  IF i < 1 THEN {Res("nf", 0, 0)}
  ELSE UNION { CASE o.t = "found" -> {Res("found", i, o.p)}
                 [] o.t = "err"   -> {Res("err", 0, 0)}
                 [] OTHER         -> IF o.l > 0 /\ o.l < h THEN {Res("nf", 0, 0)}
                                     ELSE SearchIdx(w, i - 1, o.l, h, ign)
               : o \in Scan(Stream(w, i), 1, lhf, h, ign) }
Search(w, h, ign) == SearchIdx(w, NFiles(w), -1, h, ign)

(***************************************************************************)
(* The same search, evaluated by dynamic programming (for the trace         *)
(* validator: logs of hundreds of records; Scan above re-evaluates every    *)
(* suffix for every resumption point).  One table over the whole stream     *)
(* serves every file index, because Stream(w, i) is a suffix of             *)
(* Stream(w, 1).  G[p] = outcomes of a decoder standing in sync in front of *)
(* slot p, D[p] = outcomes of one that lost the framing and may resume at   *)
(* any boundary >= p.  `Inherit' stands for "the lastHeightFound the reader *)
(* came with".  MC_WAL checks SearchDP = Search in every reachable state.   *)
(* Precondition: FilesStartAtFrame (otherwise Stream(w, i) is not a suffix   *)
(* of Stream(w, 1)); WALTrace checks it in every state.                      *)
(***************************************************************************)
Inherit == -2
Bind(S, l) == IF l = Inherit THEN S ELSE {IF o.t = "eof" /\ o.l = Inherit THEN Out("eof", 0, l) ELSE o : o \in S}
GAt(s, p, G, D, h, ign) ==
  LET x == s[p]
      n == Len(s)
      at(q) == IF q > n + 1 THEN n + 1 ELSE q IN
  IF x.d = "ok" THEN
    IF x.k = "eh" THEN IF x.h = h THEN {Out("found", p, x.h)} ELSE Bind(G[p + 1], x.h)
    ELSE G[p + 1]
  ELSE IF p = n /\ TailEnd(x.d, "group") = "eof" THEN {Out("eof", 0, Inherit)}
  ELSE IF p < n /\ x.d \in SpliceClasses THEN
    IF x.k = "eh" /\ x.h = h THEN {Out("found", p, x.h)}
    ELSE IF ~ign THEN {Out("err", 0, 0)}
    ELSE Bind(D[at(p + 2)], IF x.k = "eh" THEN x.h ELSE Inherit)
  ELSE IF ~ign THEN {Out("err", 0, 0)}
  ELSE IF x.d \in FrameKeeping THEN G[p + 1]
  ELSE D[at(p + Skip(x.d))]
RECURSIVE Fill(_, _, _, _, _, _)
Fill(s, p, G, D, h, ign) ==
  IF p = 0 THEN G
  ELSE LET g == GAt(s, p, G, D, h, ign) IN
       Fill(s, p - 1, [G EXCEPT ![p] = g], [D EXCEPT ![p] = g \cup D[p + 1]], h, ign)
GTable(s, h, ign) ==
  LET z == [q \in 1..(Len(s) + 1) |-> {Out("eof", 0, Inherit)}] IN Fill(s, Len(s), z, z, h, ign)
RECURSIVE StartOf(_, _)
StartOf(w, i) == IF i = 1 THEN 1 ELSE StartOf(w, i - 1) + Len(w.files[i - 1])
(* the loop over the files, for the SET of lastHeightFound values it can arrive with  *)
RECURSIVE SearchIdxDP(_, _, _, _, _)
SearchIdxDP(w, G, i, LH, h) ==
  IF LH = {} THEN {}
  ELSE IF i < 1 THEN {Res("nf", 0, 0)}
  ELSE LET a    == StartOf(w, i)
           O    == UNION {Bind(G[a], l) : l \in LH}
           eofs == {o.l : o \in {o \in O : o.t = "eof"}}
       IN    {Res("found", i, o.p - a + 1) : o \in {o \in O : o.t = "found"}}
       \cup (IF \E o \in O : o.t = "err" THEN {Res("err", 0, 0)} ELSE {})
       \cup (IF \E l \in eofs : l > 0 /\ l < h THEN {Res("nf", 0, 0)} ELSE {})
       \cup SearchIdxDP(w, G, i - 1, {l \in eofs : ~(l > 0 /\ l < h)}, h)
SearchDP(w, h, ign) == SearchIdxDP(w, GTable(Stream(w, 1), h, ign), NFiles(w), {-1}, h)

(* what the caller of a successful search reads next (it decodes from the returned     *)
(* reader until the first error)                                                       *)
AfterFound(w, r) == ReadFrom(Stream(w, r.i), r.p + 1, "group")
FoundId(w, r)    == Stream(w, r.i)[r.p].id

(***************************************************************************)
(* repairWalFile(src, dst): decode src through os.File until the first      *)
(* error of any kind, re-encode every message into dst.  Applied to file f  *)
(* in place (ConsensusState.OnStart applies it to the head).                *)
(***************************************************************************)
RepairKeep(w, f) == ReadFile(w, f).ids
Repair(w, f) ==
  LET n == Len(RepairKeep(w, f)) IN
  [w EXCEPT !.files[f] = [j \in 1..n |-> [w.files[f][j] EXCEPT !.d = "ok"]]]

(***************************************************************************)
(* The property, stated without the decoder.                                *)
(***************************************************************************)
Ids(s)       == [j \in 1..Len(s) |-> s[j].id]
Intact(s)    == \A j \in 1..Len(s) : s[j].d = "ok"
IsPrefix(a, b) == Len(a) <= Len(b) /\ a = SubSeq(b, 1, Len(a))
RECURSIVE OkPrefixLen(_)
OkPrefixLen(s) == IF s = <<>> \/ Head(s).d # "ok" THEN 0 ELSE 1 + OkPrefixLen(Tail(s))
(* the longest prefix of a file that can be recovered: the undamaged records in front  *)
(* of the first damaged one, plus a final record that lost nothing but zero bytes, or  *)
(* a cut record whose missing bytes are there again because they follow in the file    *)
Whole(s, mode) ==
  LET n == OkPrefixLen(s) IN
  IF n + 1 = Len(s) /\ mode = "file" /\ s[n + 1].d \in ZeroClasses THEN n + 1
  ELSE IF n + 1 < Len(s) /\ s[n + 1].d \in SpliceClasses THEN n + 1
  ELSE n
ValidPrefix(f) == SubSeq(Ids(f), 1, Whole(f, "file"))

(* order and identity: the records on disk followed by the buffered ones are in write  *)
(* order, none twice                                                                   *)
Increasing(ids) == \A a \in 1..(Len(ids) - 1) : ids[a] < ids[a + 1]
RealIds(s)   == SelectSeq(Ids(s), LAMBDA x : x # 0)
AllRecs(w)   == JoinP(Cat(w.files, 1), w.buf)     \* on disk, then buffered
OrderKept(w) == Increasing(RealIds(AllRecs(w)))

(* reading returns exactly the records in front of the first damage, never a damaged   *)
(* one, and ends with EOF or a corruption error; an undamaged log is returned whole    *)
ReadExact(w) ==
  LET s == Stream(w, 1)
      r == ReadAll(w) IN
  /\ r.ids = SubSeq(Ids(s), 1, Whole(s, "group"))
  /\ Intact(s) => r.end = "eof"
  /\ \A f \in 1..NFiles(w) : ReadFile(w, f).ids = ValidPrefix(File(w, f))

(* a change of bits is never taken for the end of the log *)
FlipsReported(w) ==
  LET s == Stream(w, 1) IN
  (OkPrefixLen(s) < Len(s) /\ s[OkPrefixLen(s) + 1].d \in FlipClasses) => ReadAll(w).end = "dce"

(* markers on disk, positions in the whole stream *)
Markers(w, h) == LET s == Stream(w, 1) IN {p \in 1..Len(s) : s[p].k = "eh" /\ s[p].h = h /\ s[p].d = "ok"}

(* found => it is a marker of that height, written and undamaged; the reader continues *)
(* with exactly the records behind it (up to the first damage)                         *)
SoundOn(w, h, R) ==
  \A r \in R : r.t = "found" =>
     LET s == Stream(w, r.i)
         x == s[r.p] IN
     /\ x.k = "eh" /\ x.h = h /\ (x.d = "ok" \/ (x.d \in SpliceClasses /\ r.p < Len(s)))
     /\ AfterFound(w, r).ids = IF x.d = "ok" THEN SubSeq(Ids(s), r.p + 1, r.p + Whole(SubSeq(s, r.p + 1, Len(s)), "group"))
                               ELSE <<>>
SearchSound(w, h, ign) == SoundOn(w, h, Search(w, h, ign))
(* without damage the search is deterministic and errs never *)
SearchDet(w, h, ign) ==
  Intact(Stream(w, 1)) => Cardinality(Search(w, h, ign)) = 1 /\ \A r \in Search(w, h, ign) : r.t # "err"
(* The writer's discipline: consensus writes EndHeight(h) once per height, in          *)
(* increasing order; the only other marker is EndHeight(0) at the start of a fresh     *)
(* head (OnStart).                                                                     *)
Disciplined(w) ==
  LET s == Stream(w, 1)
      m == SelectSeq(s, LAMBDA x : x.k = "eh" /\ x.h # 0) IN
  \A a \in 1..(Len(m) - 1) : m[a].h < m[a + 1].h
(* found iff written (undamaged, disciplined logs) *)
CompleteOn(w, h, R) ==
  (Intact(Stream(w, 1)) /\ Disciplined(w)) => ((Markers(w, h) # {}) <=> (\E r \in R : r.t = "found"))
SearchComplete(w, h, ign) == CompleteOn(w, h, Search(w, h, ign))
(* heights that were written but are not found (non-empty only for undisciplined logs: *)
(* the search stops at a newer file whose last marker is below the height)             *)
Missed(w, Hs) == {h \in Hs : Intact(Stream(w, 1)) /\ Markers(w, h) # {} /\ Res("nf", 0, 0) \in Search(w, h, TRUE)}

(* repair keeps exactly the longest valid prefix of the file *)
RepairExact(w) == \A f \in 1..NFiles(w) :
   /\ RepairKeep(w, f) = ValidPrefix(File(w, f))
   /\ Intact(Repair(w, f).files[f])
   /\ IsPrefix(Ids(Repair(w, f).files[f]), Ids(w.files[f]))
==============================================================================
