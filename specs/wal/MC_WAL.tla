-------------------------------- MODULE MC_WAL --------------------------------
(***************************************************************************)
(* Exhaustive model of the WAL for TLC: every history of writes (buffered   *)
(* and synced), flushes, head-size checks (all rotation points), total-size *)
(* checks (oldest files removed), restarts and crashes up to MaxRecs        *)
(* records, followed by up to MaxDamage damages                             *)
(* of every class at every record of every file and up to MaxPost further   *)
(* actions (writes behind the damage, restart, repair).  Record sizes are   *)
(* units (every record 1, HdrSz = 0, the kind "huge" MaxMsg + 1), limits    *)
(* are counted in records; the driver turns the comparison `head size vs    *)
(* limit' of every Tick into real byte counts that hit the same side of     *)
(* the boundary ("lt" = one byte below, "eq" = equal, "gt" = above).        *)
(*                                                                         *)
(* `hist' is the path (hidden by VIEW), every action tuple ends with its    *)
(* result class.  Dump prints one JSON line per transition: the path and    *)
(* what every observer must return in the post-state (Obs).  The Go driver  *)
(* (harness/wal) replays the path on a real consensus.BaseWAL, realises     *)
(* each damage for every byte offset and bit of its class and compares.     *)
(***************************************************************************)
EXTENDS WAL, Json

CONSTANTS Kinds,      \* kinds of ordinary messages ("m" = the driver picks a real kind; "huge" = above MaxMsg)
          Heights,    \* heights of the markers written and searched
          Limits,     \* head size limits (records), chosen when the WAL is created
          TLimits,    \* total size limits (records; 0 = off), chosen when the WAL is created
          MaxRecs,    \* records per history, the EndHeight(0) of OnStart included
          MaxDamage,  \* damages per history
          MaxPost,    \* actions behind the first damage
          Unsynced    \* TRUE: Write (buffered) is explored besides WriteSync

VARIABLES w,      \* the WAL (WAL!New ...)
          hist,   \* path
          lost,   \* ids that were in the bufio buffer when the process crashed, or in a file removed by
                  \* the total size limit (ghost)
          ndmg,   \* damages so far
          post    \* actions since the first damage
vars == <<w, hist, lost, ndmg, post>>

Sz(k)   == IF k = "huge" THEN MaxMsg + 1 ELSE 1
DiskIds(s) == LET st == Stream(s, 1) IN {st[p].id : p \in 1..Len(st)}
Fits(s) == s.next - 1 <= MaxRecs
Cmp(s)  == IF HeadDisk(s) < s.limit THEN "lt" ELSE IF HeadDisk(s) = s.limit THEN "eq" ELSE "gt"

Init == /\ \E l \in Limits, t \in TLimits :
             w = Start([New(l) EXCEPT !.tlimit = t], 1) /\ hist = << <<"new", l, t, "ok">> >>
        /\ lost = {} /\ ndmg = 0 /\ post = 0

Do(s, a) == Fits(s) /\ w' = s /\ hist' = Append(hist, a)
Clean    == ndmg = 0
Later    == ndmg > 0 /\ post < MaxPost
Count    == post' = IF ndmg > 0 THEN post + 1 ELSE post

(* the writer: consensus.BaseWAL *)
AWrite(k, h) == LET r == Write(w, k, h, Sz(k)) IN Do(r.st, <<"w", k, h, r.res>>)
ASync(k, h)  == LET r == WriteSync(w, k, h, Sz(k)) IN Do(r.st, <<"ws", k, h, r.res>>)
(* the ticker's head-size check INSIDE one Write / WriteSync, behind group write g of   *)
(* the message (only where it rotates: otherwise this is the plain write)               *)
AWriteT(k, h, g, sync) ==
  /\ Clean /\ (sync \/ Unsynced) /\ Sz(k) <= MaxMsg
  /\ LET r == WriteTick(w, k, h, Sz(k), g, sync) IN
       r.tick = "rot" /\ Do(r.st, <<IF sync THEN "wst" ELSE "wt", k, h, g, Cmp(r.mid), r.tick, "ok">>)
Writer ==
  /\ Clean \/ Later
  /\ \/ \E h \in Heights : (Unsynced /\ AWrite("eh", h)) \/ ASync("eh", h)
     \/ \E k \in Kinds   : (Unsynced /\ AWrite(k, 0)) \/ ASync(k, 0)
     \/ \E g \in 1..WritesPerRecord, sync \in BOOLEAN :
          \/ \E h \in Heights : AWriteT("eh", h, g, sync)
          \/ \E k \in Kinds   : AWriteT(k, 0, g, sync)
     \/ w.buf # <<>> /\ Do(Flush(w), <<"fl", "ok">>)
     \/ Do(Start(Stop(w), 1), <<"restart", "ok">>)
  /\ UNCHANGED <<lost, ndmg>> /\ Count

(* the group's ticker; head sizes are tracked for undamaged files only *)
ATick == /\ Clean
         /\ LET r == Tick(w) IN Do(r.st, <<"tick", Cmp(w), r.res>>)
         /\ UNCHANGED <<lost, ndmg, post>>

(* the same ticker: checkTotalSizeLimit.  The tuple carries how many files go and why  *)
(* the loop stops, so that the driver can choose a byte limit with the same effect.    *)
APrune == /\ Clean /\ w.tlimit # 0
          /\ LET r == Prune(w) IN Do(r.st, <<"prune", r.n, r.why, "ok">>)
          /\ UNCHANGED <<ndmg, post>>
          /\ lost' = lost \cup (DiskIds(w) \ DiskIds(Prune(w).st))

(* kill -9 and start again: the buffered records are gone *)
ACrash == /\ Clean \/ Later
          /\ Do(Start(Crash(w), 1), <<"crash", "ok">>)
          /\ lost' = lost \cup {w.buf[j].id : j \in 1..Len(w.buf)}
          /\ UNCHANGED ndmg /\ Count

(* the environment damages bytes on disk *)
Good(f, j) == w.files[f][j].d = "ok" /\ w.files[f][j].k # "junk"
Damage ==
  /\ ndmg < MaxDamage
  /\ \E f \in 1..NFiles(w) :
       \/ \E j \in 1..Len(w.files[f]) :
            \/ \E c \in FlipClasses : Good(f, j) /\ Do(Corrupt(w, f, j, c), <<"flip", f, j, c, "ok">>)
            \/ \E c \in CutClasses  : /\ Good(f, j)
                                       /\ (c \in SpliceClasses => \E g \in (f + 1)..NFiles(w) : w.files[g] # <<>>) = TRUE
                                       /\ Do(Truncate(w, f, j, c), <<"cut", f, j, c, "ok">>)
            \/ Do(Truncate(w, f, j, "clean"), <<"cut", f, j, "clean", "ok">>)
       \/ \E c \in JunkClasses : Do(Garbage(w, f, c), <<"junk", f, c, "ok">>)
  /\ Isolated(w') = TRUE    \* "= TRUE": evaluated as a value; as an action TLC would branch on every disjunct
  /\ ndmg' = ndmg + 1 /\ UNCHANGED <<lost, post>>

(* ConsensusState.OnStart on a corruption error: stop the WAL, repairWalFile, reload   *)
ARepair == /\ Later
           /\ \E f \in 1..NFiles(w) : Do(Start(Repair(Stop(w), f), 1), <<"repair", f, "ok">>)
           /\ UNCHANGED <<lost, ndmg>> /\ Count

Next == Writer \/ ATick \/ APrune \/ ACrash \/ Damage \/ ARepair
Spec == Init /\ [][Next]_vars
View == <<w, lost, ndmg, post>>

(***************************** the property ***********************************)
(* every record accepted by Write is on disk or in the buffer, once, in write order,   *)
(* except those that were still buffered when the process died and those whose file    *)
(* the total size limit removed                                                        *)
RECURSIVE Upto(_, _)
Upto(a, b) == IF a > b THEN <<>> ELSE <<a>> \o Upto(a + 1, b)
Durable == ndmg = 0 =>
   RealIds(AllRecs(w)) = SelectSeq(Upto(1, w.next - 1), LAMBDA i : i \notin lost)

FilesAtFrame == FilesStartAtFrame(w)
Inv == /\ OrderKept(w) /\ Durable /\ FilesAtFrame
       /\ ReadExact(w) /\ FlipsReported(w) /\ RepairExact(w)
       /\ \A h \in Heights, ign \in BOOLEAN :
             SearchSound(w, h, ign) /\ SearchDet(w, h, ign) /\ SearchComplete(w, h, ign)

(* the dynamic-programming evaluation of the search used by the trace validator is the *)
(* search                                                                              *)
DPAgrees == \A h \in Heights, ign \in BOOLEAN : SearchDP(w, h, ign) = Search(w, h, ign)

(* design-level finding, expected to be violated when Heights allows markers out of    *)
(* order: completeness of the search WITHOUT the writer's discipline                   *)
CompleteAnyOrder == Missed(w, Heights) = {}

(* companion model (WritesPerRecord = 2): TLC completes the search and prints every    *)
(* reachable state in which a file starts in the middle of a frame, with what the      *)
(* per-file readers and the search make of an otherwise intact log                     *)
SplitWitness == FilesStartAtFrame(w) \/
   PrintT(<<"SPLIT", hist, "files read alone", [f \in 1..NFiles(w) |-> <<ReadFile(w, f).ids, ReadFile(w, f).end>>],
            "group read", ReadAll(w).ids, ReadAll(w).end,
            "strict search errs for", {h \in Heights : \E r \in Search(w, h, FALSE) : r.t = "err"}>>)

(* a synced write leaves nothing in the buffer *)
LastAct == hist'[Len(hist')]
SyncIsDurable == [][(hist' # hist /\ ((LastAct[1] = "ws" /\ LastAct[4] = "ok") \/ LastAct[1] = "wst")) => w'.buf = <<>>]_vars

(***************************** what the driver compares ***********************)
Outcome(s, r) ==
  IF r.t = "found" THEN <<"found", FoundId(s, r), AfterFound(s, r).ids, AfterFound(s, r).end>>
  ELSE <<r.t, 0, <<>>, "">>
Obs(s) ==
  [ f  |-> [i \in 1..NFiles(s) |-> [j \in 1..Len(s.files[i]) |-> <<s.files[i][j].id, s.files[i][j].d>>]],
    b  |-> Ids(s.buf),
    g  |-> s.gone,
    ra |-> <<ReadAll(s).ids, ReadAll(s).end>>,
    rf |-> [i \in 1..NFiles(s) |-> <<ReadFile(s, i).ids, ReadFile(s, i).end>>],
    s  |-> {<<h, ign, {Outcome(s, r) : r \in Search(s, h, ign = 1)}>> : h \in Heights, ign \in {0, 1}},
    miss |-> Missed(s, Heights) ]
Dump == PrintT(ToJson([h |-> hist', o |-> Obs(w')]))
===============================================================================
