------------------------------- MODULE WALTrace -------------------------------
(***************************************************************************)
(* Trace validation (code -> specification) for WAL.tla.                    *)
(*                                                                         *)
(* harness/wal TestRecord drives a real consensus.BaseWAL with a seeded     *)
(* random workload (hundreds of records of every kind, buffered and synced  *)
(* writes, head-size checks against a fixed byte limit, restarts, crashes), *)
(* then damages the files (random multi-byte overwrites inside one record,  *)
(* truncation at a random offset, random garbage), runs the observers of    *)
(* the real code and possibly goes on writing.  It logs one ndjson event    *)
(* per operation: the arguments, the REAL payload size of every record,     *)
(* the REAL size of the head file at every head-size check, the damage      *)
(* class its byte arithmetic assigns to the damaged record, and what the    *)
(* real code returned (record ids are found by comparing the returned       *)
(* messages, re-encoded, with the bytes written; a message that is not one  *)
(* of the written ones gets id -1 and can never be explained).              *)
(*                                                                         *)
(* Every event must be explained by the operator of WAL.tla it names, with  *)
(* sizes in bytes (HdrSz = 8, MaxMsg = maxMsgSizeBytes): the state changes  *)
(* as the operator says, results are the operator's result (reads, repair)  *)
(* or one of the admissible outcomes (search).  The state invariants of     *)
(* the property are evaluated in every state.  Many traces are              *)
(* concatenated by "reset" events.  Acceptance: every line consumed         *)
(* (POSTCONDITION on the diameter).                                         *)
(*                                                                         *)
(* Event fields (all present in every event, unused ones are 0 / "" / []):  *)
(*   a     "new" "w" "ws" "wt" "wst" (head-size check inside the write:     *)
(*         j = group write it came behind, n = head file size, t = what it  *)
(*         did) "fl" "tick" "restart" "crash" "flip" "cut" "junk"           *)
(*         "readall" "readfile" "search" "repair" "reset"                   *)
(*   k h sz res     kind, marker height, payload bytes, result class        *)
(*   n     "new": head size limit in bytes; "tick": size of the head file   *)
(*   f j c          file, slot, damage class                                *)
(*   ign t ids end  search option, outcome, ids returned, how reading ended *)
(***************************************************************************)
EXTENDS WAL, Json

CONSTANTS TraceFile, SearchHs
Trace == ndJsonDeserialize(TraceFile)

VARIABLES w, l
vars == <<w, l>>

Init == w = New(0) /\ l = 1

Ev == Trace[l]
Is(a) == Ev.a = a
Same  == w' = w

(* A rejected trace is a verdict on the property, so observations are accepted wherever *)
(* the STATEMENT of C15 is open, even if WAL.tla pins the result (the exact classes are  *)
(* bound by the replay of MC_WAL): a damaged log may end with io.EOF or with a           *)
(* corruption error; a search on a damaged log may answer not-found or corruption error  *)
(* unless the marker is certainly found, and may find any intact marker of the height.   *)
Damaged == ~Intact(Stream(w, 1))
ReadOk(r) == /\ r.ids = Ev.ids
             /\ Ev.end \in {"eof", "dce"}
             /\ ~Damaged => Ev.end = r.end
SoundAnywhere ==
  \E i \in 1..NFiles(w) : LET s == Stream(w, i) IN \E p \in 1..Len(s) :
     /\ s[p].k = "eh" /\ s[p].h = Ev.h /\ s[p].d = "ok"
     /\ Ev.ids = SubSeq(Ids(s), p + 1, p + OkPrefixLen(SubSeq(s, p + 1, Len(s))))
     /\ Ev.end \in {"eof", "dce"}
SearchOk ==
  LET R == SearchDP(w, Ev.h, Ev.ign = 1) IN
  \/ \E r \in R : r.t = Ev.t /\ (r.t = "found" => AfterFound(w, r) = [ids |-> Ev.ids, end |-> Ev.end])
  \/ Damaged /\ Ev.t \in {"nf", "err"} /\ \E r \in R : r.t # "found"
  \/ Damaged /\ Ev.t = "found" /\ SoundAnywhere

\* new/restart/crash/repair: field sz is the payload size of the EndHeight(0) that OnStart writes into an empty head
Step ==
  /\ l <= Len(Trace)
  /\ l' = l + 1
  /\ \/ Is("reset")   /\ w' = New(0)
     \/ Is("new")     /\ w' = Start(New(Ev.n), Ev.sz)
     \/ Is("w")       /\ LET r == Write(w, Ev.k, Ev.h, Ev.sz) IN r.res = Ev.res /\ w' = r.st
     \/ Is("ws")      /\ LET r == WriteSync(w, Ev.k, Ev.h, Ev.sz) IN r.res = Ev.res /\ w' = r.st
     \/ (Is("wt") \/ Is("wst")) /\ Ev.res = "ok"
                      /\ LET r == WriteTick(w, Ev.k, Ev.h, Ev.sz, Ev.j, Is("wst")) IN
                           HeadDisk(r.mid) = Ev.n /\ r.tick = Ev.t /\ w' = r.st
     \/ Is("fl")      /\ w' = Flush(w)
     \/ Is("tick")    /\ HeadDisk(w) = Ev.n /\ LET r == Tick(w) IN r.res = Ev.res /\ w' = r.st
     \/ Is("restart") /\ w' = Start(Stop(w), Ev.sz)
     \/ Is("crash")   /\ w' = Start(Crash(w), Ev.sz)
     \/ Is("flip")    /\ w.files[Ev.f][Ev.j].d = "ok" /\ w' = Corrupt(w, Ev.f, Ev.j, Ev.c)
     \/ Is("cut")     /\ w' = Truncate(w, Ev.f, Ev.j, Ev.c)
     \/ Is("junk")    /\ w' = Garbage(w, Ev.f, Ev.c)
     \/ Is("readall") /\ Same /\ ReadOk(ReadAll(w))
     \/ Is("readfile") /\ Same /\ ReadOk(ReadFile(w, Ev.f))
     \/ Is("search")  /\ Same /\ SearchOk
     \/ Is("repair")  /\ RepairKeep(w, Ev.f) = Ev.ids /\ w' = Start(Repair(Stop(w), Ev.f), Ev.sz)

Next == Step
Spec == Init /\ [][Next]_vars

(* the property, on every state in which the real code was observed (the logs are big: *)
(* evaluating it after every single write as well only costs time)                     *)
Observed == l > 1 /\ Trace[l - 1].a \in {"readall", "repair"}
InvObs == Observed =>
       /\ OrderKept(w) /\ ReadExact(w) /\ FlipsReported(w) /\ RepairExact(w)
       /\ \A h \in SearchHs, ign \in BOOLEAN :
             LET R == SearchDP(w, h, ign) IN SoundOn(w, h, R) /\ CompleteOn(w, h, R)
Inv == FilesStartAtFrame(w) /\ InvObs
Accepted == IF TLCGet("stats").diameter - 1 = Len(Trace) THEN TRUE
            ELSE PrintT(<<"REJECTED: explained", TLCGet("stats").diameter - 1, "of", Len(Trace), "events">>) /\ FALSE
===============================================================================
