------------------------------- MODULE PeerMsgs -------------------------------
(***************************************************************************)
(* What the CONSENSUS REACTOR does with a message from a peer: a            *)
(* transcription of consensus/manager.go                                    *)
(*     ConsensusManager.Receive  ->  decodeMsg / MsgFromProto / ValidateBasic*)
(*                               ->  PeerState.Apply* / SetHas* / Ensure*    *)
(*                               ->  cs.peerMsgQueue (-> receiveRoutine ->   *)
(*                                   handleMsg = KardiaNode!HandleMsg)       *)
(* over ABSTRACT messages: every numeric field ranges over the boundary      *)
(* classes {0, current-1, current, current+1, 2^31-1, maximum of its type},  *)
(* bit arrays are [bits, elems, ones] (claimed size, number of 64-bit words  *)
(* actually present on the wire, positions set), block ids / parts / votes / *)
(* signatures are small enumerations.  The module is the ORACLE of property  *)
(* C18 for the consensus channels:                                           *)
(*                                                                          *)
(*   Receive(...) never yields res = "panic", never allocates "huge", keeps  *)
(*   the peer state well formed (PRSWellFormed - the condition under which   *)
(*   every bit-array operation of the gossip routines is total), changes the *)
(*   round state only through HandleMsg on the well-formed core of a queued  *)
(*   message, and otherwise at most stops the sending peer.                  *)
(*                                                                          *)
(* NAMED DEVIATIONS = THE CODE AS FOUND.  Impl = {} (the default of every    *)
(* registered run) is the specification AND the code of /repo since the      *)
(* "fix:" commits D1..D6 (harness/peer/patches/*.msg).  The behaviour of the *)
(* code BEFORE those commits is kept under a flag per defect in the constant *)
(* Impl (a set of names): companion runs of checks/C18.py switch each flag   *)
(* on and REQUIRE TLC to violate the invariant named there (design-level     *)
(* counterexample; the driver reproduced every one on the unrepaired         *)
(* reactor), so that a defect that comes back is named precisely.  The names *)
(* (what the code did / what is specified and now coded):                    *)
(*   "ba-unchecked"   lib/common/bit_array.go FromProto copies Bits and      *)
(*                    Elems without comparing them (no len(Elems) =          *)
(*                    ceil(Bits/64), negative Bits become huge): specified   *)
(*                    = decoding error, peer stopped                         *)
(*   "or-short"       BitArray.Or indexes o.Elems over the LONGER array:     *)
(*                    panics whenever the argument has fewer words (an       *)
(*                    honest empty VoteSetBits answer does it)               *)
(*   "proposal-total" ProposalMessage.ValidateBasic returns nil and          *)
(*                    Proposal.ValidateBasic does not bound PartsHeader.Total:*)
(*                    PeerState.SetHasProposal allocates NewBitArray(Total)   *)
(*                    (and setProposal NewPartSetFromHeader(Total) for a      *)
(*                    signed one); specified = Total <= MaxBlockPartsCount    *)
(*   "pol-uncapped"   ProposalPOLMessage.ValidateBasic has no upper bound;   *)
(*                    harmless (bounded by the message size), kept as code   *)
(*   "lastcommit-nil" addVote calls cs.LastCommit.AddVote for a precommit of  *)
(*                    height-1 while cs.LastCommit is nil (initial height,   *)
(*                    step NewHeight): VoteSet.AddVote panics on a nil set    *)
(*   "polround-unchecked" setProposal's POL-round test is vacuous for         *)
(*                    unsigned rounds ((POLRound < 1) && (... > 0 || ...)):   *)
(*                    a proposal signed by the round's proposer is taken with *)
(*                    ANY POLRound; gossipDataRoutine then encodes            *)
(*                    ProposalPOLMessage{Prevotes(POLRound).BitArray()} and   *)
(*                    MsgToProto dereferences the nil array of a round that   *)
(*                    has no vote set: unrecovered panic in a reactor         *)
(*                    goroutine of EVERY node that took the proposal;         *)
(*                    specified (as upstream): POLRound = 0 or < Round        *)
(* Laxities of the code that are harmless and therefore SPECIFIED AS CODED   *)
(* (soundness rule: do not demand more than the statement): hashes of any    *)
(* length are cropped/padded to 32 bytes; the step of NewRoundStep is taken  *)
(* modulo 256; a ProposalPOL / NewValidBlock bit array of a size other than  *)
(* the validator count / our part count is stored (every consumer clips to   *)
(* the smaller size); HasVote / Vote indices beyond the array are ignored;   *)
(* a message type on the wrong channel is logged and ignored; NewRoundStep   *)
(* with an impossible height / LastCommitRound is ignored without stopping.  *)
(***************************************************************************)
EXTENDS PeerNodeStates

CONSTANT Impl                \* named deviations switched on (see above); {} = as specified
AllDeviations == {"ba-unchecked", "or-short", "proposal-total", "lastcommit-nil", "polround-unchecked"}

(****************************** numbers ******************************)
(* TLC integers are 32-bit.  Big stands for 2^31-1 and values just above it  *)
(* for 2^31-1+k; Max stands for the maximum of the field's type (2^32-1 or   *)
(* 2^64-1, MaxInt64 for a bit count) and values just below it for max-k.     *)
(* Unsigned wrap-around of the Go code is kept: Succ(Max) = 0, Pred(0) = Max *)
Big == 2000000000
Max == 2147483647
Succ(x) == IF x = Max THEN 0 ELSE x + 1
Pred(x) == IF x = 0 THEN Max ELSE x - 1
MaxBlockPartsCount == 1601        \* types/params.go
MaxVotesCount      == 10000       \* types/vote_set.go
StateCh == 32  DataCh == 33  VoteCh == 34  BitsCh == 35      \* 0x20..0x23

(****************************** bit arrays ******************************)
\* nil: the Go pointer is nil.  bits: int(BitArray.Bits) (negative: a negative int64 on the wire).
\* elems: len(BitArray.Elems).  ones: positions set in the words that are present (positions at or beyond bits -
\* "straggler" bits of the last word - included: Update / Or / Sub work on whole words).
NilBA == [nil |-> TRUE, bits |-> 0, elems |-> 0, ones |-> {}]
Words(b) == IF b <= 0 THEN 0 ELSE IF b > 1000000 THEN (b \div 64) + 1 ELSE (b + 63) \div 64
BA(b, e, o) == [nil |-> FALSE, bits |-> b, elems |-> e, ones |-> o]
NewBA(n) == IF n <= 0 THEN NilBA ELSE BA(n, Words(n), {})                 \* common.NewBitArray
Size(a) == IF a.nil THEN 0 ELSE a.bits
\* structurally sound: every index below bits has its word
Sound(a) == a.nil \/ (a.bits >= 0 /\ a.elems = Words(a.bits))
\* huge allocations are counted in words
HugeWords == 1000000

\* a bit array as it comes off the wire: present = the sub-message is there
NoWire == [present |-> FALSE, bits |-> 0, elems |-> 0, ones |-> {}]
Wire(b, e, o) == [present |-> TRUE, bits |-> b, elems |-> e, ones |-> o]
\* BitArray.FromProto into a fresh non-nil array (an absent sub-message leaves it at size 0)
DecodeBA(w) ==
  IF ~w.present THEN [ok |-> TRUE, ba |-> BA(0, 0, {})]
  ELSE IF "ba-unchecked" \in Impl THEN [ok |-> TRUE, ba |-> BA(w.bits, w.elems, w.ones)]
  ELSE IF w.bits < 0 \/ w.elems # Words(w.bits) THEN [ok |-> FALSE, ba |-> NilBA]
  ELSE [ok |-> TRUE, ba |-> BA(w.bits, w.elems, w.ones)]

\* SetIndex(i, true): [ba, panic]
SetIdx(a, i) ==
  IF a.nil \/ i >= a.bits THEN [ba |-> a, panic |-> FALSE]
  ELSE IF (i \div 64) >= a.elems THEN [ba |-> a, panic |-> TRUE]            \* Elems[i/64] out of range
  ELSE [ba |-> [a EXCEPT !.ones = @ \cup {i}], panic |-> FALSE]
\* Sub, Or, Update as used by ApplyVoteSetBitsMessage; ones are tracked for single-word arrays
Clip(o, n) == {i \in o : i < n}
MinI(a, b) == IF a < b THEN a ELSE b
MaxI(a, b) == IF a > b THEN a ELSE b
SubBA(a, o) ==      \* a.Sub(o), a and o non-nil
  IF a.bits > o.bits
  THEN [ba |-> BA(a.bits, a.elems, {i \in a.ones : i >= o.bits \/ i \notin o.ones}), panic |-> FALSE]   \* (low words are cleared by the code: single word here)
  ELSE \* a.and(o.Not()): copyBits(min) then c.Elems[i] &= o.Elems[i] for i < len(c.Elems)
       IF Words(MinI(a.bits, o.bits)) > o.elems THEN [ba |-> a, panic |-> TRUE]
       ELSE [ba |-> BA(MinI(a.bits, o.bits), Words(MinI(a.bits, o.bits)), a.ones \ o.ones), panic |-> FALSE]
OrBA(a, o) ==       \* a.Or(o), both non-nil: [ba, panic, words]
  LET n == MaxI(a.bits, o.bits) IN
  IF "or-short" \in Impl /\ Words(n) > o.elems
  THEN [ba |-> a, panic |-> TRUE, words |-> Words(n)]
  ELSE [ba |-> BA(n, Words(n), a.ones \cup o.ones), panic |-> FALSE, words |-> Words(n)]
UpdateBA(a, o) ==   \* a.Update(o): copy(a.Elems, o.Elems); single-word arrays: replaced when o has a word
  IF a.nil \/ o.nil THEN a
  ELSE IF o.elems >= 1 /\ a.elems >= 1 THEN [a EXCEPT !.ones = o.ones] ELSE a

(****************************** peer state ******************************)
\* cstypes.PeerRoundState (consensus/types/peer_round_state.go), StartTime omitted
NoPSH == [total |-> 0, hash |-> "zero"]
PRS0 == [h |-> 0, r |-> 0, step |-> 0, prop |-> FALSE, pbph |-> NoPSH, pbp |-> NilBA,
         polR |-> 0, pol |-> NilBA, pv |-> NilBA, pc |-> NilBA,
         lcR |-> 0, lc |-> NilBA, ccR |-> 0, cc |-> NilBA]

BAFields == {"pbp", "pol", "pv", "pc", "lc", "cc"}
PRSWellFormed(p) == \A f \in BAFields : Sound(p[f]) /\ p[f].bits <= MaxI(MaxVotesCount, MaxBlockPartsCount) * 1000

\* CompareHRS
Cmp(h1, r1, s1, h2, r2, s2) ==
  IF h1 < h2 THEN -1 ELSE IF h1 > h2 THEN 1
  ELSE IF r1 < r2 THEN -1 ELSE IF r1 > r2 THEN 1
  ELSE IF s1 < s2 THEN -1 ELSE IF s1 > s2 THEN 1 ELSE 0

\* PeerState.getVoteBitArray: the NAME of the array, "none" when the code returns nil outright
Which(p, h, r, type) ==
  IF type \notin {PrevoteT, PrecommitT} THEN "none"
  ELSE IF p.h = h THEN
         IF p.r = r THEN (IF type = PrevoteT THEN "pv" ELSE "pc")
         ELSE IF p.ccR = r THEN (IF type = PrevoteT THEN "none" ELSE "cc")
         ELSE IF p.polR = r THEN (IF type = PrevoteT THEN "pol" ELSE "none")
         ELSE "none"
  ELSE IF p.h = Succ(h) THEN (IF p.lcR = r /\ type = PrecommitT THEN "lc" ELSE "none")
  ELSE "none"

\* PeerState.ensureVoteBitArrays(height, numValidators)
Ensure(p, h, n) ==
  IF p.h = h THEN [p EXCEPT !.pv = IF @.nil THEN NewBA(n) ELSE @, !.pc = IF @.nil THEN NewBA(n) ELSE @,
                            !.cc = IF @.nil THEN NewBA(n) ELSE @, !.pol = IF @.nil THEN NewBA(n) ELSE @]
  ELSE IF p.h = Succ(h) THEN [p EXCEPT !.lc = IF @.nil THEN NewBA(n) ELSE @]
  ELSE p

\* PeerState.setHasVote: [p, panic]
SetHasVote(p, h, r, type, idx) ==
  LET f == Which(p, h, r, type) IN
  IF f = "none" THEN [p |-> p, panic |-> FALSE]
  ELSE LET x == SetIdx(p[f], idx) IN [p |-> [p EXCEPT ![f] = x.ba], panic |-> x.panic]

\* PeerState.ApplyNewRoundStepMessage
ApplyNRS(p, m) ==
  IF Cmp(m.h, m.r, m.step, p.h, p.r, p.step) <= 0 THEN p
  ELSE
    LET p1 == [p EXCEPT !.h = m.h, !.r = m.r, !.step = m.step]
        p2 == IF p.h # m.h \/ p.r # m.r
              THEN [p1 EXCEPT !.prop = FALSE, !.pbph = NoPSH, !.pbp = NilBA, !.polR = 0, !.pol = NilBA,
                              !.pv = NilBA, !.pc = NilBA]
              ELSE p1
        p3 == IF p.h = m.h /\ p.r # m.r /\ m.r = p.ccR THEN [p2 EXCEPT !.pc = p.cc] ELSE p2
    IN IF p.h # m.h
       \* "Shift Precommits to LastCommit": the code reads ps.PRS.Precommits AFTER it has been reset
       \* above, so LastCommit is always nil here (upstream keeps the old array) - gossip only, as coded
       THEN [p3 EXCEPT !.lcR = m.lcr, !.lc = IF Succ(p.h) = m.h /\ p.r = m.lcr THEN p3.pc ELSE NilBA,
                       !.ccR = 0, !.cc = NilBA]
       ELSE p3

(****************************** block ids ******************************)
\* a block id on the wire: hash class, parts total, parts-hash class; classes "zero", "A" (the block the
\* proposer of class scripts proposes, one part), "Z" (some other 32 bytes)
IsZeroBid(b)     == b.hash = "zero" /\ b.total = 0 /\ b.phash = "zero"
IsCompleteBid(b) == b.hash # "zero" /\ ~(b.total = 0 /\ b.phash = "zero")
NilBidW == [hash |-> "zero", total |-> 0, phash |-> "zero"]
ABidW   == [hash |-> "A", total |-> 1, phash |-> "A"]
\* BidName(b) (below, after the catalogue of wire ids): the abstract block name KardiaNode uses; every wire id
\* of the catalogue has its own name (VoteSet keys its per-block entries by the full id)
BidsW == { [b |-> NilBidW, tag |-> "nil"], [b |-> ABidW, tag |-> "A"],
           [b |-> [hash |-> "Z", total |-> 1, phash |-> "Z"], tag |-> "Z"],
           [b |-> [hash |-> "A", total |-> 0, phash |-> "zero"], tag |-> "hashonly"],
           [b |-> [hash |-> "zero", total |-> 1, phash |-> "A"], tag |-> "partsonly"],
           [b |-> [hash |-> "A", total |-> 2, phash |-> "A"], tag |-> "total2"],
           [b |-> [hash |-> "A", total |-> MaxBlockPartsCount, phash |-> "A"], tag |-> "total1601"],
           [b |-> [hash |-> "A", total |-> MaxBlockPartsCount + 1, phash |-> "A"], tag |-> "total1602"],
           [b |-> [hash |-> "A", total |-> Big, phash |-> "A"], tag |-> "totalbig"],
           [b |-> [hash |-> "A", total |-> Max, phash |-> "A"], tag |-> "totalmax"] }
BidName(b) == IF \E x \in BidsW : x.b = b THEN (CHOOSE x \in BidsW : x.b = b).tag ELSE "other"
\* types.BlockID.Key() = Hash + PartsHeader.Hash: the per-block entries of a VoteSet (votesByBlock) do NOT
\* distinguish ids that differ in PartsHeader.Total only (as coded; VoteSet.peerMaj23s compares full ids)
KeyOfBid(b)  == <<b.hash, b.phash>>
KeyOfName(n) == IF \E x \in BidsW : x.tag = n THEN KeyOfBid((CHOOSE x \in BidsW : x.tag = n).b) ELSE <<n, n>>

(****************************** the node as the reactor sees it ******************************)
LastCommitSize(s) == IF s.hasLast THEN N ELSE 0
\* VoteSet.BitArrayByBlockID: nil unless the vote set has an entry for the block (a vote for it, or a claim)
OurVotes(s, cl, r, type, bid) ==
  IF r \notin s.rounds THEN NilBA
  ELSE LET vs == IF type = PrevoteT THEN s.votes[r].pv ELSE s.votes[r].pc
           on == {i - 1 : i \in {j \in Idx : vs[j] # NoB /\ KeyOfName(vs[j]) = KeyOfBid(bid)}}
           claimed == \E c \in cl : c[1] = r /\ c[2] = type /\ KeyOfBid(c[3]) = KeyOfBid(bid)
       IN IF on = {} /\ ~claimed THEN NilBA ELSE BA(N, Words(N), on)

(****************************** Receive ******************************)
\* result of Receive(chID, src, msgBytes)
\*   res   "ok" returned normally | "stop" Switch.StopPeerForError(src) | "panic" (deviations only)
\*   p, cl peer state and the peer's majority claims afterwards
\*   q     <<>> or <<m>>: the message put on cs.peerMsgQueue (as the record HandleMsg takes; k = "noop" for a
\*         queued message whose handling cannot change the round state: junk part, vote that fails verification...)
\*   reply TRUE: a VoteSetBits answer was sent
\*   huge  TRUE: more than HugeWords words allocated
\*   why   label of the branch taken
Ret(res, p, cl, q, reply, huge, why) == [res |-> res, p |-> p, cl |-> cl, q |-> q, reply |-> reply, huge |-> huge, why |-> why]
Stop(p, cl, why)   == Ret("stop", p, cl, <<>>, FALSE, FALSE, why)
Ignore(p, cl, why) == Ret("ok", p, cl, <<>>, FALSE, FALSE, why)
Panic(p, cl, why)  == Ret("panic", p, cl, <<>>, FALSE, FALSE, why)
Peer(p, cl, why)   == Ret("ok", p, cl, <<>>, FALSE, FALSE, why)

TypeOKVote(t) == t \in {PrevoteT, PrecommitT}

RecvNRS(s, p, cl, ch, m) ==
  LET step == m.step % 256 IN                                   \* cstypes.RoundStepType(uint32) truncates
  IF step < 1 \/ step > 8 THEN Stop(p, cl, "nrs-step")
  ELSE IF ch # StateCh THEN Ignore(p, cl, "chan")
  ELSE IF m.h < 1 THEN Ignore(p, cl, "nrs-height")              \* ValidateHeight(initialHeight = 1)
  ELSE IF m.h = 1 /\ m.lcr # 0 THEN Ignore(p, cl, "nrs-lcr")
  ELSE IF m.h > 1 /\ m.lcr = 0 THEN Ignore(p, cl, "nrs-lcr")
  ELSE Peer(ApplyNRS(p, [m EXCEPT !.step = step]), cl, "nrs")

RecvNVB(s, p, cl, ch, m) ==
  LET d == DecodeBA(m.ba) IN
  IF ~d.ok THEN Stop(p, cl, "ba-malformed")
  ELSE IF Size(d.ba) = 0 THEN Stop(p, cl, "nvb-empty")
  ELSE IF Size(d.ba) # m.total THEN Stop(p, cl, "nvb-size")
  ELSE IF Size(d.ba) > MaxBlockPartsCount THEN Stop(p, cl, "nvb-big")
  ELSE IF ch # StateCh THEN Ignore(p, cl, "chan")
  ELSE IF p.h # m.h THEN Ignore(p, cl, "nvb-height")
  ELSE IF p.r # m.r /\ ~m.commit THEN Ignore(p, cl, "nvb-round")
  ELSE Peer([p EXCEPT !.pbph = [total |-> m.total, hash |-> m.phash], !.pbp = d.ba], cl, "nvb")

RecvHasVote(s, p, cl, ch, m) ==
  IF ~TypeOKVote(m.type) THEN Stop(p, cl, "type")
  ELSE IF ch # StateCh THEN Ignore(p, cl, "chan")
  ELSE IF p.h # m.h THEN Ignore(p, cl, "hv-height")
  ELSE LET x == SetHasVote(p, m.h, m.r, m.type, m.idx)
       IN IF x.panic THEN Panic(p, cl, "setindex") ELSE Peer(x.p, cl, "hv")

RecvMaj23(s, p, cl, ch, m) ==
  IF ~TypeOKVote(m.type) THEN Stop(p, cl, "type")
  ELSE IF ch # StateCh THEN Ignore(p, cl, "chan")
  ELSE IF s.h # m.h THEN Ignore(p, cl, "maj-height")
  ELSE LET mine == {c \in cl : c[1] = m.r /\ c[2] = m.type}       \* this peer's claim for that vote set (at most one)
       IN IF m.r \in s.rounds /\ mine # {} /\ <<m.r, m.type, m.bid>> \notin mine
          THEN Stop(p, cl, "maj-conflict")                       \* VoteSet.SetPeerMaj23: conflicting claim
          ELSE Ret("ok", p, IF m.r \in s.rounds THEN cl \cup {<<m.r, m.type, m.bid>>} ELSE cl, <<>>, TRUE, FALSE, "maj")

\* the +2/3 parts bound of a proposal (as upstream: PartSetHeader.Total <= MaxBlockPartsCount)
RecvProposal(s, p, cl, ch, m) ==
  IF ~IsCompleteBid(m.bid) THEN Stop(p, cl, "prop-blockid")
  ELSE IF m.sig = "none" THEN Stop(p, cl, "prop-nosig")
  ELSE IF "proposal-total" \notin Impl /\ m.bid.total > MaxBlockPartsCount THEN Stop(p, cl, "prop-total")
  ELSE IF ch # DataCh THEN Ignore(p, cl, "chan")
  ELSE
    LET set == p.h = m.h /\ p.r = m.r /\ ~p.prop                 \* PeerState.SetHasProposal
        p1  == IF ~set THEN p
               ELSE IF ~p.pbp.nil THEN [p EXCEPT !.prop = TRUE]
               ELSE [p EXCEPT !.prop = TRUE, !.pbph = [total |-> m.bid.total, hash |-> m.bid.phash],
                              !.pbp = NewBA(m.bid.total), !.polR = m.pol, !.pol = NilBA]
        hugeP == set /\ p.pbp.nil /\ Words(m.bid.total) > HugeWords
        \* setProposal: signature of the proposer of the node's current round
        good  == m.sig = "ok" /\ m.who = Proposer(s, s.r)
        core  == [k |-> "proposal", h |-> m.h, r |-> m.r, pol |-> m.pol, bid |-> BidName(m.bid), i |-> m.who, sigOK |-> good]
        \* NewPartSetFromHeader(Total) when the proposal is taken and no part set exists yet
        hugeS == good /\ ~s.proposal.has /\ m.h = s.h /\ m.r = s.r /\ ~s.pparts.has /\ m.bid.total > HugeWords
    IN Ret("ok", p1, cl, <<core>>, FALSE, hugeP \/ hugeS, "prop")

RecvPOL(s, p, cl, ch, m) ==
  LET d == DecodeBA(m.ba) IN
  IF ~d.ok THEN Stop(p, cl, "ba-malformed")
  ELSE IF Size(d.ba) = 0 THEN Stop(p, cl, "pol-empty")
  ELSE IF ch # DataCh THEN Ignore(p, cl, "chan")
  ELSE IF p.h # m.h THEN Ignore(p, cl, "pol-height")
  ELSE IF p.polR # m.r THEN Ignore(p, cl, "pol-round")
  ELSE Peer([p EXCEPT !.pol = d.ba], cl, "pol")

\* part kinds: "A0" the genuine (only) part of block A; "junk" well-formed bytes and proof of nothing;
\* "big" more than BlockPartSizeBytes; "badproof" a proof whose leaf hash is not 32 bytes
RecvPart(s, p, cl, ch, m) ==
  IF m.kind = "badproof" THEN Stop(p, cl, "part-proof")
  ELSE IF m.kind = "big" THEN Stop(p, cl, "part-big")
  ELSE IF ch # DataCh THEN Ignore(p, cl, "chan")
  ELSE
    LET x == IF p.h = m.h /\ p.r = m.r THEN SetIdx(p.pbp, m.idx) ELSE [ba |-> p.pbp, panic |-> FALSE]
        core == IF m.kind = "A0" /\ m.idx = 0
                THEN [k |-> "part", h |-> m.h, r |-> m.r, bid |-> "A"]
                ELSE [k |-> "noop"]
    IN IF x.panic THEN Panic(p, cl, "setindex")
       ELSE Ret("ok", [p EXCEPT !.pbp = x.ba], cl, <<core>>, FALSE, FALSE, "part")

\* vote: type, h, r, idx (0-based index on the wire), who (validator whose key and address it carries; 0 = a
\* key outside the set), bid, sig ("ok" | "bad" | "none" | "huge": 500 kB of signature bytes - Vote.ValidateBasic has no
\* upper bound, as coded; it fails verification like any bad one and costs what the message size allows)
RecvVote(s, p, cl, ch, m) ==
  IF m.kind = "nil" THEN Stop(p, cl, "vote-nil")                                  \* Vote sub-message absent
  ELSE IF ~TypeOKVote(m.type) THEN Stop(p, cl, "type")
  ELSE IF ~(IsZeroBid(m.bid) \/ IsCompleteBid(m.bid)) THEN Stop(p, cl, "vote-blockid")
  ELSE IF m.sig = "none" THEN Stop(p, cl, "vote-nosig")
  ELSE IF ch # VoteCh THEN Ignore(p, cl, "chan")
  ELSE
    LET p1 == Ensure(Ensure(p, s.h, N), Pred(s.h), LastCommitSize(s))
        x  == SetHasVote(p1, m.h, m.r, m.type, m.idx)
        i  == IF m.idx < N THEN m.idx + 1 ELSE 0
        good == m.sig = "ok" /\ i # 0 /\ m.who = i
        core == [k |-> "vote", type |-> m.type, h |-> m.h, r |-> m.r, bid |-> BidName(m.bid), i |-> i, ok |-> good, peer |-> 9]
    IN IF x.panic THEN Panic(p, cl, "setindex")
       ELSE Ret("ok", x.p, cl, <<core>>, FALSE, FALSE, "vote")

RecvBits(s, p, cl, ch, m) ==
  LET d == DecodeBA(m.ba) IN
  IF ~d.ok THEN Stop(p, cl, "ba-malformed")
  ELSE IF ~TypeOKVote(m.type) THEN Stop(p, cl, "type")
  ELSE IF Size(d.ba) > MaxVotesCount THEN Stop(p, cl, "vsb-big")
  ELSE IF ch # BitsCh THEN Ignore(p, cl, "chan")
  ELSE
    LET our == IF s.h = m.h THEN OurVotes(s, cl, m.r, m.type, m.bid) ELSE NilBA
        f   == Which(p, m.h, m.r, m.type)
    IN IF f = "none" \/ p[f].nil THEN Ignore(p, cl, "vsb-noarray")
       ELSE IF our.nil THEN Peer([p EXCEPT ![f] = UpdateBA(@, d.ba)], cl, "vsb-update")
       ELSE LET sb == SubBA(p[f], our) IN
            IF sb.panic THEN Panic(p, cl, "sub")
            ELSE LET o == OrBA(sb.ba, d.ba) IN
                 IF o.panic THEN Panic(p, cl, "or")
                 ELSE Peer([p EXCEPT ![f] = UpdateBA(@, o.ba)], cl, "vsb-merge")

\* Receive: decodeMsg (unknown / absent oneof: error), then by type
Receive(s, p, cl, ch, m) ==
  CASE m.t = "unknown" -> Stop(p, cl, "decode")
    [] m.t = "nrs"   -> RecvNRS(s, p, cl, ch, m)
    [] m.t = "nvb"   -> RecvNVB(s, p, cl, ch, m)
    [] m.t = "hv"    -> RecvHasVote(s, p, cl, ch, m)
    [] m.t = "maj"   -> RecvMaj23(s, p, cl, ch, m)
    [] m.t = "prop"  -> RecvProposal(s, p, cl, ch, m)
    [] m.t = "pol"   -> RecvPOL(s, p, cl, ch, m)
    [] m.t = "part"  -> RecvPart(s, p, cl, ch, m)
    [] m.t = "vote"  -> RecvVote(s, p, cl, ch, m)
    [] m.t = "vsb"   -> RecvBits(s, p, cl, ch, m)

\* A message of a peer that HAS BEEN REMOVED (stopped for an error): MConnection.recvRoutine keeps handing over
\* packets that were already in its read buffer when the peer was stopped (it only notices the closed connection
\* at its next read from the socket), so Receive is called once more for a peer whose state RemovePeer has
\* replaced by struct{}{}.  Specified, and coded since "fix: ConsensusManager.Receive ignores messages of a peer
\* that has been removed": ignored.  (As found: `panic("Peer %v has no state")` - recovered by
\* MConnection._recover, i.e. a panic in Receive; the driver reports it under peer:cons:panic:receive-after-stop.)
ReceiveRemoved(s, p, cl, ch, m) == Ignore(p, cl, "removed")

\* receiveRoutine: handleMsg on the queued message.  [s, out, panic, hw]; hw labels the handler-level
\* rejections that matter for the property ("" otherwise)
HandleX(s, q) ==
  IF q = <<>> \/ q[1].k = "noop" THEN [s |-> s, out |-> <<>>, panic |-> FALSE]
  ELSE LET m == q[1] IN
       IF /\ "lastcommit-nil" \in Impl /\ m.k = "vote" /\ m.h = s.h - 1 /\ m.type = PrecommitT
          /\ s.step = NewHeight /\ ~s.hasLast
       THEN [s |-> s, out |-> <<>>, panic |-> TRUE]
       ELSE IF "polround-unchecked" \notin Impl /\ m.k = "proposal" /\ m.pol >= 1 /\ m.pol >= m.r
       THEN [s |-> s, out |-> <<>>, panic |-> FALSE]                    \* ErrInvalidProposalPOLRound
       ELSE LET c == HandleMsg(s, m, EnvOf) IN [s |-> c.s, out |-> c.out, panic |-> FALSE]
Handle(s, q) ==
  LET x == HandleX(s, q) IN
  [s |-> x.s, out |-> x.out, panic |-> x.panic,
   hw |-> IF q = <<>> \/ q[1].k = "noop" THEN ""
          ELSE IF q[1].k = "proposal" /\ q[1].pol >= 1 /\ q[1].pol >= q[1].r THEN "polround"
          ELSE IF q[1].k = "vote" /\ q[1].h = s.h - 1 /\ q[1].type = PrecommitT THEN "late-precommit"
          ELSE ""]

(****************************** the catalogue ******************************)
(* Messages a peer may send in the state (node s, peer state p): for every type a BASE message that is     *)
(* well formed for the node's (height, round) and one for the peer's claimed (height, round), and SWEEPS:    *)
(* each field in turn through its boundary classes, the others at base.  tag names the sweep (it becomes     *)
(* part of the signature of a disagreement).                                                                 *)
Around(x) == {Pred(x), x, Succ(x)}
Heights(s, p) == Around(s.h) \cup {p.h} \cup {0, Big, Max}
Rounds(s, p)  == Around(s.r) \cup {p.r} \cup {0, Big, Max} \cup (IF p.polR # 0 THEN {p.polR} ELSE {})
Bases(s, p)   == {<<s.h, s.r>>} \cup (IF p.h # 0 THEN {<<p.h, p.r>>} ELSE {})
Indices       == {0, N - 1, N, 64, Big, Max}
VTypes        == {0, PrevoteT, PrecommitT, 3}
Chans         == {StateCh, DataCh, VoteCh, BitsCh, 36}            \* 0x24: no such channel
HomeCh(t) == CASE t \in {"nrs", "nvb", "hv", "maj", "unknown"} -> StateCh
               [] t \in {"prop", "pol", "part"} -> DataCh
               [] t = "vote" -> VoteCh
               [] t = "vsb" -> BitsCh

\* wire bit arrays around the expected size n
WireBAs(n) ==
  { [w |-> NoWire, tag |-> "absent"], [w |-> Wire(0, 0, {}), tag |-> "empty"],
    [w |-> Wire(n, Words(n), {}), tag |-> "n"], [w |-> Wire(n, Words(n), {0}), tag |-> "n/0"],
    [w |-> Wire(n, Words(n), 0..(n - 1)), tag |-> "n/full"],
    [w |-> Wire(n + 1, Words(n + 1), {n}), tag |-> "n+1"],
    [w |-> Wire(n, 0, {}), tag |-> "n/noelems"], [w |-> Wire(n, Words(n) + 1, {0}), tag |-> "n/longelems"],
    [w |-> Wire(65, 1, {0}), tag |-> "65/1word"], [w |-> Wire(-1, 0, {}), tag |-> "neg"], [w |-> Wire(-1, 1, {0}), tag |-> "neg/1word"],
    [w |-> Wire(Big, 0, {}), tag |-> "big/noelems"], [w |-> Wire(Max, 1, {0}), tag |-> "max/1word"],
    [w |-> Wire(MaxVotesCount, Words(MaxVotesCount), {0}), tag |-> "10000"],
    [w |-> Wire(MaxVotesCount + 1, Words(MaxVotesCount + 1), {0}), tag |-> "10001"],
    [w |-> Wire(MaxBlockPartsCount, Words(MaxBlockPartsCount), {0}), tag |-> "1601"],
    [w |-> Wire(MaxBlockPartsCount + 1, Words(MaxBlockPartsCount + 1), {0}), tag |-> "1602"] }
   \cup (IF n > 1 THEN {[w |-> Wire(n - 1, Words(n - 1), {0}), tag |-> "n-1"]} ELSE {})

T(m, tag) == [m |-> m, tag |-> tag]
LcrFor(s, h) == IF h <= 1 THEN 0 ELSE IF h = s.h /\ s.hasLast THEN s.lastR ELSE 1

NRSs(s, p) ==
  LET base(h, r) == [t |-> "nrs", h |-> h, r |-> r, step |-> Propose, lcr |-> LcrFor(s, h), secs |-> 0] IN
     {T(base(h, r), "hr") : h \in Heights(s, p), r \in Rounds(s, p)}
  \cup UNION {{T([base(b[1], b[2]) EXCEPT !.step = st], "step") : st \in {0, NewHeight, Prevote, Commit, 9, 255, 256 + Propose, Max}}
              \cup {T([base(b[1], b[2]) EXCEPT !.lcr = l], "lcr") : l \in {0, 1, Max}}
              \cup {T([base(b[1], b[2]) EXCEPT !.secs = Max], "secs")} : b \in Bases(s, p)}

NVBs(s, p) ==
  LET base(h, r) == [t |-> "nvb", h |-> h, r |-> r, total |-> 1, phash |-> "A", ba |-> Wire(1, 1, {0}), commit |-> FALSE] IN
  UNION {   {T([base(b[1], b[2]) EXCEPT !.h = h], "h") : h \in Heights(s, p)}
       \cup {T([base(b[1], b[2]) EXCEPT !.r = r, !.commit = c], "r") : r \in Rounds(s, p), c \in BOOLEAN}
       \cup {T([base(b[1], b[2]) EXCEPT !.ba = w.w], "ba=" \o w.tag) : w \in WireBAs(1)}
       \cup {T([base(b[1], b[2]) EXCEPT !.total = w.w.bits, !.ba = w.w], "total=ba=" \o w.tag) : w \in {x \in WireBAs(1) : x.w.bits >= 0}}
       \cup {T([base(b[1], b[2]) EXCEPT !.total = tt], "total") : tt \in {0, 2, Big, Max}}
       \cup {T([base(b[1], b[2]) EXCEPT !.phash = "Z"], "phash")} : b \in Bases(s, p)}

HVs(s, p) ==
  LET base(h, r) == [t |-> "hv", h |-> h, r |-> r, type |-> PrevoteT, idx |-> 0] IN
  UNION {   {T([base(b[1], b[2]) EXCEPT !.h = h], "h") : h \in Heights(s, p)}
       \cup {T([base(b[1], b[2]) EXCEPT !.r = r, !.type = ty], "r") : r \in Rounds(s, p), ty \in {PrevoteT, PrecommitT}}
       \cup {T([base(b[1], b[2]) EXCEPT !.type = ty], "type") : ty \in VTypes}
       \cup {T([base(b[1], b[2]) EXCEPT !.idx = i, !.type = ty], "idx") : i \in Indices, ty \in {PrevoteT, PrecommitT}} : b \in Bases(s, p)}

Maj23s(s, p) ==
  LET base(h, r) == [t |-> "maj", h |-> h, r |-> r, type |-> PrevoteT, bid |-> ABidW] IN
  UNION {   {T([base(b[1], b[2]) EXCEPT !.h = h], "h") : h \in Heights(s, p)}
       \cup {T([base(b[1], b[2]) EXCEPT !.r = r, !.type = ty], "r") : r \in Rounds(s, p), ty \in {PrevoteT, PrecommitT}}
       \cup {T([base(b[1], b[2]) EXCEPT !.type = ty], "type") : ty \in VTypes}
       \cup {T([base(b[1], b[2]) EXCEPT !.bid = x.b], "bid=" \o x.tag) : x \in BidsW} : b \in Bases(s, p)}

Props(s, p) ==
  LET base(h, r) == [t |-> "prop", h |-> h, r |-> r, pol |-> 0, bid |-> ABidW, sig |-> "ok",
                     who |-> IF h = s.h /\ r \in 1..12 THEN Proposer(s, r) ELSE 1] IN
  UNION {   {T([base(b[1], b[2]) EXCEPT !.h = h], "h") : h \in Heights(s, p)}
       \cup {T([base(b[1], b[2]) EXCEPT !.r = r], "r") : r \in Rounds(s, p)}
       \cup {T([base(b[1], b[2]) EXCEPT !.pol = r], "pol") : r \in Rounds(s, p)}
       \cup {T([base(b[1], b[2]) EXCEPT !.bid = x.b, !.sig = sg], "bid=" \o x.tag \o "/" \o sg) : x \in BidsW, sg \in {"ok", "bad"}}
       \cup {T([base(b[1], b[2]) EXCEPT !.sig = sg], "sig=" \o sg) : sg \in {"bad", "none"}}
       \cup {T([base(b[1], b[2]) EXCEPT !.who = 1 + (base(b[1], b[2]).who % N)], "wrongproposer")} : b \in Bases(s, p)}

POLs(s, p) ==
  LET base(h, r) == [t |-> "pol", h |-> h, r |-> r, ba |-> Wire(N, Words(N), {0})] IN
  UNION {   {T([base(b[1], b[2]) EXCEPT !.h = h], "h") : h \in Heights(s, p)}
       \cup {T([base(b[1], b[2]) EXCEPT !.r = r], "r") : r \in Rounds(s, p)}
       \cup {T([base(b[1], IF p.polR # 0 THEN p.polR ELSE 0) EXCEPT !.ba = w.w], "ba=" \o w.tag) : w \in WireBAs(N)} : b \in Bases(s, p)}

Parts(s, p) ==
  LET base(h, r) == [t |-> "part", h |-> h, r |-> r, idx |-> 0, kind |-> "A0"] IN
  UNION {   {T([base(b[1], b[2]) EXCEPT !.h = h], "h") : h \in Heights(s, p)}
       \cup {T([base(b[1], b[2]) EXCEPT !.r = r], "r") : r \in Rounds(s, p)}
       \cup {T([base(b[1], b[2]) EXCEPT !.idx = i, !.kind = k], "idx/" \o k) : i \in {0, 1, 64, Big, Max}, k \in {"A0", "junk"}}
       \cup {T([base(b[1], b[2]) EXCEPT !.kind = k], "kind=" \o k) : k \in {"junk", "big", "badproof"}} : b \in Bases(s, p)}

Votes(s, p) ==
  LET base(h, r) == [t |-> "vote", kind |-> "vote", type |-> PrevoteT, h |-> h, r |-> r, idx |-> 0, who |-> 1, bid |-> ABidW, sig |-> "ok"] IN
  UNION {   {T([base(b[1], b[2]) EXCEPT !.h = h, !.type = ty], "h") : h \in Heights(s, p), ty \in {PrevoteT, PrecommitT}}
       \cup {T([base(b[1], b[2]) EXCEPT !.r = r, !.type = ty], "r") : r \in Rounds(s, p), ty \in {PrevoteT, PrecommitT}}
       \cup {T([base(b[1], b[2]) EXCEPT !.type = ty], "type") : ty \in VTypes}
       \cup {T([base(b[1], b[2]) EXCEPT !.idx = i, !.who = w], "idx") : i \in Indices \cup {2}, w \in {0, 1, 3}}
       \cup {T([base(b[1], b[2]) EXCEPT !.bid = x.b], "bid=" \o x.tag) : x \in {y \in BidsW : y.tag \in {"nil", "A", "Z", "hashonly", "partsonly", "totalmax"}}}
       \cup {T([base(b[1], b[2]) EXCEPT !.sig = sg], "sig=" \o sg) : sg \in {"bad", "none", "huge"}}
       \cup {T([base(b[1], b[2]) EXCEPT !.kind = "nil"], "nilvote")} : b \in Bases(s, p)}

VSBs(s, p) ==
  LET base(h, r) == [t |-> "vsb", h |-> h, r |-> r, type |-> PrevoteT, bid |-> ABidW, ba |-> Wire(N, Words(N), {0})] IN
  UNION {   {T([base(b[1], b[2]) EXCEPT !.h = h, !.type = ty], "h") : h \in Heights(s, p), ty \in {PrevoteT, PrecommitT}}
       \cup {T([base(b[1], b[2]) EXCEPT !.r = r, !.type = ty], "r") : r \in Rounds(s, p), ty \in {PrevoteT, PrecommitT}}
       \cup {T([base(b[1], b[2]) EXCEPT !.type = ty], "type") : ty \in VTypes}
       \cup {T([base(b[1], b[2]) EXCEPT !.bid = x.b], "bid=" \o x.tag) : x \in {y \in BidsW : y.tag \in {"nil", "A", "Z"}}}
       \cup {T([base(b[1], b[2]) EXCEPT !.ba = w.w, !.bid = x], "ba=" \o w.tag) : w \in WireBAs(N), x \in {ABidW, NilBidW}} : b \in Bases(s, p)}

Unknowns == {T([t |-> "unknown", kind |-> k], "kind=" \o k) : k \in {"empty", "field15", "garbage"}}

(* THE CATCH-UP ROUND BUDGET.  HeightVoteSet.AddVote creates the vote sets of a round it does not track when a    *)
(* peer's vote names it - BEFORE the vote is verified - and charges the peer (peerCatchupRounds) at that moment:  *)
(* at most CatchupLimit = 2 rounds per peer and height, a further vote for an untracked round is refused           *)
(* (ErrGotVoteFromUnwantedRound) and nothing is created.  KardiaNode!AddVote: `catchup` is appended in s0          *)
(* whatever v.ok is.  This is the bound on what ONE peer can make the node allocate with well-formed votes that    *)
(* fail verification - invisible to a per-message allocation bound (each round is small), visible in the STATE.    *)
(* VoteVec(s, n): the (n+1)-th vote of a directed vector: a vote of the current height for a FRESH round nobody     *)
(* tracks (distinct for every position), in every verification class.                                               *)
CatchupLimit == 2
FreshRound(s, n) == s.r + 3 + n
VoteVec(s, n) ==
  LET base(ty) == [t |-> "vote", kind |-> "vote", type |-> ty, h |-> s.h, r |-> FreshRound(s, n), idx |-> 0, who |-> 1, bid |-> NilBidW, sig |-> "ok"] IN
  { T(base(PrevoteT), "vec-valid"), T(base(PrecommitT), "vec-valid-pc"),
    T([base(PrevoteT) EXCEPT !.sig = "bad"], "vec-badsig"),
    T([base(PrevoteT) EXCEPT !.idx = N], "vec-wrongindex"),
    T([base(PrevoteT) EXCEPT !.who = 3], "vec-wrongaddr"),
    T([base(PrevoteT) EXCEPT !.who = 0], "vec-outsider") }

Catalogue(s, p) == NRSs(s, p) \cup NVBs(s, p) \cup HVs(s, p) \cup Maj23s(s, p) \cup Props(s, p) \cup POLs(s, p)
                   \cup Parts(s, p) \cup Votes(s, p) \cup VSBs(s, p) \cup Unknowns
\* every message on its own channel; the base messages also on every other channel
OnChannels(x) == IF x.tag \in {"type", "step", "kind=empty"} \/ (x.m.t = "vote" /\ x.tag = "sig=bad")
                 THEN Chans ELSE {HomeCh(x.m.t)}
=================================================================================
