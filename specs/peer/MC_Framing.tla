------------------------------- MODULE MC_Framing -------------------------------
(* Model for TLC: every sequence of up to Depth wire items; every transition is printed (the items so far and *)
(* the specified effect of the last one) and replayed on a real MConnection whose socket the driver owns     *)
(* (harness/peer TestFraming).                                                                                *)
EXTENDS Framing, Json

CONSTANTS Depth, Sizes,     \* Sizes: data lengths tried in a PacketMsg
          Secret            \* TRUE: the peer writes sealed SecretConnection frames (replayed by TestSecretFraming)

VARIABLES st, hist
vars == <<st, hist>>

Items == {[k |-> x] : x \in (IF Secret THEN {"ping", "pong", "close", "frame0", "frame0x200", "framebig", "framemax", "framebadmac", "frameshort"}
                                ELSE {"ping", "pong", "oversize", "nosum", "lenhuge", "badvarint", "garbage", "cut", "close"})}
         \cup {[k |-> "msg", ch |-> c, eof |-> e, n |-> n] : c \in Chans \cup {0} \cup {-x : x \in Chans}, e \in BOOLEAN, n \in Sizes}

Init == st = Fr0 /\ hist = <<>>
Next == /\ st.stop = "" /\ Len(hist) < Depth
        /\ \E it \in Items : LET r == Feed(st, it) IN st' = r.st /\ hist' = Append(hist, [it |-> it, eff |-> r.eff])
Spec == Init /\ [][Next]_vars
View == st

\* bounded memory: never more than the capacity is buffered
Bounded == \A c \in Chans : st.buf[c] <= Cap[c]
\* what is delivered fits the capacity
DeliveredFits == \A i \in 1..Len(hist) : hist[i].eff[1] = "deliver" => hist[i].eff[3] <= Cap[hist[i].eff[2]]

Dump == PrintT(ToJson([items |-> [i \in 1..Len(hist') |-> hist'[i].it], effs |-> [i \in 1..Len(hist') |-> hist'[i].eff]]))
=================================================================================
