---------------------------- MODULE PeerNodeStates ----------------------------
(***************************************************************************)
(* The NODE STATE CLASSES in which a peer's message is delivered (property  *)
(* C18 quantifies over "all node states: syncing, each consensus step, with *)
(* and without known peer state").                                          *)
(*                                                                         *)
(* A class is a SCRIPTED PREFIX of handler steps of KardiaNode.tla (the     *)
(* handler-level transcription of consensus/state.go): the specification    *)
(* computes the node state the prefix leads to with the very operators      *)
(* HandleMsg / HandleTimeout, and the Go driver (harness/peer/states.go)    *)
(* replays the same prefix on a REAL ConsensusState (real chain, stores,    *)
(* signatures) before it hands the node to the reactors.  The driver checks *)
(* the projection of the real node against Proj(ClassNode(k)) once per      *)
(* class, so a class is never entered on a wrong footing.                   *)
(*                                                                         *)
(* The prefix machinery (own message queue, ticker, bundles) is the one of  *)
(* specs/node/MC_NodeEnv.tla, reduced to what scripts need; the scripts are *)
(* those of specs/node/NodePrefixes.tla (validator 2 of four equal ones,    *)
(* proposer rotation 1,2,3,4 at height 1 and 2,3,4,1 at height 2) plus the  *)
(* PrevoteWait / PrecommitWait states and a non-validator.                  *)
(***************************************************************************)
EXTENDS KardiaNode

MyBid == "M"                              \* id of the block the node itself creates
EnvOf == [newBid |-> MyBid]

\* [s: node state, inq: the node's own messages not yet delivered, timer: what the ticker holds]
St0(me) == [s |-> InitNode(me, 1), inq |-> <<>>,
            timer |-> [h |-> 1, r |-> 1, step |-> NewHeight, armed |-> TRUE]]

IsMsgOut(o) == o.o \in {"vote", "proposal", "part"}
MsgOf(o) ==
  IF o.o = "vote" THEN [k |-> "vote", type |-> o.type, h |-> o.h, r |-> o.r, bid |-> o.bid, i |-> o.i, ok |-> TRUE, peer |-> 0]
  ELSE IF o.o = "proposal" THEN [k |-> "proposal", h |-> o.h, r |-> o.r, pol |-> o.pol, bid |-> o.bid, i |-> o.i, sigOK |-> TRUE]
  ELSE [k |-> "part", h |-> o.h, r |-> o.r, bid |-> o.bid]
RECURSIVE MsgsOf(_)
MsgsOf(out) == IF out = <<>> THEN <<>>
               ELSE (IF IsMsgOut(Head(out)) THEN <<MsgOf(Head(out))>> ELSE <<>>) \o MsgsOf(Tail(out))
\* consensus/ticker.go: a new timeout replaces the held one unless it is older
Older(n, ti) == \/ n.h < ti.h
                \/ n.h = ti.h /\ n.r < ti.r
                \/ n.h = ti.h /\ n.r = ti.r /\ ti.step > 0 /\ n.step <= ti.step
RECURSIVE LastTimer(_, _)
LastTimer(out, cur) == IF out = <<>> THEN cur
                       ELSE LastTimer(Tail(out), IF Head(out).o = "timeout" /\ ~Older(Head(out), cur)
                                                 THEN [h |-> Head(out).h, r |-> Head(out).r, step |-> Head(out).step, armed |-> TRUE]
                                                 ELSE cur)

VoteMsg(i, type, h, r, b) == [k |-> "vote", type |-> type, h |-> h, r |-> r, bid |-> b, i |-> i, ok |-> TRUE, peer |-> i]

\* the votes of all validators but `me` for (type, r, b), one after the other
RECURSIVE Bundle(_, _, _, _, _)
Bundle(c, todo, type, r, b) ==
  IF todo = {} THEN c
  ELSE LET i  == CHOOSE x \in todo : \A y \in todo : x <= y
           c1 == IF c.s.h # c.h0 THEN c
                 ELSE LET res == HandleMsg(c.s, VoteMsg(i, type, c.s.h, r, b), EnvOf)
                      IN [c EXCEPT !.s = res.s, !.out = @ \o res.out]
       IN Bundle(c1, todo \ {i}, type, r, b)

(* Script actions (data): <<"own">>  <<"fire">>  <<"prop", r, b, pol, signer>>  <<"part", b>>             *)
(* <<"vote", i, type, r, b>>  <<"bundle", type, r, b>>                                                       *)
Call(t, a) ==
  LET s == t.s
      one(res, inq0, timer0) == [s |-> res.s, out |-> res.out, inq0 |-> inq0, timer0 |-> timer0]
  IN CASE a[1] = "own"  -> IF t.inq = <<>> THEN Assert(FALSE, <<"script: no own message queued", a>>)
                           ELSE one(HandleMsg(s, Head(t.inq), EnvOf), Tail(t.inq), t.timer)
       [] a[1] = "fire" -> IF ~t.timer.armed THEN Assert(FALSE, <<"script: no timeout armed", a>>)
                           ELSE one(HandleTimeout(s, t.timer, EnvOf), t.inq, [t.timer EXCEPT !.armed = FALSE])
       [] a[1] = "prop" -> one(HandleMsg(s, [k |-> "proposal", h |-> s.h, r |-> a[2], pol |-> a[4], bid |-> a[3], i |-> a[5], sigOK |-> TRUE], EnvOf),
                               t.inq, t.timer)
       [] a[1] = "part" -> one(HandleMsg(s, [k |-> "part", h |-> s.h, r |-> s.r, bid |-> a[2]], EnvOf), t.inq, t.timer)
       [] a[1] = "vote" -> one(HandleMsg(s, VoteMsg(a[2], a[3], s.h, a[4], a[5]), EnvOf), t.inq, t.timer)
       [] a[1] = "bundle" -> LET c == Bundle([s |-> s, out |-> <<>>, h0 |-> s.h], Idx \ {s.me}, a[2], a[3], a[4])
                             IN [s |-> c.s, out |-> c.out, inq0 |-> t.inq, timer0 |-> t.timer]
Do(t, a) == LET c == Call(t, a)
            IN [s |-> c.s, inq |-> c.inq0 \o MsgsOf(c.out), timer |-> LastTimer(c.out, c.timer0)]
RECURSIVE RunPrefix(_, _)
RunPrefix(t, p) == IF p = <<>> THEN t ELSE RunPrefix(Do(t, Head(p)), Tail(p))

(****************************** the scripts ******************************)
F == <<"fire">>
O == <<"own">>
P_propose    == << F >>                                                   \* Propose, nothing received
P_proposal   == << F, <<"prop", 1, "A", 0, 1>> >>                         \* Propose, proposal known, parts incomplete
P_prevoted   == P_proposal \o << <<"part", "A">>, O >>                    \* Prevote (prevoted A)
P_pvwait     == P_prevoted \o << <<"vote", 1, 1, 1, "A">>, <<"vote", 3, 1, 1, "nil">> >>   \* +2/3 any, no majority: PrevoteWait
P_locked     == P_prevoted \o << <<"bundle", 1, 1, "A">>, O >>            \* Precommit: locked on A, own precommit delivered
P_pcwait     == P_locked \o << <<"vote", 1, 2, 1, "nil">>, <<"vote", 3, 2, 1, "nil">> >>   \* +2/3 any precommits: precommit timeout armed
P_commitNB   == << F, <<"bundle", 2, 1, "A">> >>                          \* Commit decided before the block is known
P_height2    == P_locked \o << <<"bundle", 2, 1, "A">> >>                 \* committed A at height 1, NewHeight of height 2
P_r2locked   == P_locked \o << <<"bundle", 2, 1, "nil">>, F >>            \* round 2 as the proposer, still locked on A (POL round 1)
P_r3waitPOL  == << F, F, O, <<"bundle", 2, 1, "nil">>, O, F, O, O, O, <<"bundle", 2, 2, "nil">>, O, F,
                   <<"prop", 3, "A", 2, 3>>, F, O >>                      \* round 3, proposal with POL round 2, block unknown

\* name, validator index of the node (0: not a validator), syncing, script
Classes == <<
  [n |-> "sync",       me |-> 2, sync |-> TRUE,  p |-> <<>>],
  [n |-> "newheight",  me |-> 2, sync |-> FALSE, p |-> <<>>],
  [n |-> "propose",    me |-> 2, sync |-> FALSE, p |-> P_propose],
  [n |-> "proposal",   me |-> 2, sync |-> FALSE, p |-> P_proposal],
  [n |-> "prevote",    me |-> 2, sync |-> FALSE, p |-> P_prevoted],
  [n |-> "prevotewait", me |-> 2, sync |-> FALSE, p |-> P_pvwait],
  [n |-> "precommit",  me |-> 2, sync |-> FALSE, p |-> P_locked],
  [n |-> "precommitwait", me |-> 2, sync |-> FALSE, p |-> P_pcwait],
  [n |-> "commit",     me |-> 2, sync |-> FALSE, p |-> P_commitNB],
  [n |-> "height2",    me |-> 2, sync |-> FALSE, p |-> P_height2],
  [n |-> "round2",     me |-> 2, sync |-> FALSE, p |-> P_r2locked],
  [n |-> "round3pol",  me |-> 2, sync |-> FALSE, p |-> P_r3waitPOL],
  [n |-> "nonval",     me |-> 0, sync |-> FALSE, p |-> P_proposal] >>

ClassSt(k) == RunPrefix(St0(Classes[k].me), Classes[k].p)

\* projection of the node compared with the real node (the one of MC_NodeEnv)
Proj(t) ==
  [ h |-> t.h, r |-> t.r, step |-> t.step, hasProp |-> t.proposal.has, pol |-> t.proposal.pol,
    pblock |-> t.pblock, pparts |-> IF t.pparts.has THEN t.pparts.bid ELSE NoB,
    lockedR |-> t.lockedR, lockedB |-> t.lockedB, validR |-> t.validR, validB |-> t.validB,
    commitR |-> t.commitR, ttp |-> t.ttp,
    rounds |-> t.rounds,
    votes |-> [r \in t.rounds |-> t.votes[r]],
    last |-> t.lastCommit ]
=================================================================================
