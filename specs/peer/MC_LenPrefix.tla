------------------------------ MODULE MC_LenPrefix ------------------------------
(* Every (length-prefix class, consumer) pair with the specified outcome, printed for the replay against the real *)
(* readers (harness/peer TestLenPrefix).                                                                           *)
EXTENDS LenPrefix, Json, TLC
VARIABLES i, c, out
vars == <<i, c, out>>
Init == i \in 1..Len(Prefixes) /\ c \in Consumers /\ out = "pending"
Next == out = "pending" /\ out' = Outcome(Prefixes[i].rel) /\ UNCHANGED <<i, c>>
Spec == Init /\ [][Next]_vars
\* the property: a prefix is followed by its body or refused - nothing else (no panic), and only a fitting one is followed
NoPanic == out \in {"pending", "body", "refused"}
OnlyFitting == out = "body" => Prefixes[i].rel = "fits"
Dump == PrintT(ToJson([n |-> Prefixes[i].n, b |-> Prefixes[i].b, rel |-> Prefixes[i].rel, c |-> c, out |-> out']))
=================================================================================
