----------------------------- MODULE MC_PeerMsgs -----------------------------
(***************************************************************************)
(* Model for TLC: ONE peer sends up to Depth messages of the catalogue of   *)
(* PeerMsgs.tla to a node that is in one of the state classes of            *)
(* PeerNodeStates.tla; the peer state starts unknown (PRS0) and becomes      *)
(* known through the peer's own NewRoundStep / Proposal / ... messages, so   *)
(* "with and without known peer state" and every combination of claimed      *)
(* peer position and node position inside the bounds is covered.             *)
(* Every message is followed by the receiveRoutine step on what Receive has  *)
(* queued (not in the syncing class: there the consensus state is not        *)
(* running and the message stays queued).                                     *)
(*                                                                          *)
(* Invariants = property C18 on the consensus channels (they hold with       *)
(* Impl = {}; with the deviations switched on TLC produces the design-level  *)
(* counterexamples the Go driver reproduces on the real reactor).            *)
(* hist is hidden by the VIEW; Dump prints every transition: the steps that  *)
(* lead to the pre-state and the last step with everything the real reactor   *)
(* is compared against.                                                       *)
(***************************************************************************)
EXTENDS PeerMsgs, Json

CONSTANTS Depth,        \* messages per behaviour
          ClassSel,     \* indices of the state classes explored
          Deep,         \* classes explored beyond depth 1 (the others stop after one message)
          PeerInits,    \* subset of {"unknown", "known"}: peer state at the start (see Preamble)
          Cat,          \* "full": the catalogue of PeerMsgs; "votes": the directed vote vectors VoteVec (one peer, up to
                        \* Depth votes for pairwise distinct untracked rounds, every verification class at every position)
          DeepNode      \* classes in which exploration also continues after a message that changed the ROUND state
                        \* (elsewhere only the peer state and the claims evolve: the replay can then reuse its node)

VARIABLES k,      \* state class (index into Classes)
          s,      \* node state (KardiaNode)
          p,      \* the peer's PeerRoundState
          cl,     \* the peer's +2/3 claims accepted by the node's vote sets
          pend,   \* messages left on cs.peerMsgQueue (syncing class)
          dead,   \* the peer has been stopped
          bad,    \* a panic or a huge allocation happened (deviations only)
          hist,   \* the steps so far, each with the specified outcome (hidden by the VIEW)
          n0      \* length of the preamble in hist
vars == <<k, s, p, cl, pend, dead, bad, hist, n0>>

\* the whole model state as one record (so that Init can run the preamble through the same operator as Next)
St(s_, p_, cl_, pend_, dead_, bad_, hist_) == [s |-> s_, p |-> p_, cl |-> cl_, pend |-> pend_, dead |-> dead_, bad |-> bad_, hist |-> hist_]

\* one message: Receive, then handleMsg on what was queued
Eff(c, t, x, ch) ==
  LET rr == Receive(t.s, t.p, t.cl, ch, x.m)
      hd == IF Classes[c].sync THEN [s |-> t.s, out |-> <<>>, panic |-> FALSE, hw |-> ""] ELSE Handle(t.s, rr.q)
  IN [rr |-> rr, hd |-> hd]

\* what the driver compares after the step (compact: a bit array is <<>> (nil) or <<bits, elems, ones>>;
\* the peer state a tuple in the field order of cstypes.PeerRoundState; both only when changed)
CBA(a) == IF a.nil THEN <<>> ELSE <<a.bits, a.elems, a.ones>>
CPRS(q) == <<q.h, q.r, q.step, q.prop, q.pbph.total, q.pbph.hash, CBA(q.pbp), q.polR, CBA(q.pol),
             CBA(q.pv), CBA(q.pc), q.lcR, CBA(q.lc), q.ccR, CBA(q.cc)>>
Rec(t, x, ch, e) ==
  [ m |-> x.m, ch |-> ch, tag |-> x.tag, res |-> e.rr.res, why |-> e.rr.why,
    q |-> IF e.rr.q = <<>> THEN "none" ELSE e.rr.q[1].k, reply |-> e.rr.reply, huge |-> e.rr.huge,
    hpanic |-> e.hd.panic, hw |-> e.hd.hw,
    p |-> IF e.rr.p # t.p THEN <<CPRS(e.rr.p)>> ELSE <<>>,
    ncl |-> Cardinality(e.rr.cl),
    o |-> IF e.hd.s # t.s THEN <<Proj(e.hd.s)>> ELSE <<>>,
    out |-> SelectSeq(e.hd.out, LAMBDA o : o.o # "timeout") ]

After(c, t, x, ch) ==
  LET e == Eff(c, t, x, ch) IN
  St(e.hd.s, e.rr.p, e.rr.cl,
     IF Classes[c].sync /\ e.rr.q # <<>> THEN t.pend + 1 ELSE t.pend,
     e.rr.res = "stop",
     IF e.rr.res = "panic" THEN "panic:" \o e.rr.why ELSE IF e.hd.panic THEN "handler-panic" ELSE IF e.rr.huge THEN "huge" ELSE "",
     Append(t.hist, Rec(t, x, ch, e)))

\* PEER STATE KNOWN: the peer has announced the node's own height/round (NewRoundStep) and has sent one vote
\* (a prevote with a broken signature: Receive allocates the vote bit arrays for the peer - EnsureVoteBitArrays -
\* and marks validator 0's prevote; the consensus state rejects the vote)
Preamble(t) ==
  << [m |-> [t |-> "nrs", h |-> t.s.h, r |-> t.s.r, step |-> Propose, lcr |-> LcrFor(t.s, t.s.h), secs |-> 0], tag |-> "preamble", ch |-> StateCh],
     [m |-> [t |-> "vote", kind |-> "vote", type |-> PrevoteT, h |-> t.s.h, r |-> t.s.r, idx |-> 0, who |-> 1, bid |-> ABidW, sig |-> "bad"],
      tag |-> "preamble", ch |-> VoteCh] >>
Known(c, t) == LET pr == Preamble(t)
                   t1 == After(c, t, pr[1], pr[1].ch)
               IN After(c, t1, pr[2], pr[2].ch)

Init == /\ k \in ClassSel
        /\ \E pi \in PeerInits :
             LET t0 == St(ClassSt(k).s, PRS0, {}, 0, FALSE, "", <<>>)
                 t  == IF pi = "known" THEN Known(k, t0) ELSE t0
             IN /\ s = t.s /\ p = t.p /\ cl = t.cl /\ pend = t.pend /\ dead = t.dead /\ bad = t.bad /\ hist = t.hist
        /\ n0 = Len(hist)

Step(x, ch) ==
  LET t == After(k, St(s, p, cl, pend, dead, bad, hist), x, ch) IN
  /\ s' = t.s /\ p' = t.p /\ cl' = t.cl /\ pend' = t.pend /\ dead' = t.dead /\ bad' = t.bad /\ hist' = t.hist
  /\ UNCHANGED <<k, n0>>

Next == /\ ~dead /\ bad = ""
        /\ Len(hist) - n0 < (IF k \in Deep THEN Depth ELSE 1)
        /\ (k \in DeepNode \/ s = ClassSt(k).s)
        /\ \E x \in (IF Cat = "votes" THEN VoteVec(s, Len(hist) - n0) ELSE Catalogue(s, p)) : \E ch \in OnChannels(x) :
              \* Votes are not explored once a +2/3 claim of this peer is on record: with a claim for block b recorded,
              \* a vote for b that CONFLICTS with the validator's first vote is tallied for b all the same
              \* (VoteSet.tla conflict_added, property C02) - KardiaNode's one-vote-per-validator sets do not
              \* represent that, and it is no concern of this property.
              /\ (cl = {} \/ x.m.t # "vote" \/ Cat = "votes")
              /\ Step(x, ch)
Spec == Init /\ [][Next]_vars

\* (vote vectors: the position is part of the state, so that vectors longer than the catch-up budget are generated)
View == <<k, s, p, cl, pend, dead, bad, n0, IF Cat = "votes" THEN Len(hist) ELSE 0>>

(****************************** property C18 ******************************)
NoPanic      == bad = ""                     \* Receive and handleMsg return normally, allocation bounded
PeerStateOK  == PRSWellFormed(p)             \* every bit array of the peer state is structurally sound
                                             \* (so Sub/Not/Copy/PickRandom/SetIndex of the gossip routines are total)
\* the node can gossip its own state: gossipDataRoutine announces a proposal's POL as
\* ProposalPOLMessage{rs.Votes.Prevotes(rs.Proposal.POLRound).BitArray()} - "rs.Proposal was validated, so ... we
\* definitely have rs.Votes.Prevotes(rs.Proposal.POLRound)"; a POL round without vote set makes MsgToProto
\* dereference nil in a goroutine nobody recovers
OwnStateGossipable == (s.proposal.has /\ s.proposal.pol >= 1) => s.proposal.pol \in s.rounds
\* one peer makes the node track at most CatchupLimit rounds beyond those the node tracks of its own accord
\* (single-peer model: everything beyond the class state's rounds was created for this peer)
CatchupBounded == Cardinality(s.rounds \ ClassSt(k).s.rounds) <= CatchupLimit
\* the round state changes only by handleMsg on a queued, well-formed core - never in the syncing class
RoundStateByCoreOnly ==
  [][s' # s => /\ ~Classes[k].sync
               /\ hist'[Len(hist')].q \in {"vote", "proposal", "part"}
               /\ hist'[Len(hist')].res = "ok"]_vars
\* a stopped peer is not listened to any more; nothing but the peer's own state and claims is touched by
\* a message that is not queued
RejectedIsInert ==
  [][hist'[Len(hist')].res = "stop" => (s' = s /\ p' = p /\ cl' = cl)]_vars
\* sanity of the class scripts: the states they are named after
ClassesOK ==
  /\ ClassSt(2).s.step = NewHeight /\ ClassSt(3).s.step = Propose /\ ~ClassSt(3).s.proposal.has
  /\ ClassSt(4).s.proposal.has /\ ClassSt(4).s.pblock = NoB /\ ClassSt(5).s.step = Prevote
  /\ ClassSt(6).s.step = PrevoteWait /\ ClassSt(7).s.step = Precommit /\ ClassSt(7).s.lockedB = "A"
  /\ ClassSt(8).s.ttp /\ ClassSt(9).s.step = Commit /\ ClassSt(9).s.pblock = NoB
  /\ ClassSt(10).s.h = 2 /\ ClassSt(10).s.step = NewHeight /\ ClassSt(10).s.hasLast
  /\ ClassSt(11).s.r = 2 /\ ClassSt(11).s.lockedB = "A" /\ ClassSt(12).s.r = 3 /\ ClassSt(12).s.proposal.pol = 2
  /\ ClassSt(13).s.me = 0 /\ ClassSt(13).s.proposal.has

\* ---- dumps ----
\* the class table for the driver: script and expected projection of the node
ClassTable == [i \in 1..Len(Classes) |-> [n |-> Classes[i].n, me |-> Classes[i].me, sync |-> Classes[i].sync,
                                           p |-> Classes[i].p, o |-> Proj(ClassSt(i).s),
                                           inq |-> Len(ClassSt(i).inq), timer |-> ClassSt(i).timer]]
ASSUME PrintT(ToJson([classes |-> ClassTable, catchup |-> CatchupLimit]))

\* pre: the earlier messages with what the driver needs to notice that the real node has already left the
\* specified path there (st: peer stopped, pc / sc: peer state / round state changed)
Dump == PrintT(ToJson([k |-> k, pre |-> [i \in 1..Len(hist) |-> [m |-> hist[i].m, ch |-> hist[i].ch, st |-> hist[i].res = "stop",
                                                                  pc |-> hist[i].p # <<>>, sc |-> hist[i].o # <<>>]],
                       last |-> hist'[Len(hist')]]))
=================================================================================
