------------------------------- MODULE LenPrefix -------------------------------
(***************************************************************************)
(* The LENGTH PREFIX of every delimited protobuf message a peer sends:      *)
(* lib/protoio/reader.go varintReader.ReadMsg = binary.ReadUvarint, then     *)
(* `length := int(length64); if length < 0 || length > maxSize -> error`,    *)
(* then a buffer of `length` bytes.  The same reader frames the MConnection  *)
(* packets, the NodeInfo handshake (transport.handshake: its reading         *)
(* goroutine has no recover - a panic there ends the process) and the        *)
(* secret connection's auth message.                                         *)
(* A prefix is a BYTE STRING (TLC integers stop at 2^31-1; the values that   *)
(* matter sit at 2^63 and 2^64), classified by how its value relates to the  *)
(* consumer's maximum:                                                       *)
(*   rel = "fits"   value <= max: the reader goes on to read the body        *)
(*   rel = "above"  max < value < 2^64: REFUSED with an error - in           *)
(*                  particular the values >= 2^63, which int() turns         *)
(*                  negative: without the `length < 0` half of the test they *)
(*                  pass `length > maxSize` and r.buf[:length] panics        *)
(*   rel = "bad"    not a uvarint64 (10th byte > 01, 11 bytes, truncated):   *)
(*                  refused by binary.ReadUvarint / EOF                      *)
(* "max" and "max+1" are computed by the driver from the consumer's maximum. *)
(* Specified for every class and every consumer: Outcome(rel); never a       *)
(* panic; nothing allocated beyond max.                                      *)
(***************************************************************************)
EXTENDS Integers, Sequences

F(n) == [i \in 1..n |-> 255]           \* n bytes ff
Z(n) == [i \in 1..n |-> 128]           \* n bytes 80
Prefixes == <<
  [n |-> "0",        b |-> <<0>>,                    rel |-> "fits"],
  [n |-> "1",        b |-> <<1>>,                    rel |-> "fits"],
  [n |-> "max",      b |-> <<>>,                     rel |-> "fits"],
  [n |-> "max+1",    b |-> <<>>,                     rel |-> "above"],
  [n |-> "2^31-1",   b |-> F(4) \o <<7>>,            rel |-> "above"],
  [n |-> "2^31",     b |-> Z(4) \o <<8>>,            rel |-> "above"],
  [n |-> "2^32",     b |-> Z(4) \o <<16>>,           rel |-> "above"],
  [n |-> "2^63-1",   b |-> F(8) \o <<127>>,          rel |-> "above"],
  [n |-> "2^63",     b |-> Z(9) \o <<1>>,            rel |-> "above"],
  [n |-> "2^63+1",   b |-> <<129>> \o Z(8) \o <<1>>, rel |-> "above"],
  [n |-> "2^64-1",   b |-> F(9) \o <<1>>,            rel |-> "above"],
  [n |-> "10-bytes-last-02", b |-> F(9) \o <<2>>,    rel |-> "bad"],
  [n |-> "10-bytes-last-7f", b |-> Z(9) \o <<127>>,  rel |-> "bad"],
  [n |-> "11-bytes", b |-> F(10) \o <<1>>,           rel |-> "bad"],
  [n |-> "truncated", b |-> F(2),                    rel |-> "bad"] >>
Outcome(rel) == IF rel = "fits" THEN "body" ELSE "refused"
Consumers == {"reader", "nodeinfo-handshake", "mconnection", "secret-auth"}
=================================================================================
