----------------------------- MODULE PeerMsgsTrace -----------------------------
(***************************************************************************)
(* Trace validation (code -> specification) for the byte-level mutations:   *)
(* the driver (harness/peer TestConsMutants) mutates the wire bytes of       *)
(* messages the specification accepts, delivers every mutant to the REAL     *)
(* reactor of a real node in a state class, and logs one event for each      *)
(* mutant that the real decoder took AND that had an effect (peer state or   *)
(* round state changed):                                                     *)
(*    [k, sync, ch, m, p0, p1, stopped, sc, o]                                *)
(* k = state class, ch = channel, m = the ABSTRACTION (harness/peer           *)
(* abstract.go) of the message the real decoder returned, p0 / p1 = the real  *)
(* peer state before / after (tuple form CPRS of MC_PeerMsgs), sc = the real  *)
(* round state changed, o = its projection afterwards.                        *)
(* Every event must be EXPLAINED by Receive / Handle of PeerMsgs.tla:        *)
(* evaluated on (class state, p0, m) they must accept the message and yield  *)
(* exactly p1 and o.  Mutants on which the real Receive panicked or left an  *)
(* unsound peer state are logged too (field bad): they are never explained;  *)
(* the specification's verdict on them names the finding.                    *)
(* An event that is not explained is printed                                 *)
(* (UNEXPLAINED ...) and counted; acceptance = all lines consumed and none   *)
(* unexplained.                                                              *)
(***************************************************************************)
EXTENDS PeerMsgs, Json

Trace == ndJsonDeserialize("trace.ndjson")

VARIABLES l, nbad
tvars == <<l, nbad>>

ToSet(q) == {q[i] : i \in DOMAIN q}
\* JSON -> model values
BAofJ(j)  == IF Len(j) = 0 THEN NilBA ELSE BA(j[1], j[2], ToSet(j[3]))
WireOfJ(j) == [present |-> j.present, bits |-> j.bits, elems |-> j.elems, ones |-> ToSet(j.ones)]
PRSofJ(j) == [h |-> j[1], r |-> j[2], step |-> j[3], prop |-> j[4], pbph |-> [total |-> j[5], hash |-> j[6]], pbp |-> BAofJ(j[7]),
              polR |-> j[8], pol |-> BAofJ(j[9]), pv |-> BAofJ(j[10]), pc |-> BAofJ(j[11]),
              lcR |-> j[12], lc |-> BAofJ(j[13]), ccR |-> j[14], cc |-> BAofJ(j[15])]
MsgOfJ(m) == IF "ba" \in DOMAIN m THEN [m EXCEPT !.ba = WireOfJ(m.ba)] ELSE m

\* the part of the node projection the driver logs
Red(t) == [h |-> t.h, r |-> t.r, step |-> t.step, hasProp |-> t.proposal.has, pol |-> t.proposal.pol, pblock |-> t.pblock,
           pparts |-> IF t.pparts.has THEN t.pparts.bid ELSE NoB, lockedB |-> t.lockedB, validB |-> t.validB, rounds |-> t.rounds]
RedJ(o) == [h |-> o.h, r |-> o.r, step |-> o.step, hasProp |-> o.hasProp, pol |-> o.pol, pblock |-> o.pblock,
            pparts |-> o.pparts, lockedB |-> o.lockedB, validB |-> o.validB, rounds |-> ToSet(o.rounds)]

Explain(e) ==
  LET s  == ClassSt(e.k).s
      p0 == PRSofJ(e.p0)
      rr == Receive(s, p0, {}, e.ch, MsgOfJ(e.m))
      hd == IF e.sync THEN [s |-> s, out |-> <<>>, panic |-> FALSE, hw |-> ""] ELSE Handle(s, rr.q)
  IN [ok |-> /\ "bad" \notin DOMAIN e                  \* a panic / an unsound peer state is never explained
             /\ rr.res = "ok" /\ ~e.stopped
             /\ rr.p = PRSofJ(e.p1)
             /\ (hd.s # s) = e.sc
             /\ (e.sc => Red(hd.s) = RedJ(e.o)),
      res |-> rr.res, why |-> rr.why, hw |-> hd.hw,
      pdiff |-> {f \in DOMAIN rr.p : rr.p[f] # PRSofJ(e.p1)[f]},
      sc |-> hd.s # s]

Init == l = 1 /\ nbad = 0
Next == /\ l <= Len(Trace)
        /\ LET x == Explain(Trace[l]) IN
             /\ nbad' = IF x.ok THEN nbad ELSE nbad + 1
             /\ IF x.ok THEN TRUE
                ELSE PrintT(ToJson([unexplained |-> l, res |-> x.res, why |-> x.why, hw |-> x.hw, pdiff |-> x.pdiff, sc |-> x.sc]))
        /\ l' = l + 1
Spec == Init /\ [][Next]_tvars
Consumed == TLCGet("stats").diameter - 1 = Len(Trace)
=================================================================================
