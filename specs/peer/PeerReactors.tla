----------------------------- MODULE PeerReactors -----------------------------
(***************************************************************************)
(* The small reactors (and the front of block sync): what Receive does with *)
(* a message, by SEMANTIC                                                    *)
(* CLASS of the message and state of the reactor.  Transcriptions of         *)
(*   mainchain/tx_pool/reactor.go  Reactor.Receive -> decodeMsg (msgs.go) -> *)
(*       TxFetcher.Enqueue / Notify -> TxPool.AddRemotes (validateTx)        *)
(*   types/evidence/reactor.go     Reactor.Receive -> decodeMsg ->           *)
(*       Pool.AddEvidence (verify.go)                                        *)
(*   lib/p2p/pex/pex_reactor.go    Reactor.Receive -> decodeMsg ->           *)
(*       receiveRequest / ReceiveAddrs -> addrBook.AddAddress                *)
(* Each Recv* returns [res, eff, st]: res = "ok" (Receive returns, peer     *)
(* kept) or "stop" (Switch.StopPeerForError(src)); eff = what else happens   *)
(* (counted in observable units: transactions pooled, evidence pooled,       *)
(* addresses added, a reply sent); st = the reactor state afterwards.        *)
(* Property C18 for these channels: res is never "panic" / "hang", the       *)
(* effect of a rejected message is nil, at most the sender is stopped.       *)
(*                                                                         *)
(* NAMED DEVIATION "tx-nofetcher" (constant ImplR; {} = the specification    *)
(* and the code since "fix: the tx reactor starts its fetcher also when      *)
(* broadcasting is disabled"): AS FOUND, with TxPoolConfig.Broadcast = false *)
(* Reactor.OnStart returned before txFetcher.Start(), so TxFetcher.Enqueue / *)
(* Notify / Drop blocked forever on their unbuffered channels: Receive of a  *)
(* transaction message never returned, and neither did RemovePeer            *)
(* (Switch.stopAndRemovePeer) for ANY peer.  Specified: Receive returns and  *)
(* pools what it is given, broadcasting or not (Broadcast = false only means *)
(* that the node does not announce / send its own pool).  A companion run of *)
(* checks/C18.py switches the flag on and requires Returns to be violated.   *)
(***************************************************************************)
EXTENDS Integers, Sequences, FiniteSets, TLC

CONSTANT ImplR     \* named deviations switched on; {} = as specified

(****************************** transaction pool ******************************)
(* A transaction on the wire, by class:                                      *)
(*  "good"     signed by the funded account, next nonce, enough gas          *)
(*  "good2"    the same account's following nonce                            *)
(*  "future"   the same account, nonce + 5 (queued, not pending)             *)
(*  "badsig"   well-formed RLP, signature values that recover no sender      *)
(*  "nofunds"  signed by an account without balance                          *)
(*  "lowgas"   gas below the intrinsic gas                                   *)
(*  "overgas"  gas above the block gas limit                                 *)
(*  "huge"     payload above txMaxSize (128 kB)                              *)
(*  "garbage"  bytes that are not the RLP of a transaction                   *)
(*  "empty"    zero bytes                                                    *)
(*  "trailing" a valid transaction followed by surplus bytes                 *)
TxKinds    == {"good", "good2", "future", "badsig", "nofunds", "lowgas", "overgas", "huge", "garbage", "empty", "trailing"}
TxDecodes(k) == k \notin {"garbage", "empty", "trailing"}            \* rlp.DecodeBytes succeeds
\* TxPool.add on a remote transaction in pool state `have` (kinds already pooled): pooled or rejected
TxPooled(k, have) == /\ k \in {"good", "good2", "future"} /\ k \notin have

\* tx reactor state: reg (peer registered with the reactor - AddPeer), fetch (TxPoolConfig.Broadcast; as found the
\* fetcher loop only ran when it was set), have (transaction kinds in the pool)
\* messages: [t |-> "txs" | "pooled", txs |-> sequence of kinds]
\*           [t |-> "hashes" | "request", n |-> number of hashes, known |-> how many of them name pooled transactions]
\*           [t |-> "unknown"]  (no / unknown oneof member, undecodable bytes)
RECURSIVE PoolAll(_, _)
PoolAll(txs, have) == IF txs = <<>> THEN have
                      ELSE PoolAll(Tail(txs), IF TxPooled(Head(txs), have) THEN have \cup {Head(txs)} ELSE have)
RecvTx(st, m) ==
  LET R(res, eff, s2) == [res |-> res, eff |-> eff, st |-> s2] IN
  IF m.t = "unknown" THEN R("stop", "none", st)
  ELSE IF m.t \in {"txs", "pooled"} /\ Len(m.txs) = 0 THEN R("stop", "none", st)           \* "empty TxsMessage"
  ELSE IF m.t \in {"txs", "pooled"} /\ \E i \in 1..Len(m.txs) : ~TxDecodes(m.txs[i]) THEN R("stop", "none", st)
  ELSE IF m.t \in {"hashes", "request"} /\ m.n = 0 THEN R("stop", "none", st)
  ELSE IF ~st.reg THEN R("ok", "none", st)                                                   \* unknown peer: dropped silently
  ELSE IF m.t \in {"txs", "pooled"} THEN
         IF ~st.fetch /\ "tx-nofetcher" \in ImplR THEN R("hang", "none", st)
         ELSE LET h2 == PoolAll(m.txs, st.have) IN R("ok", "none", [st EXCEPT !.have = h2])
  ELSE IF m.t = "hashes" THEN
         \* TxFetcher.Notify: hashes of unknown transactions are handed to the loop (which fetches them later);
         \* with nothing unknown Notify returns at once
         IF m.known = m.n THEN R("ok", "none", st)
         ELSE IF ~st.fetch /\ "tx-nofetcher" \in ImplR THEN R("hang", "none", st)
         ELSE R("ok", "none", st)
  ELSE \* "request": the pooled ones among the requested hashes are sent back in one PooledTransactions message
       IF m.known > 0 THEN R("ok", "reply", st) ELSE R("ok", "none", st)

(****************************** evidence ******************************)
(* evidence classes (one DuplicateVoteEvidence each unless said otherwise):   *)
(*  "valid"      two correctly signed conflicting prevotes of validator 3 at  *)
(*               a committed height, evidence time = that block's time        *)
(*  "badsig"     the same with one signature broken                           *)
(*  "badtime"    valid votes, wrong evidence time                             *)
(*  "future"     for a height the node has no block of                        *)
(*  "height0"    for height 0                                                 *)
(*  "nonval"     signed by a key outside the validator set                    *)
(*  "sameblock"  both votes for the same block (fails ValidateBasic: order)    *)
(*  "unordered"  the two votes in the wrong order (ValidateBasic)              *)
(*  "nilvote"    VoteA absent                                                  *)
(*  "badvote"    VoteA with an invalid type                                    *)
(*  "badpower"   wrong ValidatorPower / TotalVotingPower                       *)
(*  "nosum"      an Evidence message without a member                          *)
(*  "bigsig"     oversized: VoteA carries 600 kB of signature bytes            *)
EvKinds == {"valid", "badsig", "badtime", "future", "height0", "nonval", "sameblock", "unordered", "nilvote", "badvote", "badpower", "nosum", "bigsig"}
EvDecodes(k) == k \notin {"sameblock", "unordered", "nilvote", "badvote", "nosum"}      \* EvidenceFromProto + ValidateBasic
\* Pool.verify for evidence that decodes, on a node whose last block height is `lh` (valid evidence is for height 1)
EvVerifies(k, lh) == k = "valid" /\ lh >= 1
\* evidence state: lh (last block height), pending (BOOLEAN: the valid evidence is already pending)
\* message: [t |-> "list", evs |-> sequence of kinds] | [t |-> "unknown"]
RECURSIVE EvAll(_, _, _)
\* the reactor adds the items in order and stops at the first invalid one
EvAll(evs, st, added) ==
  IF evs = <<>> THEN [res |-> "ok", eff |-> added, st |-> st]
  ELSE LET k == Head(evs) IN
       IF k = "valid" /\ st.pending THEN EvAll(Tail(evs), st, added)                           \* already pending: ignored
       ELSE IF EvVerifies(k, st.lh) THEN EvAll(Tail(evs), [st EXCEPT !.pending = TRUE], added + 1)
       ELSE [res |-> "stop", eff |-> added, st |-> st]                                          \* ErrEvidenceInvalid: punish peer
RecvEv(st, m) ==
  IF m.t = "unknown" THEN [res |-> "stop", eff |-> 0, st |-> st]
  ELSE IF \E i \in 1..Len(m.evs) : ~EvDecodes(m.evs[i]) THEN [res |-> "stop", eff |-> 0, st |-> st]   \* nothing is added
  ELSE EvAll(m.evs, st, 0)

(****************************** peer exchange ******************************)
(* pex state for one peer: reqs = PexRequests received so far (0, 1, 2+: the first is free, the second starts   *)
(* the clock, a third within ensurePeersPeriod/3 = 10 s is "too soon"), asked = we have an unanswered request    *)
(* out to this peer, seed = SeedMode (respond once to an inbound peer and disconnect), inbound                    *)
(* address classes: "good" routable, "self" the node's own, "private" RFC1918, "badip" unparsable IP string,     *)
(* "badport" port >= 65536, "badid" an ID that is not 40 hex characters, "dup" the same good address again       *)
AddrKinds == {"good", "good2", "self", "private", "badip", "badport", "badid"}    \* plus "many": 300 fresh routable addresses at once
AddrDecodes(k) == k \notin {"badip", "badport"}                 \* p2p.NetAddressesFromProto
AddrAdded(k, book) == k \in {"good", "good2", "many"} /\ k \notin book   \* addrBook.AddAddress (strict routability)
RECURSIVE BookAll(_, _)
BookAll(as, book) == IF as = <<>> THEN book
                     ELSE BookAll(Tail(as), IF AddrAdded(Head(as), book) THEN book \cup {Head(as)} ELSE book)
RecvPex(st, m) ==
  LET R(res, eff, s2) == [res |-> res, eff |-> eff, st |-> s2] IN
  IF m.t = "unknown" THEN R("stop", "none", st)
  ELSE IF m.t = "request" THEN
         IF st.seed /\ st.inbound THEN
            IF st.reqs >= 1 THEN R("ok", "none", st)                                           \* already answering / disconnecting
            ELSE R("stopgraceful", "reply", [st EXCEPT !.reqs = 1])                            \* send addresses and disconnect
         ELSE IF st.reqs >= 2 THEN R("stop", "markbad", st)                                    \* too soon
         ELSE R("ok", "reply", [st EXCEPT !.reqs = @ + 1])
  ELSE \* "addrs"
       IF \E i \in 1..Len(m.addrs) : ~AddrDecodes(m.addrs[i]) THEN R("stop", "markbad", st)
       ELSE IF ~st.asked THEN R("stop", "markbad", st)                                         \* ErrUnsolicitedList
       ELSE R("ok", "none", [st EXCEPT !.asked = FALSE, !.book = BookAll(m.addrs, st.book)])

(****************************** block sync: the reactor front ******************************)
(* blockchain/reactor.go Receive -> DecodeMsg / ValidateMsg (msgs.go) -> answer from the block store, or an      *)
(* event for the scheduler (only while a fast sync is in progress: r.events non-nil), or                          *)
(* reporter.Report(BadMessage) = Switch.StopPeerForError.  What the scheduler / processor routines then do        *)
(* with the events (solicited or not, duplicates, ...) is family `blocksync` (specs/blocksync).                   *)
(* state: sync (fast sync in progress), top (height of the node's block store; blocks 1..top exist),              *)
(* rl (read locks on the reactor's mutex r.mtx that are still held after Receive has returned - must be 0)        *)
(* THE MUTEX.  The Status / Block / NoBlock branches of Receive work under r.mtx.RLock(); the writers are the      *)
(* event loop (setMaxPeerHeight on every StatusResponse of any peer, setSyncHeight on every processed block) and   *)
(* startSync / endSync / Stop.  A read lock that outlives Receive blocks the next writer for ever, and a pending   *)
(* writer blocks every later reader: all peers' receive routines hang in Receive, fast sync never ends, the        *)
(* reactor cannot be stopped.  The BlockResponse branch decodes the block a second time and, if that fails,        *)
(* returns WITHOUT RUnlock - unreachable as long as ValidateMsg has decoded the very same block successfully       *)
(* just before.  NAMED DEVIATION "bc-validate-nilonly" (a seeded variant, never the code of /repo): ValidateMsg    *)
(* only tests Block # nil; then a present but undecodable block reaches that return and rl grows.                  *)
(* Specified for EVERY message, accepted or refused: BcLockFree, and the AFTERMATH returns: an honest peer's       *)
(* StatusResponse with a higher height handled by the event loop (a writer), its Block / NoBlock responses, Stop.  *)
(* messages: [t |-> "statusreq"]  [t |-> "request", h]  [t |-> "status", base, h]  [t |-> "noblock", h]            *)
(*           [t |-> "block", kind]: "good" a decodable block, "nil" no Block member, "noheader" a Block without   *)
(*           header, "nocommit" a block of height > 1 without LastCommit, "junkcommit" a LastCommit with a         *)
(*           malformed signature entry;  [t |-> "unknown"]                                                          *)
\* types.BlockFromProto succeeds (as coded: a block of the FIRST height may come without LastCommit - it is
\* refused later, by validateBlock)
BlockDecodes(k, top) == k = "good" \/ (k = "nocommit" /\ top = 0)
BcLockFree(st) == st.rl = 0
\* the aftermath of a message: "ok" or "hang" (a writer meets a leaked read lock)
BcAftermath(st) == IF st.rl = 0 THEN "ok" ELSE "hang"
RecvBc(st, m) ==
  LET R(res, eff) == [res |-> res, eff |-> eff, st |-> st] IN
  IF m.t = "unknown" THEN R("stop", "none")
  ELSE IF m.t = "statusreq" THEN R("ok", "reply-status")
  ELSE IF m.t = "request" THEN
         IF m.h < 1 THEN R("stop", "none")
         ELSE IF m.h <= st.top THEN R("ok", "reply-block") ELSE R("ok", "reply-noblock")
  ELSE IF m.t = "status" THEN
         IF m.base > m.h THEN R("stop", "none")
         ELSE IF st.sync THEN R("ok", "event-status") ELSE R("ok", "none")
  ELSE IF m.t = "noblock" THEN
         IF m.h < 1 THEN R("stop", "none")
         ELSE IF st.sync THEN R("ok", "event-noblock") ELSE R("ok", "none")
  ELSE \* "block"
       IF ~BlockDecodes(m.kind, st.top) THEN
            (IF "bc-validate-nilonly" \in ImplR /\ m.kind # "nil"
             THEN [res |-> "ok", eff |-> "none", st |-> [st EXCEPT !.rl = @ + 1]]      \* logged, RLock never released
             ELSE R("stop", "none"))
       ELSE IF st.sync THEN R("ok", "event-block") ELSE R("ok", "none")
=================================================================================
