--------------------------- MODULE MC_PeerReactors ---------------------------
(***************************************************************************)
(* Model for TLC: one peer sends up to Depth messages to ONE of the small    *)
(* reactors (transaction pool, evidence, peer exchange, block-sync front) in *)
(* each of the reactor's state classes.  Every transition is printed (Dump)  *)
(* and replayed on the real reactor of a real node (harness/peer             *)
(* TestReactorsReplay).  Invariants: the property on these channels.         *)
(***************************************************************************)
EXTENDS PeerReactors, Json

CONSTANT Depth

VARIABLES rx,     \* "tx" | "ev" | "pex" | "bc"
          st,     \* the reactor's state (see PeerReactors)
          st0,    \* the state class the behaviour started in
          dead,   \* the peer has been stopped
          bad,    \* "" or what went wrong (deviations only)
          hist
vars == <<rx, st, st0, dead, bad, hist>>

TxInits  == {[reg |-> rg, fetch |-> f, have |-> {}] : rg \in BOOLEAN, f \in BOOLEAN}
EvInits  == {[lh |-> l, pending |-> FALSE] : l \in {0, 1}}
PexInits == {[reqs |-> 0, asked |-> a, seed |-> sd, inbound |-> ib, book |-> {}] : a \in BOOLEAN, sd \in BOOLEAN, ib \in BOOLEAN}

Unknowns == {[t |-> "unknown", kind |-> k] : k \in {"empty", "garbage", "nomember"}}
TxSeqs == {<<k>> : k \in TxKinds} \cup {<<"good", k>> : k \in TxKinds} \cup {<<"good", "good2", "future">>, <<>>}
TxMsgs(s) == {[t |-> ty, txs |-> q] : ty \in {"txs", "pooled"}, q \in TxSeqs}
        \cup {[t |-> ty, n |-> x[1], known |-> x[2]] : ty \in {"hashes", "request"},
                 x \in {y \in {<<0, 0>>, <<1, 0>>, <<1, 1>>, <<3, 1>>, <<3, 2>>, <<5000, 0>>} : y[2] <= Cardinality(s.have)}}
        \cup Unknowns
EvSeqs == {<<k>> : k \in EvKinds} \cup {<<>>, <<"valid", "valid">>, <<"valid", "badsig">>, <<"badsig", "valid">>, <<"valid", "nosum">>, <<"future", "valid">>}
EvMsgs(s) == {[t |-> "list", evs |-> q] : q \in EvSeqs} \cup Unknowns
AddrSeqs == {<<k>> : k \in AddrKinds} \cup {<<>>, <<"good", "good2">>, <<"good", "good">>, <<"good", "badip">>, <<"badid", "good">>, <<"many">>}
BcInits == {[sync |-> y, top |-> tp, rl |-> 0] : y \in BOOLEAN, tp \in {0, 1}}
Big == 2000000000
Max == 2147483647
BcMsgs(s) == {[t |-> "statusreq"]}
        \cup {[t |-> "request", h |-> h] : h \in {0, 1, 2, Big, Max}}
        \cup {[t |-> "noblock", h |-> h] : h \in {0, 1, Big, Max}}
        \cup {[t |-> "status", base |-> b, h |-> h] : b \in {0, 1, 2, Big, Max}, h \in {0, 1, 2, Big, Max}}
        \cup {[t |-> "block", kind |-> kd] : kd \in {"good", "nil", "noheader", "nocommit", "junkcommit"}}
        \cup Unknowns
PexMsgs(s) == {[t |-> "request"]} \cup {[t |-> "addrs", addrs |-> q] : q \in AddrSeqs} \cup Unknowns

Init == /\ \/ rx = "tx" /\ st \in TxInits
           \/ rx = "ev" /\ st \in EvInits
           \/ rx = "pex" /\ st \in PexInits
           \/ rx = "bc" /\ st \in BcInits
        /\ st0 = st /\ dead = FALSE /\ bad = "" /\ hist = <<>>

Msgs == CASE rx = "tx" -> TxMsgs(st) [] rx = "ev" -> EvMsgs(st) [] rx = "pex" -> PexMsgs(st) [] rx = "bc" -> BcMsgs(st)
Recv(m) == CASE rx = "tx" -> RecvTx(st, m) [] rx = "ev" -> RecvEv(st, m) [] rx = "pex" -> RecvPex(st, m) [] rx = "bc" -> RecvBc(st, m)

Step(m) ==
  LET r == Recv(m) IN
  /\ st' = r.st
  /\ dead' = (r.res \in {"stop", "stopgraceful"})
  /\ bad' = IF r.res \in {"hang", "panic"} THEN r.res ELSE ""
  /\ hist' = Append(hist, [m |-> m, res |-> r.res, eff |-> r.eff])
  /\ UNCHANGED <<rx, st0>>

Next == ~dead /\ bad = "" /\ Len(hist) < Depth /\ \E m \in Msgs : Step(m)
Spec == Init /\ [][Next]_vars
View == <<rx, st, dead, bad>>

\* ---- the property ----
Returns      == bad = ""                                   \* Receive returns: no panic, no hang
\* a message that stops the peer leaves the reactor's state as it was, except for what the items BEFORE the
\* offending one have legitimately added (evidence list: items are added in order)
RejectedIsInert == [][hist'[Len(hist')].res = "stop" /\ rx # "ev" => st' = st]_vars
\* block sync: no read lock on the reactor's mutex outlives Receive (so the aftermath of every message returns)
BcMutexFree == rx = "bc" => (BcLockFree(st) /\ BcAftermath(st) = "ok")
\* the evidence pool only ever takes evidence that verifies
OnlyVerifiedEvidence == rx = "ev" => (st.pending => st.lh >= 1)

Dump == PrintT(ToJson([rx |-> rx, st0 |-> st0, pre |-> [i \in 1..Len(hist) |-> hist[i].m], last |-> hist'[Len(hist')],
                       pst |-> st, nst |-> st']))
=================================================================================
