-------------------------------- MODULE Framing --------------------------------
(***************************************************************************)
(* The connection framing as a hostile peer drives it: the receive side of  *)
(* lib/p2p/conn/connection.go, MConnection.recvRoutine                       *)
(*     protoio.NewDelimitedReader(conn, maxPacketMsgSize).ReadMsg(&packet)   *)
(*     -> Ping / Pong / PacketMsg -> Channel.recvPacketMsg -> onReceive      *)
(*     -> stopForError on anything else                                      *)
(* as a transducer over WIRE ITEMS (what the peer writes), by class.  (The   *)
(* send side and the well-behaved peer are family `conn`, property C20.)     *)
(* Property C18 for the framing: every item is either consumed (buffered,    *)
(* answered, delivered) or stops the connection - nothing else; the bytes    *)
(* buffered for a channel never exceed its RecvMessageCapacity (bounded      *)
(* memory); nothing is delivered after the stop; the routine never panics    *)
(* and never waits for more than the peer has announced.                     *)
(*                                                                         *)
(* Items:                                                                    *)
(*  [k |-> "ping"] [k |-> "pong"]                                            *)
(*  [k |-> "msg", ch, eof, n]   PacketMsg with n data bytes on channel ch;   *)
(*       ch is an index into Chans, or 0 = an id no reactor registered,      *)
(*       or -c = the id of channel c plus 256 (ChannelID is an int32 that    *)
(*       the code truncates with byte(): accepted as channel c - as coded)   *)
(*  [k |-> "oversize"]   a PacketMsg one byte above MaxPayload               *)
(*  [k |-> "nosum"]      a Packet without member                             *)
(*  [k |-> "lenhuge"]    a length prefix above maxPacketMsgSize (no body)    *)
(*  [k |-> "badvarint"]  an overlong length varint                           *)
(*  [k |-> "garbage"]    a plausible length, then bytes that are no Packet   *)
(*  [k |-> "cut"]        a length prefix, half of the body, connection closed*)
(*  [k |-> "close"]      connection closed between packets                   *)
(* and, one layer down (lib/p2p/conn/secret_connection.go Read: 1028-byte    *)
(* frames [length, data], each sealed with ChaCha20-Poly1305 under the       *)
(* session key), written by a peer that HOLDS the session keys:              *)
(*  [k |-> "frame0"]      a sealed frame with length field 0, between two     *)
(*                        packets.  AS CODED it ends the connection: Read     *)
(*                        returns (0, nil), bufio passes that on, and         *)
(*                        protoio's byteReader.ReadByte ignores the count and *)
(*                        returns its zeroed buffer byte - a length prefix 0, *)
(*                        i.e. an empty Packet, "unknown message type".  Only *)
(*                        the sender is dropped, so the property holds; kept  *)
(*                        as coded (a clean implementation would skip it)     *)
(*  [k |-> "frame0x200"]  200 of them in a row (the same at the first one)    *)
(*  [k |-> "framebig"]    length field 1025 (> dataMaxSize)                   *)
(*  [k |-> "framemax"]    length field 2^32-1                                 *)
(*  [k |-> "framebadmac"] a frame whose ciphertext was altered                *)
(*  [k |-> "frameshort"]  half a frame, connection closed                     *)
(* (the other items then travel cut into properly sealed frames)             *)
(***************************************************************************)
EXTENDS Integers, Sequences, FiniteSets, TLC

CONSTANTS Cap,          \* Cap[c]: RecvMessageCapacity of channel c (sequence)
          MaxPayload    \* MConnConfig.MaxPacketMsgPayloadSize

Chans == 1..Len(Cap)
Fr0 == [buf |-> [c \in Chans |-> 0], stop |-> ""]

\* one item: [st, eff]; eff = <<"none">> | <<"pong">> | <<"deliver", c, n>> | <<"stop", why>>
Feed(st, it) ==
  LET S(why) == [st |-> [st EXCEPT !.stop = why], eff |-> <<"stop", why>>]
      N(e)   == [st |-> st, eff |-> e]
  IN CASE it.k = "ping" -> N(<<"pong">>)
       [] it.k = "pong" -> N(<<"none">>)
       [] it.k = "msg" ->
            LET c == IF it.ch < 0 THEN -it.ch ELSE it.ch IN
            \* maxPacketMsgSize is computed for a one-byte channel id WITH the EOF flag: a full payload with EOF under a
            \* two-byte id is one byte too long (without EOF it fits)
            IF it.ch < 0 /\ it.eof /\ it.n >= MaxPayload THEN S("size")
            ELSE IF c = 0 THEN S("chan")
            ELSE IF st.buf[c] + it.n > Cap[c] THEN S("cap")
            ELSE IF it.eof THEN [st |-> [st EXCEPT !.buf[c] = 0], eff |-> <<"deliver", c, st.buf[c] + it.n>>]
            ELSE [st |-> [st EXCEPT !.buf[c] = @ + it.n], eff |-> <<"none">>]
       [] it.k \in {"oversize", "lenhuge"} -> S("size")
       [] it.k = "nosum" -> S("type")
       [] it.k \in {"garbage", "badvarint"} -> S("decode")
       [] it.k \in {"cut", "close", "frameshort"} -> S("eof")
       [] it.k \in {"frame0", "frame0x200"} -> S("type")
       [] it.k \in {"framebig", "framemax", "framebadmac"} -> S("decode")
=================================================================================
