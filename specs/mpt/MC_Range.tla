-------------------------------- MODULE MC_Range --------------------------------
(* Every (content, first, last, claim) with claims = the true content of the range *)
(* and all its one-point deviations; plus the proof-less whole-trie case (f = 0).  *)
EXTENDS MPTRange, Json

VARIABLES c, f, l, cl, o
vars == <<c, f, l, cl, o>>
None == [i \in KIdx |-> Absent]
Init == c \in [KIdx -> 0..NV] /\ f = -1 /\ l = -1 /\ cl = None /\ o = "init"
Next == /\ f = -1
        /\ \/ \E ff \in KIdx, ll \in KIdx :
                /\ ff <= ll /\ f' = ff /\ l' = ll
                /\ cl' \in Claims(Restrict(c, ff, ll))
                /\ o' = RangeSpec(c, ff, ll, cl')
           \/ /\ f' = 0 /\ l' = 0
              /\ cl' \in Claims(c)
              /\ o' = WholeSpec(c, cl')
        /\ UNCHANGED c
Spec == Init /\ [][Next]_vars

\* no claim other than the truth is accepted (what "authenticated" means for a range)
Sound    == (f > 0 /\ o # "err") => cl = Restrict(c, f, l)
\* the truth is accepted whenever the range is non-empty and has two distinct edges
Complete == (f > 0 /\ f < l /\ cl = Restrict(c, f, l) /\ Claimed(cl) # {}) => o # "err"
Inv == Sound /\ Complete

Dump == PrintT(ToJson([c |-> c, f |-> f', l |-> l', cl |-> cl', o |-> o']))
=================================================================================
