----------------------------------- MODULE MPT -----------------------------------
(***************************************************************************)
(* The Merkle Patricia trie of go-kardia (trie/, derived from go-ethereum)  *)
(* as an authenticated map with a canonical form.  Property C07.            *)
(*                                                                         *)
(* Functional style: a trie is a value (a tree of records) and every public *)
(* call of the code is an operator on such values, transcribed from the     *)
(* code so that it can be bound to it:                                      *)
(*                                                                         *)
(*   Hex, Compact lengths      trie/encoding.go  keybytesToHex, hexToCompact *)
(*   Insert, Delete, Get       trie/trie.go      insert, delete, get         *)
(*   EncLen, Hashed            trie/hasher.go    shortnodeToHash/fullnodeTo- *)
(*                             Hash: a node whose RLP is < 32 bytes is       *)
(*                             embedded in its parent, else referenced by    *)
(*                             hash (the root is always hashed)              *)
(*   Paths, Walk, WalkFrom     trie/iterator.go  what NodeIterator yields,   *)
(*                                               from the start / a seek key *)
(*   PathNodes, Proof          trie/proof.go     Trie.Prove                  *)
(*   VWalk, Verify             trie/proof.go     VerifyProof + get()         *)
(*   SInsert, SHash, StackTree trie/stacktrie.go StackTrie.insert / hashRec  *)
(*                                                                         *)
(* Canon(content) -- the tree obtained by inserting the content in key      *)
(* order into the empty trie -- is the definition of THE trie of a content; *)
(* the property says that every history ends in Canon(its content)          *)
(* (MC_MPT.Canonical), which makes the root a function of the content.      *)
(*                                                                         *)
(* Abstractions (the trusted base of this family):                          *)
(*  - keccak256 is injective on node encodings: a hash reference to a       *)
(*    subtree is represented by the subtree itself.  The driver computes    *)
(*    the real keccak of the real RLP of the specified tree independently   *)
(*    and compares it with the code's root.                                 *)
(*  - values are abstract (1..NV); only their byte length and whether they  *)
(*    RLP-encode as a single byte (ValLen, ValSmall) matter to the          *)
(*    structure (embedding).  0 stands for "absent".                        *)
(*                                                                         *)
(* Deliberate deviations from what one would expect, all copied from the    *)
(* code and named here:                                                     *)
(*  D1 Update(key, empty value) is Delete(key)            (trie.go update)  *)
(*  D2 the empty trie has no node, Prove returns the empty proof and        *)
(*     VerifyProof fails on it ("proof node 0 missing"): absence in an      *)
(*     empty trie is witnessed by root = EmptyRootHash, not by a proof      *)
(*  D3 StackTrie has no value slot in its branches: it is defined only on   *)
(*     prefix-free key sets inserted in ascending order; outside that       *)
(*     domain the code panics ("Trying to insert into existing key")        *)
(*  D4 iteration order is the order of the hex keys WITH terminator, the    *)
(*     terminator being the largest nibble: a key that is a prefix of other *)
(*     keys (value slot of a branch) is visited AFTER them, and a seek to   *)
(*     such a longer key does not skip the shorter one.  For prefix-free    *)
(*     key sets (every production trie) this is plain ascending key order.  *)
(*                                                                         *)
(* The family (specs/mpt):                                                  *)
(*   MPT.tla       this module: the trie as a value                         *)
(*   MPTCache.tla  refinement: the partially loaded trie with cache flags   *)
(*                 (Hash, Commit, reopen, Copy, node-loading reads)         *)
(*   MPTDb.tla     the reference-counted node database (triedb/hashdb)      *)
(*   MPTRange.tla  the contract of VerifyRangeProof                         *)
(*   MPTTrace.tla  trace validation of random runs of the real trie         *)
(*   MC_MPT, MC_Table, MC_Proof, MC_Cache, MC_Db, MC_Range, MC_Derive       *)
(*                 the models TLC checks and whose transitions / cases are  *)
(*                 replayed into the real code by harness/mpt               *)
(***************************************************************************)
EXTENDS Integers, Sequences, FiniteSets, TLC

CONSTANTS KeyBytes,  \* sequence of keys in ascending (bytes.Compare) order, each a sequence of bytes 0..255
          ValLen,    \* ValLen[v]   = byte length of the value of class v   (v in 1..NV)
          ValSmall   \* ValSmall[v] = the value is one byte < 0x80 (its RLP is the byte itself)

NV   == Len(ValLen)
Vals == 1..NV
KIdx == 1..Len(KeyBytes)
Absent == 0

-----------------------------------------------------------------------------
(* Keys: trie/encoding.go *)

RECURSIVE BytesToNibbles(_)
BytesToNibbles(bs) == IF bs = <<>> THEN <<>>
                      ELSE <<Head(bs) \div 16, Head(bs) % 16>> \o BytesToNibbles(Tail(bs))
\* keybytesToHex: two nibbles per byte plus the terminator 16
Hex(bs) == BytesToNibbles(bs) \o <<16>>
HexKey == [i \in KIdx |-> Hex(KeyBytes[i])]

HasTerm(k) == Len(k) > 0 /\ k[Len(k)] = 16
DropN(s, n) == SubSeq(s, n + 1, Len(s))
TakeN(s, n) == SubSeq(s, 1, n)
IsPrefix(p, s) == Len(p) <= Len(s) /\ TakeN(s, Len(p)) = p

\* prefixLen(a, b)
RECURSIVE PrefixLen(_, _)
PrefixLen(a, b) == IF a = <<>> \/ b = <<>> \/ Head(a) # Head(b) THEN 0
                   ELSE 1 + PrefixLen(Tail(a), Tail(b))

\* bytes.Compare(a, b) < 0 on byte (or nibble) sequences
RECURSIVE SeqLess(_, _)
SeqLess(a, b) == IF b = <<>> THEN FALSE
                 ELSE IF a = <<>> THEN TRUE
                 ELSE IF Head(a) # Head(b) THEN Head(a) < Head(b)
                 ELSE SeqLess(Tail(a), Tail(b))

ASSUME KeysSorted == \A i, j \in KIdx : i < j => SeqLess(KeyBytes[i], KeyBytes[j])
ASSUME ValShape   == Len(ValSmall) = NV /\ \A v \in Vals : ValLen[v] >= 1 /\ (ValSmall[v] => ValLen[v] = 1)

-----------------------------------------------------------------------------
(* Nodes: trie/node.go.  nil | valueNode | shortNode{Key, Val} | fullNode{Children[17]}.      *)
(* A shortNode whose key ends with the terminator is a leaf, otherwise an extension.          *)
(* hashNode does not exist at this level (see MPTCache for the partially loaded trie).        *)

NilN        == [t |-> "nil"]
ValueN(v)   == [t |-> "val", v |-> v]
Short(k, c) == [t |-> "short", k |-> k, c |-> c]
Full(ch)    == [t |-> "full", ch |-> ch]
EmptyCh     == [i \in 0..16 |-> NilN]
Live(ch)    == {i \in 0..16 : ch[i].t # "nil"}

(* Trie.insert(n, prefix, key, value).  `vn` is any node: the code re-hangs the old child of  *)
(* a split shortNode through the same function (insert(nil, ..., n.Key[matchlen+1:], n.Val)). *)
RECURSIVE Insert(_, _, _)
Insert(n, key, vn) ==
  IF key = <<>> THEN vn                                     \* len(key) == 0: the node is replaced
  ELSE CASE n.t = "short" ->
              LET m == PrefixLen(key, n.k) IN
              IF m = Len(n.k)
              THEN Short(n.k, Insert(n.c, DropN(key, m), vn))   \* whole key matches: descend
              ELSE \* branch out at the first differing nibble
                   LET ch1 == [EmptyCh EXCEPT ![n.k[m + 1]] = Insert(NilN, DropN(n.k, m + 1), n.c)]
                       ch2 == [ch1 EXCEPT ![key[m + 1]] = Insert(NilN, DropN(key, m + 1), vn)]
                   IN IF m = 0 THEN Full(ch2) ELSE Short(TakeN(key, m), Full(ch2))
         [] n.t = "full" -> Full([n.ch EXCEPT ![key[1]] = Insert(@, Tail(key), vn)])
         [] n.t = "nil"  -> Short(key, vn)
         \* a valueNode with key nibbles left: the code panics ("invalid node"); unreachable because
         \* every key ends with the terminator and values hang only below it
         [] n.t = "val"  -> Assert(FALSE, "insert: value node with non-empty key")

(* Trie.delete(n, prefix, key): returns [d |-> dirty, n |-> new node]. *)
RECURSIVE Delete(_, _)
Delete(n, key) ==
  CASE n.t = "short" ->
         LET m == PrefixLen(key, n.k) IN
         IF m < Len(n.k) THEN [d |-> FALSE, n |-> n]          \* mismatch: nothing to delete
         ELSE IF m = Len(key) THEN [d |-> TRUE, n |-> NilN]   \* whole match: remove the node
         ELSE LET r == Delete(n.c, DropN(key, Len(n.k))) IN
              IF ~r.d THEN [d |-> FALSE, n |-> n]
              ELSE IF r.n.t = "short"
                   THEN [d |-> TRUE, n |-> Short(n.k \o r.n.k, r.n.c)]   \* merge short . short
                   ELSE [d |-> TRUE, n |-> Short(n.k, r.n)]
    [] n.t = "full" ->
         LET r == Delete(n.ch[key[1]], Tail(key)) IN
         IF ~r.d THEN [d |-> FALSE, n |-> n]
         ELSE LET ch == [n.ch EXCEPT ![key[1]] = r.n] IN
              IF r.n.t # "nil" THEN [d |-> TRUE, n |-> Full(ch)]         \* still >= 2 children
              ELSE IF Cardinality(Live(ch)) # 1 THEN [d |-> TRUE, n |-> Full(ch)]
              ELSE \* exactly one entry left: the full node collapses into a short node
                   LET pos == CHOOSE i \in Live(ch) : TRUE IN
                   IF pos # 16 /\ ch[pos].t = "short"
                   THEN [d |-> TRUE, n |-> Short(<<pos>> \o ch[pos].k, ch[pos].c)]
                   ELSE [d |-> TRUE, n |-> Short(<<pos>>, ch[pos])]
    [] n.t = "val" -> [d |-> TRUE,  n |-> NilN]
    [] n.t = "nil" -> [d |-> FALSE, n |-> NilN]

(* Trie.get(n, key, pos): the value class stored under key, Absent if none. *)
RECURSIVE Get(_, _)
Get(n, key) ==
  CASE n.t = "nil"   -> Absent
    [] n.t = "val"   -> n.v
    [] n.t = "short" -> IF ~IsPrefix(n.k, key) THEN Absent ELSE Get(n.c, DropN(key, Len(n.k)))
    [] n.t = "full"  -> Get(n.ch[key[1]], Tail(key))

(* The public calls.  D1: Update with an empty value deletes. *)
Update(tree, i, v) == IF v = Absent THEN Delete(tree, HexKey[i]).n ELSE Insert(tree, HexKey[i], ValueN(v))
Remove(tree, i)    == Delete(tree, HexKey[i]).n
Lookup(tree, i)    == Get(tree, HexKey[i])

(* THE trie of a content c (a function KIdx -> 0..NV): insertion in key order. *)
RECURSIVE Build(_, _)
Build(c, i) == IF i = 0 THEN NilN
               ELSE LET t == Build(c, i - 1) IN IF c[i] = Absent THEN t ELSE Insert(t, HexKey[i], ValueN(c[i]))
Canon(c) == Build(c, Len(KeyBytes))

(* Shape invariant of the code's tries ("minimal form"): no short below short, no empty key,  *)
(* the terminator only as last nibble and exactly above a value, full nodes with >= 2 entries. *)
RECURSIVE WellFormed(_)
WellFormed(n) ==
  CASE n.t = "nil"   -> TRUE
    [] n.t = "val"   -> n.v \in Vals
    [] n.t = "short" -> /\ Len(n.k) > 0
                        /\ \A j \in 1..(Len(n.k) - 1) : n.k[j] \in 0..15
                        /\ n.c.t \in {"val", "full"}
                        /\ (n.c.t = "val") = HasTerm(n.k)
                        /\ WellFormed(n.c)
    [] n.t = "full"  -> /\ Cardinality(Live(n.ch)) >= 2
                        /\ n.ch[16].t \in {"nil", "val"}
                        /\ \A i \in 0..15 : n.ch[i].t # "val"
                        /\ \A i \in 0..16 : WellFormed(n.ch[i])
WellFormedRoot(n) == n.t \in {"nil", "short", "full"} /\ WellFormed(n)

-----------------------------------------------------------------------------
(* Encoded sizes: trie/node_enc.go + lib/rlp + trie/hasher.go.  Only lengths matter: a child  *)
(* whose encoding is shorter than 32 bytes is stored inside its parent.                       *)

ByteLen(n)       == IF n < 256 THEN 1 ELSE IF n < 65536 THEN 2 ELSE 3
RlpStrLen(l, sm) == IF l = 1 /\ sm THEN 1 ELSE IF l < 56 THEN 1 + l ELSE 1 + ByteLen(l) + l
RlpListLen(p)    == IF p < 56 THEN 1 + p ELSE 1 + ByteLen(p) + p
\* hexToCompact: one flag byte (carrying the first nibble when the count is odd) + two nibbles per byte
CompactLen(k)    == (IF HasTerm(k) THEN Len(k) - 1 ELSE Len(k)) \div 2 + 1
\* a one-byte compact key is 0x00, 0x1n, 0x20 or 0x3n, always < 0x80: it is its own RLP
KeyEncLen(k)     == RlpStrLen(CompactLen(k), TRUE)
ValEncLen(v)     == RlpStrLen(ValLen[v], ValSmall[v])

RECURSIVE EncLen(_)
RefLen(c) == CASE c.t = "nil" -> 1                          \* rlp.EmptyString
               [] c.t = "val" -> ValEncLen(c.v)
               [] OTHER       -> LET e == EncLen(c) IN IF e < 32 THEN e ELSE 33   \* embedded | 0xa0 + hash
RECURSIVE SumRef(_, _)
SumRef(ch, i) == IF i < 0 THEN 0 ELSE RefLen(ch[i]) + SumRef(ch, i - 1)
EncLen(n) == CASE n.t = "short" -> RlpListLen(KeyEncLen(n.k) + RefLen(n.c))
               [] n.t = "full"  -> RlpListLen(SumRef(n.ch, 16))
\* hasher.hash(n, force): hashNode iff len(enc) >= 32 or force (root)
Hashed(n) == n.t \in {"short", "full"} /\ EncLen(n) >= 32

-----------------------------------------------------------------------------
(* NodeIterator (trie/iterator.go), Next(true) from the start: pre-order, children in        *)
(* ascending nibble order, the value slot (16) last.  One entry <<path, kind>> per call:      *)
(*   "L" value node (Leaf() = the path ends with the terminator)                              *)
(*   "H" standalone node: Hash() # 0  (hashed, or the root)                                   *)
(*   "E" embedded node:   Hash() = 0                                                          *)
RECURSIVE Paths(_, _, _), PathsCh(_, _, _)
Paths(n, p, isRoot) ==
  CASE n.t = "nil"   -> <<>>
    [] n.t = "val"   -> << <<p, "L">> >>
    [] n.t = "short" -> << <<p, IF isRoot \/ Hashed(n) THEN "H" ELSE "E">> >> \o Paths(n.c, p \o n.k, FALSE)
    [] n.t = "full"  -> << <<p, IF isRoot \/ Hashed(n) THEN "H" ELSE "E">> >> \o PathsCh(n.ch, p, 0)
PathsCh(ch, p, i) == IF i > 16 THEN <<>> ELSE Paths(ch[i], p \o <<i>>, FALSE) \o PathsCh(ch, p, i + 1)
Walk(tree) == Paths(tree, <<>>, TRUE)

(* NodeIterator(start) (iterator.go seek): the iteration begins at the first node whose path  *)
(* is >= the nibbles of start (bytes.Compare, the terminator 16 being the largest nibble);     *)
(* since Walk is in ascending path order this is a suffix of it.  SeekPos = its first index.   *)
WalkFrom(tree, start) == LET k == BytesToNibbles(start) IN SelectSeq(Walk(tree), LAMBDA e : ~SeqLess(e[1], k))
SeekPos(tree, start)  == Len(Walk(tree)) - Len(WalkFrom(tree, start)) + 1
\* SeekPos for every key of the universe (Walk evaluated once)
SeekAll(tree)         == LET w == Walk(tree)
                         IN [i \in KIdx |-> LET k == BytesToNibbles(KeyBytes[i])
                                                ge == {j \in 1..Len(w) : ~SeqLess(w[j][1], k)}
                                            IN IF ge = {} THEN Len(w) + 1 ELSE CHOOSE j \in ge : \A x \in ge : j <= x]

\* nodes a Commit of a freshly built trie hands to the database = the standalone ones
StoredPaths(tree) == LET w == Walk(tree) IN {w[i][1] : i \in {j \in 1..Len(w) : w[j][2] = "H"}}

-----------------------------------------------------------------------------
(* Proofs: trie/proof.go.  A proof element is the encoding of one node in which hashed       *)
(* children are replaced by their hashes; it is determined by the subtree, so an element is  *)
(* represented by the subtree and the verifier's database (key = keccak(blob)) by a SET of   *)
(* subtrees.                                                                                  *)

(* Trie.Prove, first loop: the nodes on the path of key, down to the node proving absence. *)
RECURSIVE PathNodes(_, _)
PathNodes(n, key) ==
  IF key = <<>> THEN <<>>
  ELSE CASE n.t = "short" -> IF IsPrefix(n.k, key) THEN <<n>> \o PathNodes(n.c, DropN(key, Len(n.k)))
                             ELSE <<n>>
         [] n.t = "full"  -> <<n>> \o PathNodes(n.ch[key[1]], Tail(key))
         [] OTHER         -> <<>>                           \* nil: end of the existing prefix
(* second loop: a node becomes a proof element iff it is hashed, or it is the root (i == 0) *)
RECURSIVE SelectProof(_, _)
SelectProof(ns, i) == IF i > Len(ns) THEN <<>>
                      ELSE (IF i = 1 \/ Hashed(ns[i]) THEN <<ns[i]>> ELSE <<>>) \o SelectProof(ns, i + 1)
Proof(tree, key) == SelectProof(PathNodes(tree, key), 1)
Range(s) == {s[i] : i \in 1..Len(s)}

(* VerifyProof(rootHash, key, proofDb) with its helper get(n, key, skipResolved = true):      *)
(* -1 error (missing / undecodable node), 0 proven absent, v > 0 proven value.                *)
Err == -1
RECURSIVE VWalk(_, _, _)
VStep(c, key, db) == IF Hashed(c) THEN (IF c \in db THEN VWalk(c, key, db) ELSE Err)   \* next proof element
                     ELSE VWalk(c, key, db)                                             \* embedded: same element
VWalk(n, key, db) ==
  CASE n.t = "nil"   -> Absent
    [] n.t = "val"   -> n.v
    [] n.t = "short" -> IF ~IsPrefix(n.k, key) THEN Absent ELSE VStep(n.c, DropN(key, Len(n.k)), db)
    [] n.t = "full"  -> VStep(n.ch[key[1]], Tail(key), db)
\* the root is looked up by hash whatever its size; D2: nothing hashes to the empty root
Verify(tree, key, db) == IF tree.t = "nil" \/ tree \notin db THEN Err ELSE VWalk(tree, key, db)

(* Proof mutations.  A mutation is a record [kind, i, k2, j, v2] (unused fields 0) applied to *)
(* the proof p of key k in the trie of content c; the result is the verifier's database.      *)
(*   none                 the proof as produced                                               *)
(*   drop i / flip i      element i removed / a byte of element i changed (it is then stored  *)
(*                        under its NEW hash, which nothing references: the same as removing) *)
(*   dup i                element i twice (a set does not notice)                             *)
(*   trunc i              only the first i-1 elements                                         *)
(*   other k2             the proof of another key k2 of the same trie instead                *)
(*   bloat k2             plus all elements of the proof of k2                                *)
(*   swap i k2 j          element i replaced by element j of the proof of k2                  *)
(*   stale k2 v2          the proof of k taken from the trie with c[k2] := v2 instead         *)
(*   xtrie i k2 v2        element i replaced by element i of that other trie's proof          *)
Mut(kind, i, k2, j, v2) == [kind |-> kind, i |-> i, k2 |-> k2, j |-> j, v2 |-> v2]
ProofOf(c, k) == Proof(Canon(c), HexKey[k])
Muts(c, k) ==
  LET p == ProofOf(c, k) IN
  {Mut("none", 0, 0, 0, 0)}
  \cup {Mut(kd, i, 0, 0, 0) : kd \in {"drop", "flip", "dup", "trunc"}, i \in 1..Len(p)}
  \cup {Mut(kd, 0, k2, 0, 0) : kd \in {"other", "bloat"}, k2 \in KIdx \ {k}}
  \cup UNION {{Mut("swap", i, k2, j, 0) : j \in 1..Len(ProofOf(c, k2))} : i \in 1..Len(p), k2 \in KIdx \ {k}}
  \cup UNION {{Mut("stale", 0, k2, 0, v2) : v2 \in (0..NV) \ {c[k2]}} : k2 \in KIdx}
  \cup UNION {{Mut("xtrie", i, k2, 0, v2) : v2 \in (0..NV) \ {c[k2]}} : i \in 1..Len(p), k2 \in KIdx}
MutDb(c, k, m) ==
  LET p  == ProofOf(c, k)
      q  == IF m.k2 = 0 THEN <<>>
            ELSE IF m.kind \in {"stale", "xtrie"} THEN ProofOf([c EXCEPT ![m.k2] = m.v2], k)
            ELSE ProofOf(c, m.k2)
  IN CASE m.kind \in {"none", "dup"}  -> Range(p)
       [] m.kind \in {"drop", "flip"} -> Range(p) \ {p[m.i]}
       [] m.kind = "trunc"            -> {p[x] : x \in 1..(m.i - 1)}
       [] m.kind \in {"other", "stale"} -> Range(q)
       [] m.kind = "bloat"            -> Range(p) \cup Range(q)
       [] m.kind = "swap"             -> (Range(p) \ {p[m.i]}) \cup {q[m.j]}
       [] m.kind = "xtrie"            -> (Range(p) \ {p[m.i]}) \cup (IF m.i <= Len(q) THEN {q[m.i]} ELSE {})
VerifyOutcome(c, k, m) == Verify(Canon(c), HexKey[k], MutDb(c, k, m))

-----------------------------------------------------------------------------
(* StackTrie: trie/stacktrie.go.  A node is empty | leaf | ext | branch | hashed; "hashed"   *)
(* holds the finished subtree (what st.val, a hash or a short encoding, stands for).  Keys    *)
(* come without the terminator (Update strips it); leaves add it when hashed.                 *)

NoCh      == [t |-> "none"]
NoKids    == [i \in 0..15 |-> NoCh]
SNode(t, key, val, ch, h) == [t |-> t, key |-> key, val |-> val, ch |-> ch, h |-> h]
SEmpty         == SNode("empty", <<>>, 0, NoKids, NilN)
SLeaf(key, v)  == SNode("leaf", key, v, NoKids, NilN)
SExt(key, c)   == SNode("ext", key, 0, [NoKids EXCEPT ![0] = c], NilN)
SBranch(ch)    == SNode("branch", <<>>, 0, ch, NilN)
SHashedN(tree) == SNode("hashed", <<>>, 0, NoKids, tree)
SPanic         == SNode("panic", <<>>, 0, NoKids, NilN)

(* hashRec: turn a finished subtree into its (abstract) hash. *)
RECURSIVE SHash(_)
SHash(st) ==
  CASE st.t = "hashed" -> st
    [] st.t = "empty"  -> SHashedN(NilN)
    [] st.t = "leaf"   -> SHashedN(Short(st.key \o <<16>>, ValueN(st.val)))
    [] st.t = "ext"    -> SHashedN(Short(st.key, SHash(st.ch[0]).h))
    [] st.t = "branch" -> SHashedN(Full([i \in 0..16 |-> IF i < 16 /\ st.ch[i].t # "none"
                                                         THEN SHash(st.ch[i]).h ELSE NilN]))
    [] st.t = "panic"  -> st

\* getDiffIndex(key): first index (0-based) where st.key and key differ; -1 stands for the index-out-of-range
\* panic of `key[idx]` when key is a proper prefix of st.key
RECURSIVE DiffIdx(_, _, _)
DiffIdx(sk, key, i) == IF i > Len(sk) THEN Len(sk)
                       ELSE IF i > Len(key) THEN -1
                       ELSE IF sk[i] # key[i] THEN i - 1 ELSE DiffIdx(sk, key, i + 1)

RECURSIVE SInsert(_, _, _)
SInsert(st, key, v) ==
  CASE st.t = "branch" ->
         IF key = <<>> THEN SPanic                               \* key[0]: index out of range
         ELSE LET idx  == key[1]
                  left == {i \in 0..(idx - 1) : st.ch[i].t # "none"}
                  \* the nearest non-nil left sibling is complete: hash it
                  ch1  == IF left = {} THEN st.ch
                          ELSE LET l == CHOOSE i \in left : \A j \in left : j <= i
                               IN [st.ch EXCEPT ![l] = SHash(@)]
                  sub  == IF ch1[idx].t = "none" THEN SLeaf(Tail(key), v) ELSE SInsert(ch1[idx], Tail(key), v)
              IN IF sub.t = "panic" THEN SPanic ELSE SBranch([ch1 EXCEPT ![idx] = sub])
    [] st.t = "ext" ->
         LET d == DiffIdx(st.key, key, 1) IN
         IF d = -1 THEN SPanic
         ELSE IF d = Len(st.key)
         THEN LET sub == SInsert(st.ch[0], DropN(key, d), v)
              IN IF sub.t = "panic" THEN SPanic ELSE SExt(st.key, sub)
         ELSE IF d >= Len(key) THEN SPanic
         ELSE LET n  == IF d < Len(st.key) - 1 THEN SHash(SExt(DropN(st.key, d + 1), st.ch[0]))
                        ELSE SHash(st.ch[0])
                  o  == SLeaf(DropN(key, d + 1), v)
                  br == SBranch([[NoKids EXCEPT ![st.key[d + 1]] = n] EXCEPT ![key[d + 1]] = o])
              IN IF d = 0 THEN br ELSE SExt(TakeN(st.key, d), br)
    [] st.t = "leaf" ->
         LET d == DiffIdx(st.key, key, 1) IN
         IF d = -1 \/ d >= Len(st.key) THEN SPanic               \* "Trying to insert into existing key"
         ELSE IF d >= Len(key) THEN SPanic
         ELSE LET old == SHash(SLeaf(DropN(st.key, d + 1), st.val))
                  new == SLeaf(DropN(key, d + 1), v)
                  br  == SBranch([[NoKids EXCEPT ![st.key[d + 1]] = old] EXCEPT ![key[d + 1]] = new])
              IN IF d = 0 THEN br ELSE SExt(TakeN(st.key, d), br)
    [] st.t = "empty"  -> SLeaf(key, v)
    [] st.t = "hashed" -> SPanic                                  \* "trying to insert into hash"
    [] st.t = "panic"  -> st

\* feed the content in key order (StackTrie.Update for every present key), then Hash()
RECURSIVE SFeed(_, _, _)
SFeed(st, c, i) == IF i > Len(KeyBytes) THEN st
                   ELSE IF c[i] = Absent THEN SFeed(st, c, i + 1)
                   ELSE SFeed(SInsert(st, BytesToNibbles(KeyBytes[i]), c[i]), c, i + 1)
StackTree(c) == SHash(SFeed(SEmpty, c, 1))        \* .t = "panic" or .h = the tree whose root Hash() returns

\* D3: the domain of StackTrie
PrefixFree(c) == \A i, j \in KIdx : (i # j /\ c[i] # Absent /\ c[j] # Absent)
                                     => ~IsPrefix(BytesToNibbles(KeyBytes[i]), BytesToNibbles(KeyBytes[j]))

-----------------------------------------------------------------------------
(* Serialisation of a tree for the drivers (nested tuples -> JSON arrays):                   *)
(*   0 | <<"v", class>> | <<"s", key nibbles, child>> | <<"f", <<17 children>>>>             *)
RECURSIVE J(_)
J(n) == CASE n.t = "nil"   -> 0
          [] n.t = "val"   -> <<"v", n.v>>
          [] n.t = "short" -> <<"s", n.k, J(n.c)>>
          [] n.t = "full"  -> <<"f", [i \in 1..17 |-> J(n.ch[i - 1])]>>
===================================================================================
