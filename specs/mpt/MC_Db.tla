--------------------------------- MODULE MC_Db ---------------------------------
(* A chain of trie versions over one node database, as the block chain uses it:    *)
(* update the trie; Commit + Database.Update + Reference(root) makes a version     *)
(* (the history continues on the trie reopened by root hash); old versions are     *)
(* released with Dereference (garbage collection), kept for good with              *)
(* Database.Commit(root), or everything is flushed with Cap(0).                    *)
(* live = the versions made so far: <<root, content, state>> with state            *)
(*   "ref"  referenced in memory   "disk" flushed by Commit(root)   "gone" released *)
EXTENDS MPTDb, Json

CONSTANTS MaxOps, MaxVersions

VARIABLES root, content, d, live, hist
vars == <<root, content, d, live, hist>>

Init == root = NilN /\ content = [i \in KIdx |-> Absent] /\ d = EmptyDb /\ live = <<>> /\ hist = <<>>

DoPut(i, v) == /\ root' = (IF v = Absent THEN CDelete(root, HexKey[i], Known(d)) ELSE CInsert(root, HexKey[i], ValueN(v), Known(d))).n
               /\ content' = [content EXCEPT ![i] = v]
               /\ hist' = Append(hist, <<"put", i, v>>)
               /\ UNCHANGED <<d, live>>
\* Trie.Commit(false); Database.Update(root, parent, nodes); Database.Reference(root, {}); trie.New(root)
DoVersion   == LET cm == CommitOf(root)
                   d1 == DbReference(InsertAll(d, cm.nodes), cm.root)
               IN /\ Len(live) < MaxVersions /\ root.t # "nil"
                  /\ d' = d1
                  /\ root' = Open(cm.root, Known(d1))
                  /\ live' = Append(live, <<cm.root, content, "ref">>)
                  /\ hist' = Append(hist, <<"version", 0, content>>)
                  /\ UNCHANGED content
\* Database.Dereference(root of version j)
DoDeref(j)  == /\ live[j][3] = "ref"
               /\ j < Len(live)       \* the version the open trie was opened from is not released (see Protocol below)
               /\ d' = DbDeref(d, live[j][1])
               /\ live' = [live EXCEPT ![j][3] = "gone"]
               /\ hist' = Append(hist, <<"deref", j, 0>>)
               /\ UNCHANGED <<root, content>>
\* Database.Commit(root of version j, false)
DoFlush(j)  == /\ live[j][3] = "ref"
               /\ d' = DbCommit(d, live[j][1])
               /\ live' = [live EXCEPT ![j][3] = "disk"]
               /\ hist' = Append(hist, <<"flush", j, 0>>)
               /\ UNCHANGED <<root, content>>
\* Database.Cap(0)
DoCap       == /\ DOMAIN d.dirt # {}
               /\ d' = DbCapAll(d)
               /\ live' = [j \in 1..Len(live) |-> IF live[j][3] = "ref" THEN <<live[j][1], live[j][2], "disk">> ELSE live[j]]
               /\ hist' = Append(hist, <<"cap", 0, 0>>)
               /\ UNCHANGED <<root, content>>

Next == /\ Len(hist) < MaxOps
        /\ \/ \E i \in KIdx, v \in 0..NV : DoPut(i, v)
           \/ DoVersion \/ DoCap
           \/ \E j \in 1..Len(live) : DoDeref(j) \/ DoFlush(j)
Spec == Init /\ [][Next]_vars
View == <<root, content, d, live>>

(* Protocol assumed of the caller (TLC shows it is needed: put, version, put, deref(1) leaves the *)
(* open trie with references to collected nodes): the version a trie was opened from stays       *)
(* referenced while that trie is in use -- the newest version here, since the history continues   *)
(* on the trie reopened from it.  (mainchain/blockchain keeps the newest TriesInMemory roots.)    *)

\* every version that has not been released can be opened and read completely, and is the trie of its content
LiveReadable == \A j \in 1..Len(live) : live[j][3] # "gone" =>
                   /\ live[j][1] = Canon(live[j][2])
                   /\ Readable(live[j][1], Known(d))
\* the open trie keeps working (it is based on a version that is not released, plus its own dirty nodes)
Working      == Backed(root, Known(d)) /\ Plain(root) = Canon(content)
\* nothing on disk is ever lost; memory only holds what some version needs or needed
Inv == LiveReadable /\ Working

Dump == PrintT(ToJson([h |-> hist', c |-> content', nd |-> Cardinality(DOMAIN d'.dirt),
                       lv |-> [j \in 1..Len(live') |-> live'[j][3]]]))
=================================================================================
