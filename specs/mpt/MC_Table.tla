-------------------------------- MODULE MC_Table --------------------------------
(* Every content of the universe: the table content -> canonical tree that the     *)
(* replay drivers look expected structures up in, and the place where the          *)
(* statements about ONE content are checked: Get on the canonical tree, its shape, *)
(* the stack trie, the iterator from a seek key.                                   *)
(* The contents are enumerated as a tree of partial assignments (key 1, key 2, ..  *)
(* assigned level by level) so that TLC's workers share the work; the statements   *)
(* and the dump apply to the complete assignments (lvl = number of keys).          *)
EXTENDS MPT, Json

VARIABLES c, lvl
vars == <<c, lvl>>
N == Len(KeyBytes)
Init == c = [i \in KIdx |-> Absent] /\ lvl = 0
Next == /\ lvl < N
        /\ lvl' = lvl + 1
        /\ \E v \in 0..NV : c' = [c EXCEPT ![lvl + 1] = v]
Spec == Init /\ [][Next]_vars

CanonGet   == \A i \in KIdx : Lookup(Canon(c), i) = c[i]
CanonShape == WellFormedRoot(Canon(c))
\* deleting / overwriting one key of a canonical tree gives the canonical tree of the new content
CanonStepAll == \A i \in KIdx, v \in 0..NV : Update(Canon(c), i, v) = Canon([c EXCEPT ![i] = v])
(* "equal to the streaming (stack) trie's root for the same sorted data": on its domain (D3) *)
(* the stack trie builds exactly the canonical tree; outside it panics.                      *)
StackCanonical == IF PrefixFree(c) THEN StackTree(c).t = "hashed" /\ StackTree(c).h = Canon(c)
                  ELSE StackTree(c).t = "panic"
\* the iteration from a seek key is a suffix of the full iteration (ascending path order, D4)
SeekSuffix == \A i \in KIdx : LET w == Walk(Canon(c)) f == WalkFrom(Canon(c), KeyBytes[i])
                               IN f = SubSeq(w, Len(w) - Len(f) + 1, Len(w))
Inv       == lvl = N => (CanonGet /\ CanonShape /\ StackCanonical /\ SeekSuffix)
CanonStep == lvl = N => CanonStepAll

Dump == lvl' < N \/ PrintT(ToJson([c |-> c', t |-> J(Canon(c')), p |-> Walk(Canon(c')), sd |-> PrefixFree(c'),
                                   sf |-> SeekAll(Canon(c'))]))
=================================================================================
