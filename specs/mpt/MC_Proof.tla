-------------------------------- MODULE MC_Proof --------------------------------
(* Every (content, key, proof mutation) of the universe.  States the proof clauses *)
(* of C07 on the specification and prints the expected outcome of VerifyProof for  *)
(* the replay into trie.Prove / trie.VerifyProof.                                  *)
(* One initial state per (content, key); one transition per mutation (so that the  *)
(* enumeration is spread over TLC's workers); o = the specified outcome.           *)
EXTENDS MPT, Json

CONSTANT Kinds      \* mutation kinds enumerated in this run
VARIABLES c, k, m, o
vars == <<c, k, m, o>>
NoMut == Mut("init", 0, 0, 0, 0)
Init == c \in [KIdx -> 0..NV] /\ k \in KIdx /\ m = NoMut /\ o = 0
Next == /\ m = NoMut
        /\ m' \in {x \in Muts(c, k) : x.kind \in Kinds}
        /\ o' = VerifyOutcome(c, k, m')
        /\ UNCHANGED <<c, k>>
Spec == Init /\ [][Next]_vars

\* a proof produced for a key verifies and yields exactly the stored value or absence (D2: not for the empty trie)
Complete == m.kind = "none" => o = (IF \A i \in KIdx : c[i] = Absent THEN Err ELSE c[k])
\* no tampered proof verifies to a different value
Sound    == m # NoMut => o \in {Err, c[k]}
\* harmless tampering stays harmless
Monotone == m.kind \in {"dup", "bloat"} => o = (IF \A i \in KIdx : c[i] = Absent THEN Err ELSE c[k])
Inv == Complete /\ Sound /\ Monotone

Dump == PrintT(ToJson([c |-> c, k |-> k, m |-> <<m'.kind, m'.i, m'.k2, m'.j, m'.v2>>,
                       o |-> o', n |-> Len(ProofOf(c, k))]))
=================================================================================
