--------------------------------- MODULE MPTTrace ---------------------------------
(***************************************************************************)
(* Trace validation (code -> specification) for MPT.tla.  A seeded Go       *)
(* driver (harness/mpt TestTraceRecord) runs long random histories on the   *)
(* real trie.Trie / trie.Database -- updates, deletes, reads, Hash, Commit  *)
(* + reopen, Copy -- over a large key universe and writes one JSON line per *)
(* call with what the real code returned.  Here every line must be          *)
(* explained by the operator of MPT.tla for that call:                      *)
(*                                                                         *)
(*  {"t":"reset"}              a fresh empty trie (start of a new history)  *)
(*  {"t":"put","k":i,"v":v}    Trie.Update(key i, value class v; 0 = empty) *)
(*  {"t":"del","k":i}          Trie.Delete                                  *)
(*  {"t":"get","k":i,"v":v}    Trie.Get returned class v: v = Lookup        *)
(*  {"t":"root","r":id}        Trie.Hash / Commit returned the root with    *)
(*                             first-seen number id: ids and contents must  *)
(*                             correspond one to one over ALL histories     *)
(*  {"t":"walk","p":[...]}     NodeIterator yielded p: p = Walk(tree)       *)
(*  {"t":"nop"}                Copy / reopen: nothing changes               *)
(*                                                                         *)
(* A line that cannot be explained leaves the state without successor; the  *)
(* trace is accepted iff all lines were consumed (Accept, checked as        *)
(* POSTCONDITION), and Canonical is checked on every state on the way.      *)
(***************************************************************************)
EXTENDS MPT, Json

CONSTANT TraceFile
Lines == ndJsonDeserialize(TraceFile)

VARIABLES i,        \* next line
          tree, content,
          roots     \* roots[id] = the content that root id stands for
vars == <<i, tree, content, roots>>

NoContent == [x \in KIdx |-> Absent]
Init == i = 1 /\ tree = NilN /\ content = NoContent /\ roots = <<>>

RootOK(id) == \/ id <= Len(roots) /\ roots[id] = content /\ UNCHANGED roots
              \/ id = Len(roots) + 1 /\ (\A j \in 1..Len(roots) : roots[j] # content) /\ roots' = Append(roots, content)

Next == /\ i <= Len(Lines)
        /\ i' = i + 1
        /\ LET e == Lines[i] IN
           CASE e.t = "reset" -> tree' = NilN /\ content' = NoContent /\ UNCHANGED roots
             [] e.t = "put"   -> tree' = Update(tree, e.k, e.v) /\ content' = [content EXCEPT ![e.k] = e.v] /\ UNCHANGED roots
             [] e.t = "del"   -> tree' = Remove(tree, e.k) /\ content' = [content EXCEPT ![e.k] = Absent] /\ UNCHANGED roots
             [] e.t = "get"   -> Lookup(tree, e.k) = e.v /\ UNCHANGED <<tree, content, roots>>
             [] e.t = "root"  -> RootOK(e.r) /\ UNCHANGED <<tree, content>>
             [] e.t = "walk"  -> e.p = Walk(tree) /\ UNCHANGED <<tree, content, roots>>
             [] e.t = "nop"   -> UNCHANGED <<tree, content, roots>>
Spec == Init /\ [][Next]_vars

Canonical == tree = Canon(content)
GetOK     == \A k \in KIdx : Lookup(tree, k) = content[k]
Inv       == Canonical /\ GetOK

\* every line consumed: the deepest state is the one after the last line
Accept == TLCGet("stats").diameter - 1 = Len(Lines)
====================================================================================
