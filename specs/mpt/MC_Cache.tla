-------------------------------- MODULE MC_Cache --------------------------------
(* Histories over the partially loaded trie (MPTCache): Update / Delete / Get      *)
(* interleaved with the operations that the property says change nothing --        *)
(* Hash(), Commit() + reopen by root hash, Copy() -- placed by TLC anywhere in the *)
(* history.  The state (root with its flags and unloaded references, the database) *)
(* is the state of the real objects, so the VIEW without the history is sound:     *)
(* two histories that reach the same view leave the real trie in the same state.   *)
(*                                                                                 *)
(* marks = one <<kind, content>> per Commit / Copy: what the committed root / the  *)
(* original of the copy must still contain at the end of the history.              *)
EXTENDS MPTCache, Json

CONSTANTS MaxOps,    \* bound on the history length
          MaxMarks,  \* bound on the number of Commit / Copy operations per history
          MaxHash    \* bound on the number of explicit Hash() calls per history

VARIABLES root, content, db, marks, nhash, hist
vars == <<root, content, db, marks, nhash, hist>>

Init == /\ root = NilN /\ content = [i \in KIdx |-> Absent] /\ db = {}
        /\ marks = <<>> /\ nhash = 0 /\ hist = <<>>

\* Trie.Update(key, value), v = 0: the empty value (D1)
DoPut(i, v) == /\ root' = (IF v = Absent THEN CDelete(root, HexKey[i], db) ELSE CInsert(root, HexKey[i], ValueN(v), db)).n
               /\ content' = [content EXCEPT ![i] = v]
               /\ hist' = Append(hist, <<"put", i, v>>)
               /\ UNCHANGED <<db, marks, nhash>>
DoDel(i)    == /\ root' = CDelete(root, HexKey[i], db).n
               /\ content' = [content EXCEPT ![i] = Absent]
               /\ hist' = Append(hist, <<"del", i, 0>>)
               /\ UNCHANGED <<db, marks, nhash>>
\* Trie.Get(key): links what it loaded into the trie; the value read is part of the history
DoGet(i)    == LET g == CGet(root, HexKey[i], db) IN
               /\ g.r                                  \* a Get that loads nothing changes nothing: not a step
               /\ root' = g.n
               /\ hist' = Append(hist, <<"get", i, g.v>>)
               /\ UNCHANGED <<content, db, marks, nhash>>
\* Trie.Hash() (also what creating a NodeIterator does first)
DoHash      == /\ nhash < MaxHash /\ root.t # "nil" /\ CHash(root, TRUE) # root
               /\ root' = CHash(root, TRUE)
               /\ nhash' = nhash + 1
               /\ hist' = Append(hist, <<"hash", 0, 0>>)
               /\ UNCHANGED <<content, db, marks>>
\* Trie.Commit(false); Database.Update(nodes); trie.New(TrieID(root), db): continue on the reopened trie
DoCommit    == LET cm  == CommitOf(root)
                   db2 == DbUpdate(db, cm.nodes)
               IN /\ Len(marks) < MaxMarks
                  /\ db' = db2
                  /\ root' = Open(cm.root, db2)
                  /\ marks' = Append(marks, <<"commit", content>>)
                  /\ hist' = Append(hist, <<"commit", {x[1] : x \in cm.nodes}, content>>)
                  /\ UNCHANGED <<content, nhash>>
\* Trie.Copy(): the history continues on one of the two handles, the other must keep the content
DoCopy      == /\ Len(marks) < MaxMarks
               /\ \A j \in 1..Len(marks) : marks[j][1] # "copy"
               /\ marks' = Append(marks, <<"copy", content>>)
               /\ hist' = Append(hist, <<"copy", 0, content>>)
               /\ UNCHANGED <<root, content, db, nhash>>

Next == /\ Len(hist) < MaxOps
        /\ \/ \E i \in KIdx : (\E v \in 0..NV : DoPut(i, v)) \/ DoDel(i) \/ DoGet(i)
           \/ DoHash \/ DoCommit \/ DoCopy
Spec == Init /\ [][Next]_vars

View == <<root, content, db, marks, nhash>>

(* C07 on the partially loaded trie *)
\* the trie stands for the canonical tree of its content whatever was hashed, committed, reopened or copied in between
Canonical  == Plain(root) = Canon(content)
\* and Hash() -- which trusts the cached hashes -- returns the root of that tree
RootOK     == RootOf(root) = Canon(content)
GetOK      == \A i \in KIdx : CGet(root, HexKey[i], db).v = content[i]
\* every committed root stays completely readable: reopening it gives the content it had
Committed  == \A j \in 1..Len(marks) : marks[j][1] = "commit" => Readable(Canon(marks[j][2]), db)
\* why: flags
Flags      == Backed(root, db) /\ CacheSound(root) /\ DirtyUp(root) /\ CleanShape(root, TRUE)
Inv        == Canonical /\ RootOK /\ GetOK /\ Committed /\ Flags

Dump == PrintT(ToJson([h |-> hist', c |-> content']))
=================================================================================
