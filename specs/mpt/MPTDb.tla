----------------------------------- MODULE MPTDb -----------------------------------
(***************************************************************************)
(* The node database behind the trie: trie/triedb/hashdb/database.go        *)
(* (through trie/database_wrap.go).  It keeps committed nodes in memory     *)
(* ("dirties", reference counted, garbage collected by Dereference) until   *)
(* they are flushed to disk (Commit(root), Cap).  Property C07: "a          *)
(* committed trie reopened from its database by root hash has the same      *)
(* content" -- for every root that is still referenced, whatever happened   *)
(* to the other roots.                                                      *)
(*                                                                         *)
(* State of the database:                                                   *)
(*   dirt   function: subtree (= hash) -> number of parents                 *)
(*          (cachedNode.parents; DOMAIN dirt = keys of db.dirties)          *)
(*   order  the flush list oldest .. newest (flushPrev/flushNext)           *)
(*   disk   set of subtrees written to the disk store                       *)
(* A node is found (Database.Node) iff it is in DOMAIN dirt \cup disk.      *)
(*                                                                         *)
(* Transcribed: insert, reference(child, {}), dereference, commit, Cap      *)
(* with limit 0, Update (node set in descending path order), Node.          *)
(* Not modelled: the clean cache, sizes/metrics, storage-trie "external"    *)
(* references (leaves are not collected: Commit(false)).                    *)
(***************************************************************************)
EXTENDS MPTCache

(* cachedNode.forChildren: the hashes a stored node refers to -- one per OCCURRENCE (the same     *)
(* subtree under two slots counts twice); embedded children are searched, hashed ones are not.    *)
RECURSIVE ChildRefs(_), ChildRefsCh(_, _)
RefsOf(c) == IF ~(c.t \in {"short", "full"}) THEN <<>>
             ELSE IF Hashed(c) THEN <<c>>
             ELSE ChildRefs(c)
ChildRefs(s) == CASE s.t = "short" -> RefsOf(s.c)
                  [] s.t = "full"  -> ChildRefsCh(s.ch, 0)
                  [] OTHER         -> <<>>
ChildRefsCh(ch, i) == IF i > 15 THEN <<>> ELSE RefsOf(ch[i]) \o ChildRefsCh(ch, i + 1)

Db(dirt, order, disk) == [dirt |-> dirt, order |-> order, disk |-> disk]
EmptyFn  == [x \in {} |-> 0]
EmptyDb  == Db(EmptyFn, <<>>, {})
Known(d) == DOMAIN d.dirt \cup d.disk      \* what Database.Node finds

\* counts[x] + number of occurrences of x in seq, for x in the domain
RECURSIVE Bump(_, _)
Bump(f, seq) == IF seq = <<>> THEN f
                ELSE Bump(IF Head(seq) \in DOMAIN f THEN [f EXCEPT ![Head(seq)] = @ + 1] ELSE f, Tail(seq))

(* Database.insert(hash, node) *)
DbInsert(d, s) ==
  IF s \in DOMAIN d.dirt THEN d
  ELSE LET bumped == Bump(d.dirt, ChildRefs(s))          \* children that are dirty get one more parent
       IN Db([x \in DOMAIN d.dirt \cup {s} |-> IF x = s THEN 0 ELSE bumped[x]], Append(d.order, s), d.disk)

(* Database.Update(root, parent, nodes): every non-deleted node, in DESCENDING path order        *)
(* (NodeSet.ForEachWithOrder), so that children are present when their parent is inserted.        *)
RECURSIVE InsertAll(_, _)
InsertAll(d, nodes) ==
  IF nodes = {} THEN d
  ELSE LET top == CHOOSE x \in nodes : \A y \in nodes : y = x \/ SeqLess(y[1], x[1])
       IN InsertAll(DbInsert(d, top[2]), nodes \ {top})

(* Database.Reference(root, common.Hash{}) *)
DbReference(d, s) == IF s \in DOMAIN d.dirt THEN [d EXCEPT !.dirt[s] = @ + 1] ELSE d

(* Database.dereference(hash): [d, with the node and everything only it kept alive removed] *)
RemoveFrom(f, s) == [x \in DOMAIN f \ {s} |-> f[x]]
SeqWithout(q, s) == SelectSeq(q, LAMBDA x : x # s)
RECURSIVE DbDeref(_, _), DerefAll(_, _)
DbDeref(d, s) ==
  IF s \notin DOMAIN d.dirt THEN d
  ELSE LET p == IF d.dirt[s] > 0 THEN d.dirt[s] - 1 ELSE 0 IN
       IF p > 0 THEN [d EXCEPT !.dirt[s] = p]
       ELSE LET d1 == DerefAll([d EXCEPT !.dirt[s] = 0], ChildRefs(s))
            IN Db(RemoveFrom(d1.dirt, s), SeqWithout(d1.order, s), d1.disk)
DerefAll(d, seq) == IF seq = <<>> THEN d ELSE DerefAll(DbDeref(d, Head(seq)), Tail(seq))

(* Database.Commit(root): the dirty part of the root's graph goes to disk and leaves the memory  *)
RECURSIVE DirtyGraph(_, _), DirtyGraphAll(_, _)
DirtyGraph(d, s) == IF s \notin DOMAIN d.dirt THEN {} ELSE {s} \cup DirtyGraphAll(d, ChildRefs(s))
DirtyGraphAll(d, seq) == IF seq = <<>> THEN {} ELSE DirtyGraph(d, Head(seq)) \cup DirtyGraphAll(d, Tail(seq))
DbCommit(d, s) ==
  LET g == DirtyGraph(d, s)
  IN Db([x \in DOMAIN d.dirt \ g |-> d.dirt[x]], SelectSeq(d.order, LAMBDA x : x \notin g), d.disk \cup g)

(* Database.Cap(0): everything is flushed, oldest first *)
DbCapAll(d) == Db(EmptyFn, <<>>, d.disk \cup DOMAIN d.dirt)
====================================================================================
