-------------------------------- MODULE MC_Derive --------------------------------
(* types.DeriveSha (types/hashing.go): the root of a list (transactions, receipts)  *)
(* is the root of the trie  rlp(index) -> item.  DeriveSha feeds the hasher in the  *)
(* order 1..127, 0, 128.. -- which is the ascending order of the KEYS rlp(index),   *)
(* as the streaming StackTrie requires.  One initial state per list length n; the   *)
(* key universe is rlp(0) .. rlp(MaxLen-1) in ascending byte order.                 *)
(* Also read by the regular trie (DeriveSha accepts any TrieHasher).                *)
EXTENDS MPT, Json

CONSTANT MaxLen            \* lists of 0..MaxLen items (MaxLen > 128 crosses the two-byte index encoding)

\* position of the key of index 0 (0x80) in ascending key order: after 0x01..0x7f, as far as they exist
P0 == IF MaxLen < 128 THEN MaxLen ELSE 128

\* rlp.AppendUint64(i) for i < 65536
RlpUint(i) == IF i = 0 THEN <<128>>
              ELSE IF i < 128 THEN <<i>>
              ELSE IF i < 256 THEN <<129, i>>
              ELSE <<130, i \div 256, i % 256>>
\* list index of the j-th key in ascending key order: 1..127, then 0, then 128, 129, ...
IndexOf(j) == IF j < P0 THEN j ELSE IF j = P0 THEN 0 ELSE j - 1
DKeys == [j \in 1..MaxLen |-> RlpUint(IndexOf(j))]
\* the value class of item i
ItemClass(i) == (i % NV) + 1

CONSTANT Lens              \* the list lengths tried (a subset of 0..MaxLen)
ASSUME Lens \subseteq 0..MaxLen

VARIABLE n
Init == n \in Lens
Next == UNCHANGED n
Spec == Init /\ [][Next]_n

\* the content of the trie of a list of n items
ListContent == [j \in KIdx |-> IF IndexOf(j) < n THEN ItemClass(IndexOf(j)) ELSE Absent]
\* DeriveSha's feeding order: positions (in ascending key order) of the keys it passes to Update, in order
FeedOrder == LET a == [x \in 1..(IF n - 1 < 127 THEN (IF n - 1 < 0 THEN 0 ELSE n - 1) ELSE 127) |-> x]  \* i = 1 .. min(n-1, 0x7f)
                 b == IF n > 0 THEN <<P0>> ELSE <<>>                                                    \* i = 0
                 d == [x \in 1..(IF n > 128 THEN n - 128 ELSE 0) |-> 128 + x]                            \* i = 0x80 .. n-1
             IN a \o b \o d
\* every item is fed exactly once, in ascending key order
FeedAscending == /\ \A x \in 1..(Len(FeedOrder) - 1) : FeedOrder[x] < FeedOrder[x + 1]
                 /\ {FeedOrder[x] : x \in 1..Len(FeedOrder)} = {j \in KIdx : ListContent[j] # Absent}
\* rlp(index) keys are prefix-free, so the stack trie is defined and builds the canonical tree
StackOK == PrefixFree(ListContent) /\ StackTree(ListContent).t = "hashed" /\ StackTree(ListContent).h = Canon(ListContent)
Inv == FeedAscending /\ StackOK /\ KeyBytes = DKeys

Dump == PrintT(ToJson([n |-> n, t |-> J(Canon(ListContent))]))
=================================================================================
