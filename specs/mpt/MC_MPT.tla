--------------------------------- MODULE MC_MPT ---------------------------------
(* Histories of Update / Delete over the key universe: the model that states       *)
(* "the trie after ANY history is the canonical trie of its content".              *)
(*                                                                                 *)
(* BFS with VIEW = <<tree, content>> (the history is hidden) visits every          *)
(* reachable (tree, content) once and generates EVERY transition out of it; every  *)
(* transition is printed by the action constraint Dump as {h: history, c: content} *)
(* and replayed into the real trie.Trie.  Because Canonical holds, the expected    *)
(* tree of a line is a function of c and is taken from the table printed by        *)
(* MC_Table (Inline = FALSE); for universes too large for a table (depth-bounded   *)
(* BFS, simulation) the line carries tree and iterator sequence itself             *)
(* (Inline = TRUE).                                                                *)
EXTENDS MPT, Json

CONSTANTS MaxOps,   \* bound on the history length (0 = none: BFS ends when every content is reached)
          Inline,   \* TRUE: dump lines carry the expected tree
          Sample,   \* 1: every transition; K > 1: a pseudo-random 1/K of the transitions (deep histories in large universes)
          Salt,     \* selects which ones (from VERIF_SEED)
          FullDepth \* histories up to this length are never dropped

VARIABLES tree, content, hist
vars == <<tree, content, hist>>

Init == tree = NilN /\ content = [i \in KIdx |-> Absent] /\ hist = <<>>

(* Sampling for universes whose graph is too large: a transition is kept iff a hash of its    *)
(* WHOLE history falls into the class selected by Salt.  What is kept is still a transition  *)
(* of the specification from a reachable state, with its complete history; the search below  *)
(* a dropped transition is cut, so the kept ones form a random tree of depth MaxOps.         *)
RECURSIVE HistHash(_, _)
HistHash(h, acc) == IF h = <<>> THEN acc
                    ELSE HistHash(Tail(h), (acc * 131 + Head(h)[2] * 17 + Head(h)[3] * 5
                                            + (IF Head(h)[1] = "del" THEN 3 ELSE 1)) % 1000003)
\* (IF, not a disjunction: TLC would enumerate every true disjunct of an action conjunct as a branch of its own)
Keep(h) == IF Sample = 1 \/ Len(h) <= FullDepth THEN TRUE ELSE HistHash(h, Salt % 1000) % Sample = 0

\* (evaluated first, so that the successor of a dropped transition is not even computed)
Kept(op) == Keep(Append(hist, op))

\* Trie.Update(key, value); v = 0 is the empty value (D1: it deletes)
DoPut(i, v) == /\ Kept(<<"put", i, v>>)
               /\ tree' = Update(tree, i, v)
               /\ content' = [content EXCEPT ![i] = v]
               /\ hist' = Append(hist, <<"put", i, v>>)
\* Trie.Delete(key)
DoDel(i)    == /\ Kept(<<"del", i, 0>>)
               /\ tree' = Remove(tree, i)
               /\ content' = [content EXCEPT ![i] = Absent]
               /\ hist' = Append(hist, <<"del", i, 0>>)
Next == /\ MaxOps = 0 \/ Len(hist) < MaxOps
        /\ \E i \in KIdx : (\E v \in 0..NV : DoPut(i, v)) \/ DoDel(i)
Spec == Init /\ [][Next]_vars

View == <<tree, content>>

(* C07, first sentence. *)
\* the root hash is a function of the content alone: the tree IS the canonical one, whatever the order
Canonical == tree = Canon(content)
\* every key returns exactly the last value written (absent if deleted or never written)
GetOK     == \A i \in KIdx : Lookup(tree, i) = content[i]
Shape     == WellFormedRoot(tree)
Inv       == Canonical /\ GetOK /\ Shape

Dump == PrintT(ToJson(IF Inline
                      THEN [h |-> hist', c |-> content', t |-> J(tree'), p |-> Walk(tree'), sd |-> PrefixFree(content'),
                            sf |-> SeekAll(tree')]
                      ELSE [h |-> hist', c |-> content']))
=================================================================================
