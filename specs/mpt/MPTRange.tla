--------------------------------- MODULE MPTRange ---------------------------------
(***************************************************************************)
(* Range proofs: trie/proof.go VerifyRangeProof(root, firstKey, lastKey,    *)
(* keys, values, proof).  The caller claims "the pairs (keys, values) are   *)
(* exactly the entries of the trie with root `root` whose keys lie in       *)
(* [firstKey, lastKey]" and supports the claim with the two single-key      *)
(* proofs of firstKey and lastKey (either may be a proof of absence).  The  *)
(* function returns (more, nil) when it accepts -- more = there are entries *)
(* to the right of the claimed ones -- and an error otherwise.              *)
(*                                                                         *)
(* This module states WHAT must be accepted (the contract in the function's *)
(* comment), not how the code decides (it re-builds the trie between the    *)
(* two edge paths).  Domain, as in the code ("inconsistent edge keys"):     *)
(* all keys have the same length.                                           *)
(*                                                                         *)
(* A claim is a function cl : KIdx -> 0..NV (0 = key not claimed); edge     *)
(* keys are universe keys, given by index f <= l (they need not be present).*)
(***************************************************************************)
EXTENDS MPT

ASSUME EqualLength == \A i, j \in KIdx : Len(KeyBytes[i]) = Len(KeyBytes[j])

Claimed(cl)       == {i \in KIdx : cl[i] # Absent}
Restrict(c, f, l) == [i \in KIdx |-> IF f <= i /\ i <= l THEN c[i] ELSE Absent]
MoreRight(c, j)   == \E i \in KIdx : i > j /\ c[i] # Absent
MaxOf(S)          == CHOOSE x \in S : \A y \in S : y <= x

\* outcomes: "err" | "ok" (accepted, nothing to the right) | "more" (accepted, entries follow)
Acc(more) == IF more THEN "more" ELSE "ok"

(* With edge proofs (proof # nil), by the cases of the function's comment. *)
RangeSpec(c, f, l, cl) ==
  LET n == Cardinality(Claimed(cl)) IN
  IF \A i \in KIdx : c[i] = Absent THEN "err"          \* D2: the empty trie has no node a proof could start from
  ELSE IF n = 0
  THEN \* zero-element proof: only accepted at the end of the trie (nothing at or after firstKey)
       IF c[f] = Absent /\ ~MoreRight(c, f) THEN "ok" ELSE "err"
  ELSE IF n = 1 /\ f = l
  THEN \* one-element proof: that key, that value, and it must exist
       IF cl[f] # Absent /\ cl[f] = c[f] THEN Acc(MoreRight(c, f)) ELSE "err"
  ELSE IF f >= l THEN "err"                              \* "invalid edge keys"
  ELSE \* the claim must be EXACTLY the content of the range: no pair missing, none added, none altered,
       \* and nothing claimed outside [firstKey, lastKey]
       IF cl = Restrict(c, f, l) THEN Acc(MoreRight(c, MaxOf(Claimed(cl)))) ELSE "err"

(* Without proof (proof = nil): the claim must be the whole trie. *)
WholeSpec(c, cl) == IF cl = c THEN "ok" ELSE "err"

(* The claims tried: the truth and every one-point deviation from it (a pair dropped, added, or its *)
(* value changed), inside AND outside the range.                                                    *)
Claims(truth) == {truth} \cup {[truth EXCEPT ![i] = v] : i \in KIdx, v \in 0..NV}
===================================================================================
