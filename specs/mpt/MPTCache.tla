--------------------------------- MODULE MPTCache ---------------------------------
(***************************************************************************)
(* The trie as the code really holds it: partially loaded from the node     *)
(* database, with per-node cache flags.  Refinement of MPT.tla (property    *)
(* C07: "independent of intermediate commits", "a committed trie reopened   *)
(* from its database by root hash has the same content", and the bug        *)
(* classes named by the property: dirty-flag caching, embedded small nodes, *)
(* collapse on delete when the surviving child is not loaded).              *)
(*                                                                         *)
(* A node is what MPT.tla has, plus                                         *)
(*   - on shortNode / fullNode the nodeFlag of trie/node.go:                *)
(*       f.h  the cached hash (NoHash = nil).  A hash is represented by the *)
(*            plain subtree it is the hash of (injective keccak), so that   *)
(*            "the cached hash is stale" is expressible: f.h # Plain(node)  *)
(*       f.d  dirty: not yet written to the database                        *)
(*   - hashNode: HashN(s), a reference to the subtree s that has not been   *)
(*     loaded; it is resolved through the database (a set of subtrees).     *)
(*                                                                         *)
(* Transcribed: trie/trie.go get / insert / delete with resolveAndTrack and *)
(* resolve, trie/node.go decodeNode (DecodeWith), trie/hasher.go hash       *)
(* (CHash), trie/committer.go commit / store (CCommit), Trie.Commit and     *)
(* trie.New (reopen).  Not modelled: the tracer (its deletion markers are   *)
(* only used by a path-based database, which this code base does not have;  *)
(* triedb/hashdb ignores them), the `unhashed` counter (it only selects the *)
(* parallel hasher), preimages.                                             *)
(*                                                                         *)
(* A node missing from the database (MissingNodeError) is outside the       *)
(* specified behaviour: Resolve asserts, and Backed (an invariant of        *)
(* MC_Cache) says why it cannot happen.                                     *)
(***************************************************************************)
EXTENDS MPT

NoHash        == [t |-> "nohash"]
Flag(h, d)    == [h |-> h, d |-> d]
NewFlag       == Flag(NoHash, TRUE)                      \* Trie.newFlag()
CShort(k, c, f) == [t |-> "short", k |-> k, c |-> c, f |-> f]
CFull(ch, f)    == [t |-> "full", ch |-> ch, f |-> f]
HashN(s)        == [t |-> "hash", s |-> s]
Structural(n)   == n.t \in {"short", "full"}

(* The abstraction function: the MPT.tla tree a partially loaded trie stands for. *)
RECURSIVE Plain(_)
Plain(n) == CASE n.t = "short" -> Short(n.k, Plain(n.c))
              [] n.t = "full"  -> Full([i \in 0..16 |-> Plain(n.ch[i])])
              [] n.t = "hash"  -> n.s
              [] OTHER         -> n

(* decodeNode(hash, blob): one database entry becomes one node whose hashed children are     *)
(* hashNodes and whose embedded children are decoded in place (decodeRef -> decodeNode(nil)). *)
RECURSIVE DecodeWith(_, _), DecodeRef(_)
DecodeRef(c) == IF c.t \in {"nil", "val"} THEN c
                ELSE IF Hashed(c) THEN HashN(c)
                ELSE DecodeWith(c, NoHash)
DecodeWith(s, h) ==
  CASE s.t = "short" -> CShort(s.k, DecodeRef(s.c), Flag(h, FALSE))
    [] s.t = "full"  -> CFull([i \in 0..16 |-> DecodeRef(s.ch[i])], Flag(h, FALSE))
(* Trie.resolveAndTrack(hash, prefix) *)
Resolve(s, db) == IF s \in db THEN DecodeWith(s, s) ELSE Assert(FALSE, "MissingNodeError")

(* Trie.get: [v |-> value, n |-> node with the loaded part linked in, r |-> didResolve] *)
RECURSIVE CGet(_, _, _)
CGet(n, key, db) ==
  CASE n.t = "nil"   -> [v |-> Absent, n |-> n, r |-> FALSE]
    [] n.t = "val"   -> [v |-> n.v, n |-> n, r |-> FALSE]
    [] n.t = "short" -> IF ~IsPrefix(n.k, key) THEN [v |-> Absent, n |-> n, r |-> FALSE]
                        ELSE LET g == CGet(n.c, DropN(key, Len(n.k)), db)
                             IN [v |-> g.v, n |-> IF g.r THEN [n EXCEPT !.c = g.n] ELSE n, r |-> g.r]
    [] n.t = "full"  -> LET g == CGet(n.ch[key[1]], Tail(key), db)
                        IN [v |-> g.v, n |-> IF g.r THEN [n EXCEPT !.ch[key[1]] = g.n] ELSE n, r |-> g.r]
    [] n.t = "hash"  -> LET g == CGet(Resolve(n.s, db), key, db)
                        IN [v |-> g.v, n |-> g.n, r |-> TRUE]

(* Trie.insert: [d |-> dirty, n |-> node].  Every node on the path to a change is re-created *)
(* with newFlag(): no cached hash, dirty.  An insert that changes nothing returns dirty =    *)
(* false and the caller keeps its old node (including an unloaded hashNode child).           *)
RECURSIVE CInsert(_, _, _, _)
CInsert(n, key, vn, db) ==
  IF key = <<>> THEN (IF n.t = "val" THEN [d |-> n.v # vn.v, n |-> vn] ELSE [d |-> TRUE, n |-> vn])
  ELSE CASE n.t = "short" ->
              LET m == PrefixLen(key, n.k) IN
              IF m = Len(n.k)
              THEN LET r == CInsert(n.c, DropN(key, m), vn, db)
                   IN IF ~r.d THEN [d |-> FALSE, n |-> n] ELSE [d |-> TRUE, n |-> CShort(n.k, r.n, NewFlag)]
              ELSE LET a  == CInsert(NilN, DropN(n.k, m + 1), n.c, db).n
                       b  == CInsert(NilN, DropN(key, m + 1), vn, db).n
                       br == CFull([[EmptyCh EXCEPT ![n.k[m + 1]] = a] EXCEPT ![key[m + 1]] = b], NewFlag)
                   IN [d |-> TRUE, n |-> IF m = 0 THEN br ELSE CShort(TakeN(key, m), br, NewFlag)]
         [] n.t = "full" ->
              LET r == CInsert(n.ch[key[1]], Tail(key), vn, db)
              IN IF ~r.d THEN [d |-> FALSE, n |-> n]
                 ELSE [d |-> TRUE, n |-> CFull([n.ch EXCEPT ![key[1]] = r.n], NewFlag)]
         [] n.t = "nil"  -> [d |-> TRUE, n |-> CShort(key, vn, NewFlag)]
         [] n.t = "hash" ->
              LET rn == Resolve(n.s, db)
                  r  == CInsert(rn, key, vn, db)
              IN IF ~r.d THEN [d |-> FALSE, n |-> rn] ELSE [d |-> TRUE, n |-> r.n]
         [] n.t = "val"  -> Assert(FALSE, "insert: value node with non-empty key")

(* Trie.delete.  When a full node is left with one child, that child is loaded (t.resolve)   *)
(* only to see whether it is a short node; if it is not, the ORIGINAL (possibly unloaded)    *)
(* child is kept under the new one-nibble short node.                                        *)
RECURSIVE CDelete(_, _, _)
CDelete(n, key, db) ==
  CASE n.t = "short" ->
         LET m == PrefixLen(key, n.k) IN
         IF m < Len(n.k) THEN [d |-> FALSE, n |-> n]
         ELSE IF m = Len(key) THEN [d |-> TRUE, n |-> NilN]
         ELSE LET r == CDelete(n.c, DropN(key, Len(n.k)), db) IN
              IF ~r.d THEN [d |-> FALSE, n |-> n]
              ELSE IF r.n.t = "short" THEN [d |-> TRUE, n |-> CShort(n.k \o r.n.k, r.n.c, NewFlag)]
              ELSE [d |-> TRUE, n |-> CShort(n.k, r.n, NewFlag)]
    [] n.t = "full" ->
         LET r == CDelete(n.ch[key[1]], Tail(key), db) IN
         IF ~r.d THEN [d |-> FALSE, n |-> n]
         ELSE LET ch == [n.ch EXCEPT ![key[1]] = r.n] IN
              IF r.n.t # "nil" \/ Cardinality(Live(ch)) # 1 THEN [d |-> TRUE, n |-> CFull(ch, NewFlag)]
              ELSE LET pos   == CHOOSE i \in Live(ch) : TRUE
                       cnode == IF pos # 16 /\ ch[pos].t = "hash" THEN Resolve(ch[pos].s, db) ELSE ch[pos]
                   IN IF pos # 16 /\ cnode.t = "short"
                      THEN [d |-> TRUE, n |-> CShort(<<pos>> \o cnode.k, cnode.c, NewFlag)]
                      ELSE [d |-> TRUE, n |-> CShort(<<pos>>, ch[pos], NewFlag)]
    [] n.t = "val"  -> [d |-> TRUE,  n |-> NilN]
    [] n.t = "nil"  -> [d |-> FALSE, n |-> NilN]
    [] n.t = "hash" ->
         LET rn == Resolve(n.s, db)
             r  == CDelete(rn, key, db)
         IN IF ~r.d THEN [d |-> FALSE, n |-> rn] ELSE [d |-> TRUE, n |-> r.n]

(* hasher.hash(n, force).  HashVal(n) is what the hasher computes for n: it trusts a cached  *)
(* hash and otherwise builds the encoding from what it computes for the children.            *)
RECURSIVE HashVal(_)
HashVal(n) == CASE n.t = "hash" -> n.s
                [] Structural(n) -> IF n.f.h # NoHash THEN n.f.h
                                    ELSE IF n.t = "short" THEN Short(n.k, HashVal(n.c))
                                    ELSE Full([i \in 0..16 |-> HashVal(n.ch[i])])
                [] OTHER -> n
\* returns the `cached` tree: the same tree with the hash remembered in every node that is >= 32 bytes (or forced)
RECURSIVE CHash(_, _)
CHash(n, force) ==
  IF ~Structural(n) \/ n.f.h # NoHash THEN n
  ELSE LET n1 == IF n.t = "short"
                 THEN [n EXCEPT !.c = CHash(@, FALSE)]
                 ELSE [n EXCEPT !.ch = [i \in 0..16 |-> IF i < 16 THEN CHash(@[i], FALSE) ELSE @[i]]]
           hv == HashVal(n1)
       IN [n1 EXCEPT !.f.h = IF force \/ EncLen(hv) >= 32 THEN hv ELSE NoHash]
\* Trie.Hash(): the (abstract) root hash and the trie afterwards
RootOf(n) == IF n.t = "nil" THEN NilN ELSE CHash(n, TRUE).f.h

(* committer.commit(path, n) on a hashed trie: the set of <<path, subtree>> handed to the    *)
(* database.  A node with a cached hash that is not dirty is skipped WITH its subtree; a     *)
(* node without hash is embedded in its parent and not stored (store: hash == nil).          *)
RECURSIVE CCommit(_, _)
CStore(n, path) == IF n.f.h = NoHash THEN {} ELSE {<<path, n.f.h>>}
CCommit(n, path) ==
  IF ~Structural(n) THEN {}
  ELSE IF n.f.h # NoHash /\ ~n.f.d THEN {}
  ELSE IF n.t = "short"
       THEN (IF n.c.t = "full" THEN CCommit(n.c, path \o n.k) ELSE {}) \cup CStore(n, path)
       ELSE UNION {CCommit(n.ch[i], path \o <<i>>) : i \in 0..15} \cup CStore(n, path)

(* Trie.Commit(false): [root |-> root hash, nodes |-> node set (empty when the trie is clean)] *)
CommitOf(n) ==
  IF n.t = "nil" THEN [root |-> NilN, nodes |-> {}]
  ELSE LET h == CHash(n, TRUE)
       IN [root |-> h.f.h, nodes |-> IF h.f.d THEN CCommit(h, <<>>) ELSE {}]
\* Database.Update(root, parent, nodes): hashdb inserts every non-deleted node under its hash
DbUpdate(db, nodes) == db \cup {x[2] : x \in nodes}
\* trie.New(TrieID(root), db)
Open(rootS, db) == IF rootS.t = "nil" THEN NilN ELSE Resolve(rootS, db)

-----------------------------------------------------------------------------
(* Invariants that explain why the flags are sufficient. *)

\* every hashed subtree below (and including, if hashed) s is in the database
RECURSIVE ClosedSub(_, _)
ClosedSub(s, db) ==
  CASE s.t = "short" -> (Hashed(s) => s \in db) /\ ClosedSub(s.c, db)
    [] s.t = "full"  -> (Hashed(s) => s \in db) /\ \A i \in 0..15 : ClosedSub(s.ch[i], db)
    [] OTHER         -> TRUE
\* a root can be opened and completely read
Readable(rootS, db) == rootS.t = "nil" \/ (rootS \in db /\ ClosedSub(rootS, db))

\* whatever the handle does not hold as dirty nodes can be loaded
RECURSIVE Backed(_, _)
Backed(n, db) ==
  CASE n.t = "hash"  -> n.s \in db /\ ClosedSub(n.s, db)
    [] n.t = "short" -> (~n.f.d /\ n.f.h # NoHash => n.f.h \in db) /\ Backed(n.c, db)
    [] n.t = "full"  -> (~n.f.d /\ n.f.h # NoHash => n.f.h \in db) /\ \A i \in 0..15 : Backed(n.ch[i], db)
    [] OTHER         -> TRUE
\* a cached hash is never stale
RECURSIVE CacheSound(_)
CacheSound(n) ==
  CASE n.t = "short" -> (n.f.h # NoHash => n.f.h = Plain(n)) /\ CacheSound(n.c)
    [] n.t = "full"  -> (n.f.h # NoHash => n.f.h = Plain(n)) /\ \A i \in 0..15 : CacheSound(n.ch[i])
    [] OTHER         -> TRUE
\* dirtiness is closed upwards: the committer may stop at a clean hashed node
IsDirty(n) == Structural(n) /\ n.f.d
RECURSIVE DirtyUp(_)
DirtyUp(n) ==
  CASE n.t = "short" -> (IsDirty(n.c) => n.f.d) /\ DirtyUp(n.c)
    [] n.t = "full"  -> \A i \in 0..15 : (IsDirty(n.ch[i]) => n.f.d) /\ DirtyUp(n.ch[i])
    [] OTHER         -> TRUE
\* a clean node without hash is an embedded node: its encoding is short
RECURSIVE CleanShape(_, _)
CleanShape(n, isRoot) ==
  CASE n.t = "short" -> (~n.f.d /\ n.f.h = NoHash => ~isRoot /\ ~Hashed(Plain(n))) /\ CleanShape(n.c, FALSE)
    [] n.t = "full"  -> (~n.f.d /\ n.f.h = NoHash => ~isRoot /\ ~Hashed(Plain(n)))
                        /\ \A i \in 0..15 : CleanShape(n.ch[i], FALSE)
    [] OTHER         -> TRUE
====================================================================================
