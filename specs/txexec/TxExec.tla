------------------------------- MODULE TxExec -------------------------------
(***************************************************************************)
(* Transaction execution of go-kardia: value conservation, gas and nonce    *)
(* accounting.  Property C09.                                               *)
(*                                                                         *)
(* Transcribed code (one operator per function / critical section):         *)
(*                                                                         *)
(*   mainchain/blockchain/state_processor.go                                *)
(*     ApplyTransaction       -> Class (signature), ApplyTx, Finalise        *)
(*     StateTransition.preCheck / buyGas / TransitionDb / refundGas          *)
(*                            -> Class, BuyGas, Execute, Settle             *)
(*   kvm/kvm.go  Call, CallCode, DelegateCall, StaticCall, create           *)
(*   kvm/instructions.go  opSuicide                                          *)
(*                            -> the frame machine Step / Fold (snapshot on  *)
(*                               entry, transfer inside the frame, restore   *)
(*                               of the snapshot when the frame fails)       *)
(*   mainchain/kvm/kvm.go  CanTransfer, Transfer  -> the guards and Move     *)
(*   kvm/gas.go gasCall.. / callGas, kvm/instructions.go opCall.. (gas only)  *)
(*                            -> FrameGasSound, CallGasExact                 *)
(*   types/gas_pool.go  SubGas / AddGas           -> the `pool` field        *)
(*   mainchain/tx_pool/tx_pool_utils.go IntrinsicGas -> the field tx.intr    *)
(*     (taken from the real function, see below)                            *)
(*   mainchain/blockchain/block_operations.go  commitBlock                   *)
(*                            -> one iteration of the transaction loop =     *)
(*                               ApplyTx or RejectTx; Executed (the block)   *)
(*   state_processor.go  StateProcessor.Process -> FirstRefused              *)
(*                                                                         *)
(* Style: functional.  A world is a record, every operator returns a record *)
(* with the new world and the observable results, so that the same           *)
(* operators serve the exhaustive model (MC_TxExec), the abstract cases      *)
(* replayed into the real code (MC_TxExec's Dump) and the validation of      *)
(* traces recorded from the real code (TxExecTrace).                         *)
(*                                                                         *)
(* What is NOT derived here but taken from the environment (model: chosen    *)
(* nondeterministically; trace: logged by the driver from the real run):     *)
(*   - the intrinsic gas of a transaction (tx.intr) -- the real IntrinsicGas *)
(*     is called by the driver; the specification only requires              *)
(*     gas limit >= intrinsic and gas used >= intrinsic;                     *)
(*   - what the byte code does: the sequence of frame events below the       *)
(*     top-level frame (ex.fr), whether the top-level frame succeeds         *)
(*     (ex.ok), the gas it consumes (ex.eg), the refund counter (ex.rc),     *)
(*     the code a creation deploys (ex.cc) and the storage contents of the   *)
(*     contexts that executed code (ex.st).                                  *)
(* Everything else -- every balance, every nonce, the gas pool, gas used,    *)
(* the refund, which accounts may change code or storage at all -- is        *)
(* determined by the operators below.                                        *)
(*                                                                         *)
(* Deliberate deviations from / generalisations of the code, by name:        *)
(*   CALLER-RESTORES-POOL  commitBlock is specified to give back to the gas  *)
(*     pool what a transaction rejected after buyGas (intrinsic gas,         *)
(*     insufficient funds for the transfer) had taken (RejectTx).  The       *)
(*     unchanged code does not (constant CallerRestoresPool = FALSE models   *)
(*     it).  ApplyTransaction itself may leave the deduction behind: that is *)
(*     the callee's contract here (as in upstream go-ethereum, whose miner   *)
(*     restores the pool).                                                   *)
(*   DEAD-BENEFICIARY  the statement's only exception to conservation is     *)
(*     "funds self-destructed to their own address".  The mechanism behind   *)
(*     it (the account is deleted at the end of the transaction together     *)
(*     with whatever it holds) also destroys value that reaches an account   *)
(*     AFTER it self-destructed in the same transaction.  The specification  *)
(*     counts both, separately (burnS / burnL), see Finalise.                *)
(*   EXISTENCE  whether an empty account exists in the trie (EIP-158 touch   *)
(*     deletion) is not modelled; the trace module checks it for rejected    *)
(*     transactions only.                                                    *)
(*   INNER-COLLISION  a CREATE inside byte code whose target address is      *)
(*     occupied bumps the creator's nonce without opening a frame; the       *)
(*     drivers do not produce that case (the top-level case is modelled).    *)
(***************************************************************************)
EXTENDS Integers, Sequences, FiniteSets, TLC

CONSTANTS NA,                  \* accounts are the slots 1..NA
          CallerRestoresPool   \* TRUE: commitBlock as specified; FALSE: as the unchanged code

Acct == 1..NA

Min(a, b) == IF a < b THEN a ELSE b

RECURSIVE SumOver(_, _)
SumOver(f, S) == IF S = {} THEN 0
                 ELSE LET a == CHOOSE x \in S : TRUE IN f[a] + SumOver(f, S \ {a})
Total(bal) == SumOver(bal, Acct)

(***************************************************************************)
(* World = the state one block execution works on.                          *)
(*   bal, nonce : per account                                               *)
(*   code       : per account, 0 = no code, otherwise an opaque code id     *)
(*   stor       : per account, 0 = empty storage, otherwise an opaque id    *)
(*                of the storage contents                                    *)
(*   pool       : types.GasPool of the block                                *)
(*   cb         : header.ProposerAddress (KVM coinbase)                     *)
(*   burnS      : value destroyed so far by SELFDESTRUCT to the own address *)
(*   burnL      : value destroyed so far because it sat in an account that  *)
(*                was deleted at the end of the transaction (DEAD-BENEFICIARY) *)
(***************************************************************************)

(***************************************************************************)
(* Transaction = [from, to, new, nonce, value, gas, price, intr, sig]       *)
(*   to = 0: contract creation, `new` = slot of the address it creates      *)
(*   sig = 1: the signature recovers `from` (tx.AsMessage succeeds)         *)
(***************************************************************************)

(* Result class of a transaction in world w, in the order the code tests:   *)
(*   ApplyTransaction: AsMessage                       -> "sig"             *)
(*   preCheck: nonce                                   -> "nonce-high/low"  *)
(*   buyGas: balance < gas * price                     -> "funds-gas"       *)
(*   buyGas: gp.SubGas                                 -> "gaspool"         *)
(*   --- gas is bought: balance and pool are charged ---                    *)
(*   TransitionDb: gas < intrinsic                     -> "intrinsic"       *)
(*   TransitionDb: value > 0 /\ ~CanTransfer           -> "funds-transfer"  *)
(*   otherwise the transaction is executed             -> "exec"            *)
Class(w, tx) ==
  IF tx.sig = 0 THEN "sig"
  ELSE IF w.nonce[tx.from] < tx.nonce THEN "nonce-high"
  ELSE IF w.nonce[tx.from] > tx.nonce THEN "nonce-low"
  ELSE IF w.bal[tx.from] < tx.gas * tx.price THEN "funds-gas"
  ELSE IF w.pool < tx.gas THEN "gaspool"
  ELSE IF tx.gas < tx.intr THEN "intrinsic"
  ELSE IF tx.value > 0 /\ w.bal[tx.from] - tx.gas * tx.price < tx.value THEN "funds-transfer"
  ELSE "exec"

RejectClasses == {"sig", "nonce-high", "nonce-low", "funds-gas", "gaspool", "intrinsic", "funds-transfer"}
\* rejected after buyGas: ApplyTransaction returns with balance and pool charged
Late(c) == c \in {"intrinsic", "funds-transfer"}

(***************************************************************************)
(* The frame machine: what kvm.Call / CallCode / DelegateCall / StaticCall  *)
(* / create and SELFDESTRUCT do to balances, nonces, code and the set of    *)
(* destructed accounts, including the snapshot taken when a frame is        *)
(* entered and its restoration when the frame fails.                        *)
(*                                                                         *)
(* Machine state X:                                                         *)
(*   bal, nonce, code  as in the world, being modified                      *)
(*   wr    accounts whose storage a frame still in effect may have written  *)
(*   dead  accounts that executed SELFDESTRUCT in a frame still in effect   *)
(*   burn  value destroyed by SELFDESTRUCT to the own address (ditto)       *)
(*   fs    frame stack, innermost last; a frame is                          *)
(*           [ctx  : the account whose balance / storage the code acts on,  *)
(*            ro   : inside a STATICCALL,                                   *)
(*            cr   : a creation frame,                                      *)
(*            runs : byte code executes in it (events can originate here),  *)
(*            sv   : the snapshot taken on entry]                           *)
(*   err   "" or the reason why an event cannot happen after this state     *)
(*                                                                         *)
(* Event = <<kind, from, to, val, flag>>                                    *)
(*   "call" "ccode" "dcall" "scall" "create" : a frame is entered           *)
(*   "sd"   : SELFDESTRUCT of `from` with beneficiary `to`, val = the       *)
(*            amount it moves (must be the whole balance)                   *)
(*   "exit" : the innermost frame ends, flag = 1 without error; `to` = code *)
(*            id deployed (creation frames)                                 *)
(***************************************************************************)
Saved(X) == [bal |-> X.bal, nonce |-> X.nonce, code |-> X.code, wr |-> X.wr, dead |-> X.dead, burn |-> X.burn]
Restore(X, sv) == [X EXCEPT !.bal = sv.bal, !.nonce = sv.nonce, !.code = sv.code, !.wr = sv.wr,
                            !.dead = sv.dead, !.burn = sv.burn]
Push(X, ctx, ro, cr, runs) ==
  [X EXCEPT !.fs = Append(@, [ctx |-> ctx, ro |-> ro, cr |-> cr, runs |-> runs, sv |-> Saved(X)])]
Top(X) == X.fs[Len(X.fs)]
Bad(X, why) == [X EXCEPT !.err = why]

\* mainchain/kvm Transfer: SubBalance(a, v); AddBalance(b, v)
Move(bal, a, b, v) == [c \in Acct |-> bal[c] - (IF c = a THEN v ELSE 0) + (IF c = b THEN v ELSE 0)]

Step(X, ev) ==
  LET k == ev[1]  f == ev[2]  t == ev[3]  v == ev[4]  g == ev[5]
      top == Top(X)
  IN
  IF X.err # "" THEN X
  ELSE IF k = "exit" THEN
    \* the bottom frame is the transaction's own (closed by Execute, not by an event)
    IF Len(X.fs) <= 1 THEN Bad(X, "exit-without-frame")
    ELSE LET X1 == [X EXCEPT !.fs = SubSeq(@, 1, Len(@) - 1)] IN
         IF g = 1
         THEN IF top.cr THEN [X1 EXCEPT !.code[top.ctx] = t]        \* create: SetCode(address, ret)
              ELSE X1
         ELSE Restore(X1, top.sv)                                    \* RevertToSnapshot(snapshot)
  ELSE IF ~top.runs THEN Bad(X, "event-from-frame-without-code")
  ELSE IF f # top.ctx THEN Bad(X, "event-not-from-executing-context")
  ELSE IF t \notin Acct \/ v < 0 THEN Bad(X, "malformed-event")
  ELSE IF k = "call" THEN
    \* kvm.Call: CanTransfer, Snapshot, (CreateAccount), Transfer, run
    IF top.ro /\ v > 0 THEN Bad(X, "value-call-inside-static-call")
    ELSE IF X.bal[f] < v THEN Bad(X, "transfer-exceeds-balance")
    ELSE LET runs == X.code[t] # 0
             P == Push(X, t, top.ro, FALSE, runs) IN
         [P EXCEPT !.bal = Move(X.bal, f, t, v),
                   !.wr = IF runs /\ ~top.ro THEN @ \cup {t} ELSE @]
  ELSE IF k \in {"ccode", "dcall"} THEN
    \* kvm.CallCode / DelegateCall: the callee's code runs on the caller's account; no transfer
    IF k = "dcall" /\ v # 0 THEN Bad(X, "malformed-event")
    ELSE IF X.bal[f] < v THEN Bad(X, "transfer-exceeds-balance")
    ELSE LET runs == X.code[t] # 0
             P == Push(X, f, top.ro, FALSE, runs) IN
         [P EXCEPT !.wr = IF runs /\ ~top.ro THEN @ \cup {f} ELSE @]
  ELSE IF k = "scall" THEN
    \* kvm.StaticCall: nothing below may write
    IF v # 0 THEN Bad(X, "malformed-event")
    ELSE Push(X, t, TRUE, FALSE, X.code[t] # 0)
  ELSE IF k = "create" THEN
    \* kvm.create: CanTransfer; nonce of the creator + 1 (BEFORE the snapshot: it survives a
    \* failing creation); collision check; Snapshot; CreateAccount; SetNonce(new, 1); Transfer; run
    IF top.ro THEN Bad(X, "create-inside-static-call")
    ELSE IF X.bal[f] < v THEN Bad(X, "transfer-exceeds-balance")
    ELSE IF X.nonce[t] # 0 \/ X.code[t] # 0 THEN Bad(X, "create-collision")      \* INNER-COLLISION
    ELSE LET Xn == [X EXCEPT !.nonce[f] = @ + 1]
             P  == Push(Xn, t, FALSE, TRUE, TRUE) IN
         [P EXCEPT !.nonce[t] = 1, !.bal = Move(Xn.bal, f, t, v), !.wr = @ \cup {t}]
  ELSE IF k = "sd" THEN
    \* opSuicide: AddBalance(beneficiary, balance); Suicide(contract) (balance := 0)
    IF top.ro THEN Bad(X, "selfdestruct-inside-static-call")
    ELSE IF v # X.bal[f] THEN Bad(X, "selfdestruct-moves-other-than-the-balance")
    ELSE [X EXCEPT !.bal = [Move(X.bal, f, t, v) EXCEPT ![f] = 0],
                   !.dead = @ \cup {f},
                   !.burn = IF t = f THEN @ + v ELSE @]
  ELSE Bad(X, "unknown-event")

RECURSIVE Fold(_, _, _)
Fold(X, evs, i) == IF i > Len(evs) THEN X ELSE Fold(Step(X, evs[i]), evs, i + 1)

(***************************************************************************)
(* Execute: TransitionDb after the checks -- the nonce of the sender, the   *)
(* top-level frame (kvm.Call to tx.to, or kvm.Create), the byte code's      *)
(* frame events, the end of the top-level frame.                            *)
(*   w1 = the world after BuyGas                                            *)
(*   ex = [fr, ok, eg, rc, cc, st]  the environment's choice                *)
(* Returns the machine state with an empty frame stack.                     *)
(***************************************************************************)
Created(tx) == tx.to = 0
Target(tx) == IF Created(tx) THEN tx.new ELSE tx.to

\* kvm.create's collision test for the transaction's own creation (after the sender's nonce bump)
Collides(w, tx) == Created(tx) /\ (w.nonce[tx.new] # 0 \/ w.code[tx.new] # 0)

\* the machine state when the top-level frame has been entered:
\*   call:   st.state.SetNonce(from, nonce + 1); kvm.Call(sender, to, data, gas, value)
\*   create: kvm.Create -> kvm.create bumps the caller's nonce, new account with nonce 1
Start(w1, tx) ==
  [bal |-> w1.bal, nonce |-> [w1.nonce EXCEPT ![tx.from] = @ + 1], code |-> w1.code,
   wr |-> {}, dead |-> {}, burn |-> 0, fs |-> <<>>, err |-> ""]
EnterTop(w1, tx) ==
  LET tgt  == Target(tx)
      X0   == Start(w1, tx)
      runs == Created(tx) \/ w1.code[tgt] # 0
      P    == Push(X0, tgt, FALSE, Created(tx), runs)
  IN [P EXCEPT !.bal = Move(X0.bal, tx.from, tgt, tx.value),
               !.nonce = IF Created(tx) THEN [@ EXCEPT ![tgt] = 1] ELSE @,
               !.wr = IF runs THEN {tgt} ELSE {}]

Execute(w1, tx, ex) ==
  LET tgt == Target(tx)
      X0  == Start(w1, tx)
      Xr  == Fold(EnterTop(w1, tx), ex.fr, 1)
  IN
  IF Collides(w1, tx)
  THEN \* ErrContractAddressCollision: no frame, all gas gone, only the nonce bump stays
       IF ex.fr # <<>> \/ ex.ok = 1 THEN Bad(X0, "collision-but-executed") ELSE X0
  ELSE IF Xr.err # "" THEN Xr
  ELSE IF Len(Xr.fs) # 1 THEN Bad(Xr, "unclosed-frame")
  ELSE IF ex.ok = 1
       THEN [Xr EXCEPT !.fs = <<>>, !.code = IF Created(tx) THEN [@ EXCEPT ![tgt] = ex.cc] ELSE @]
       ELSE Restore([Xr EXCEPT !.fs = <<>>], Xr.fs[1].sv)

(***************************************************************************)
(* ApplyTx: a transaction of class "exec" from BuyGas to the end of          *)
(* ApplyTransaction (Finalise).  Returns                                     *)
(*   w      the new world                                                   *)
(*   raw    gas used before the refund (intrinsic + top-level frame)         *)
(*   refund gas refunded = min(refund counter, raw / 2)                      *)
(*   used   receipt.GasUsed = raw - refund                                   *)
(*   bs, bl value destroyed by this transaction (self / dead beneficiary)    *)
(*   dead   the accounts this transaction destructed                         *)
(*   err    "" or why (tx, ex) is not a possible execution                   *)
(***************************************************************************)
ApplyTx(w, tx, ex) ==
  LET \* buyGas: SubBalance(from, gas * price); gp.SubGas(gas)
      w1   == [w EXCEPT !.bal[tx.from] = @ - tx.gas * tx.price, !.pool = @ - tx.gas]
      X    == Execute(w1, tx, ex)
      \* gas: the intrinsic part, then what the top-level frame consumed (a collision consumes all)
      raw  == IF Collides(w1, tx) THEN tx.gas ELSE tx.intr + ex.eg
      \* refundGas: refund = min(gasUsed / 2, state.GetRefund()); the rest of the gas is returned
      \* to the sender at the price paid and to the block's pool
      refund == Min(ex.rc, raw \div 2)
      used == raw - refund
      back == tx.gas - used
      bal1 == [X.bal EXCEPT ![tx.from] = @ + back * tx.price]
      \* st.state.AddBalance(coinbase, gasUsed * price)
      bal2 == [bal1 EXCEPT ![w.cb] = @ + used * tx.price]
      \* statedb.Finalise(true): destructed accounts disappear with whatever they hold now
      late == SumOver(bal2, X.dead)
      gone(f) == [a \in Acct |-> IF a \in X.dead THEN 0 ELSE f[a]]
      err  == IF X.err # "" THEN X.err
              ELSE IF ~Collides(w1, tx) /\ (ex.eg < 0 \/ raw > tx.gas) THEN "gas-used-exceeds-limit"
              ELSE IF ex.rc < 0 THEN "negative-refund"
              ELSE IF ex.ok = 0 /\ ex.rc # 0 THEN "refund-counter-survived-revert"
              ELSE ""
  IN [w |-> [w EXCEPT !.bal = gone(bal2), !.nonce = gone(X.nonce), !.code = gone(X.code),
                      !.stor = [a \in Acct |-> IF a \in X.dead THEN 0
                                               ELSE IF a \in X.wr THEN ex.st[a] ELSE w.stor[a]],
                      !.pool = w1.pool + back,
                      !.burnS = @ + X.burn, !.burnL = @ + late],
      raw |-> raw, refund |-> refund, used |-> used, bs |-> X.burn, bl |-> late, dead |-> X.dead, err |-> err]

(***************************************************************************)
(* RejectTx: the iteration of commitBlock's loop for a transaction that      *)
(* ApplyTransaction refuses: state.RevertToSnapshot(snap); continue.         *)
(* As specified the transaction leaves no trace at all (CALLER-RESTORES-POOL).*)
(***************************************************************************)
RejectTx(w, tx) ==
  IF CallerRestoresPool \/ ~Late(Class(w, tx)) THEN w
  ELSE [w EXCEPT !.pool = @ - tx.gas]       \* the unchanged code: the pool keeps the deduction

\* what ApplyTransaction itself may leave in the pool when it returns an error (callee's contract)
RawPoolAfterError(w, tx) == IF Late(Class(w, tx)) THEN {w.pool, w.pool - tx.gas} ELSE {w.pool}

(***************************************************************************)
(* Gas of call frames (kvm/gas.go gasCall / gasCallCode / gasDelegateCall /  *)
(* gasStaticCall / callGas, kvm/instructions.go opCall .. opCreate2).        *)
(*                                                                         *)
(* GasBounds speaks about a whole transaction; it holds for every byte code  *)
(* only if no single call-family instruction hands out gas that was not      *)
(* paid for.  A call-site is one executed CALL / CALLCODE / DELEGATECALL /   *)
(* STATICCALL / CREATE(2):                                                   *)
(*   [kind, vnz, req, gb, gc, cost, ga, entered, passed, used]               *)
(*   vnz      the value operand is not zero -- read as an UNSIGNED 256-bit   *)
(*            word (2^255 and above are values, not negative numbers)        *)
(*   req      the gas operand (-1: does not fit 64 bits)                     *)
(*   gb gc ga gas of the executing frame before the instruction, after it    *)
(*            has been charged, after it has completed                       *)
(*   cost     the instruction's cost as the interpreter computes it          *)
(*   entered  a frame was entered (otherwise the call failed its depth or    *)
(*            balance test and gave everything back)                         *)
(*   passed   gas handed to the entered frame;  used: gas it used            *)
(*                                                                         *)
(* FrameGasSound: the gas a call gives back never exceeds the gas passed to  *)
(* it plus the stipend; what is passed (net of the stipend) has been         *)
(* charged to the caller on top of the value-transfer gas; an entered frame  *)
(* uses at most what it was handed and returns exactly the rest.  The        *)
(* stipend is granted, and the transfer gas charged, iff vnz.                *)
(* Hence a call-family instruction never increases the gas of its frame.     *)
(***************************************************************************)
CallStipend == 2300             \* configs.CallStipend
CallValueTransferGas == 9000    \* configs.CallValueTransferGas

FrameGasSound(s) ==
  LET charged == s.gb - s.gc            \* what the instruction cost the frame up front
      ret     == s.ga - s.gc            \* what came back when it completed
      pays    == s.kind \in {"call", "ccode"} /\ s.vnz = 1
      xfer    == IF pays THEN CallValueTransferGas ELSE 0
      stip    == IF pays THEN CallStipend ELSE 0
  IN
  /\ charged >= 0
  /\ IF s.kind = "create"
     THEN \* opCreate takes gc - gc/64 out of the frame while executing and puts back what is left
          /\ s.ga <= s.gc
          /\ s.entered = 1 => /\ s.passed <= s.gc /\ s.used <= s.passed /\ s.ga = s.gc - s.used
          /\ s.entered = 0 => s.ga = s.gc
     ELSE /\ ret >= 0
          /\ ret <= charged - xfer + stip
          /\ s.entered = 1 => /\ s.passed <= charged - xfer + stip
                              /\ s.used <= s.passed
                              /\ ret = s.passed - s.used

(* Lock-step only (reference semantics of the gas operand, EIP-150; not part of the statement of   *)
(* C09 -- a deviation is counted, not reported): the gas a call passes on is the requested amount,  *)
(* capped at all but one 64th of what the frame has left after the instruction's other costs.      *)
CallGasExact(s) ==
  s.kind = "create" \/
  LET pays  == s.kind \in {"call", "ccode"} /\ s.vnz = 1
      stip  == IF pays THEN CallStipend ELSE 0
      cgt   == (IF s.entered = 1 THEN s.passed ELSE s.ga - s.gc) - stip
      \* gas available to callGas: what is left + what was forwarded (+ the constant gas the
      \* pre-Galaxias interpreter charges a second time: charged - cost)
      avail == s.gc + cgt + ((s.gb - s.gc) - s.cost)
      cap   == avail - (avail \div 64)
  IN cgt = IF s.req = -1 \/ cap < s.req THEN cap ELSE s.req

(***************************************************************************)
(* The two loops around ApplyTransaction in terms of the fate of every       *)
(* transaction of a block (fate[j] = <<k, class>>, in block order):          *)
(*   BlockOperations.commitBlock : a refused transaction is skipped          *)
(*     (RejectTx), every other one is executed; receipts and the block's     *)
(*     gas used are those of the executed ones                               *)
(*   StateProcessor.Process (re-execution of a stored block): the first      *)
(*     refused transaction makes the whole block invalid                     *)
(***************************************************************************)
Executed(fate) == {fate[j][1] : j \in {m \in 1..Len(fate) : fate[m][2] = "exec"}}
FirstRefused(fate) ==
  IF \A j \in 1..Len(fate) : fate[j][2] = "exec" THEN 0
  ELSE CHOOSE j \in 1..Len(fate) : fate[j][2] # "exec" /\ \A m \in 1..(j - 1) : fate[m][2] = "exec"

(***************************************************************************)
(* The statement of C09, as predicates over one loop iteration:             *)
(*   w  the world before, tx the transaction, c = Class(w, tx),             *)
(*   r  the result of ApplyTx (c = "exec") / w2 the world after             *)
(***************************************************************************)
Wealth(w) == Total(w.bal) + w.burnS + w.burnL

\* nothing appears or disappears (destroyed value is accounted for in burnS / burnL)
Conservation(w, w2) == Wealth(w2) = Wealth(w)
\* gas used never exceeds the limit (and covers the intrinsic gas); refund at most half of gas used
GasBounds(tx, r) == /\ tx.intr <= r.raw /\ r.raw <= tx.gas
                    /\ 0 <= r.refund /\ 2 * r.refund <= r.raw
                    /\ r.used = r.raw - r.refund
\* the block gas pool decreases by exactly the gas used
PoolExact(w, r) == r.w.pool = w.pool - r.used
\* the sender's nonce increases by exactly one (a destructed sender would be the exception: it needs
\* byte code at the sender's address, which accounts with keys do not have)
NonceStep(w, tx, r) == tx.from \in r.dead \/ r.w.nonce[tx.from] = w.nonce[tx.from] + 1
\* a rejected transaction leaves balances, nonces, code, storage AND the gas pool as they were
RejectedIsNoOp(w, w2) == w2 = w
\* a successful execution without frame events: sender pays value + used * price, recipient (or the
\* created account) gets the value, the proposer the fee
PlainExact(w, tx, r) ==
  \A a \in Acct : r.w.bal[a] = w.bal[a] + (IF a = Target(tx) THEN tx.value ELSE 0)
                               - (IF a = tx.from THEN tx.value + r.used * tx.price ELSE 0)
                               + (IF a = w.cb THEN r.used * tx.price ELSE 0)
=============================================================================
