------------------------------ MODULE MC_CallGas ------------------------------
(***************************************************************************)
(* Model of the gas bookkeeping of ONE call-family instruction, transcribed  *)
(* from the code, checked against FrameGasSound / CallGasExact of TxExec:    *)
(*                                                                         *)
(*   kvm/interpreter.go Run      constant gas, then dynamic gas (the         *)
(*                               pre-Galaxias interpreter charges            *)
(*                               constant + dynamic again: Galaxias = FALSE) *)
(*   kvm/gas.go gasCall / gasCallCode / gasDelegateCall / gasStaticCall       *)
(*                               value-transfer gas iff the value operand    *)
(*                               is not zero; other costs (new account,      *)
(*                               memory) = `extra`                           *)
(*   kvm/gas.go callGas          requested gas, capped at all but one 64th    *)
(*   kvm/instructions.go opCall / opCallCode                                  *)
(*                               stipend added iff the value is not zero;    *)
(*                               the frame's gas grows by what comes back    *)
(*   kvm/kvm.go Call / CallCode  depth / balance test fails: everything      *)
(*                               comes back ("early"); otherwise the frame   *)
(*                               uses 0..passed                              *)
(*                                                                         *)
(* The value operand is one of three classes: "zero", "small" (1 .. 2^255-1) *)
(* and "huge" (2^255 .. 2^256-1, the words whose sign bit is set).           *)
(* SignedSlip = TRUE models the slip the statement is sensitive to: the      *)
(* value test of the gas function reads the word as a signed number          *)
(* (Sign() > 0), so a "huge" value is not charged the transfer gas while     *)
(* the instruction still grants the stipend.  With it TLC must report        *)
(* Sound violated (a call that hands out 2300 gas nobody paid for; looped,   *)
(* gas used exceeds the gas limit).                                          *)
(***************************************************************************)
EXTENDS TxExec

CONSTANTS Gbs,         \* gas of the frame before the instruction
          Reqs,        \* gas operands (-1: does not fit 64 bits)
          Extras,      \* other dynamic costs (new account, memory)
          ConstGas,    \* constant gas of the instruction (configs.CallGas = 40)
          SignedSlip

VARIABLE s
vars == <<s>>

Kinds4 == {"call", "ccode", "dcall", "scall"}
VClasses == {"zero", "small", "huge"}

\* the call-site the code produces, or a record with ok = FALSE if the instruction runs out of gas
CodeSite(kind, galaxias, gb, req, extra, vc, early, usedPct) ==
  LET hasValue == kind \in {"call", "ccode"}
      vnz      == hasValue /\ vc # "zero"                                   \* !value.IsZero()
      charges  == hasValue /\ (IF SignedSlip THEN vc = "small" ELSE vc # "zero")
      g1       == gb - ConstGas                                              \* UseGas(constantGas)
      base     == extra + (IF charges THEN CallValueTransferGas ELSE 0)
      avail    == g1 - base                                                  \* callGas: availableGas - base
      cap      == avail - (avail \div 64)
      cgt      == IF req = -1 \/ cap < req THEN cap ELSE req
      dyn      == base + cgt
      cost     == ConstGas + dyn                                             \* what the tracer is told
      gc       == IF galaxias THEN g1 - dyn ELSE g1 - cost                   \* UseGas(dynamicCost) / UseGas(cost)
      passed   == cgt + (IF vnz THEN CallStipend ELSE 0)
      used     == (passed * usedPct) \div 100
      ga       == gc + (IF early THEN passed ELSE passed - used)
  IN [ok |-> g1 >= 0 /\ avail >= 0 /\ gc >= 0,
      site |-> [kind |-> kind, vnz |-> IF vnz THEN 1 ELSE 0, req |-> req, gb |-> gb, gc |-> gc, cost |-> cost, ga |-> ga,
                entered |-> IF early THEN 0 ELSE 1, passed |-> IF early THEN 0 ELSE passed,
                used |-> IF early THEN 0 ELSE used]]

NoSite == [kind |-> "dcall", vnz |-> 0, req |-> 0, gb |-> 0, gc |-> 0, cost |-> 0, ga |-> 0, entered |-> 0, passed |-> 0, used |-> 0]

Init == s = NoSite
\* one step: every call-site the code can produce (depth 1, the sites do not depend on each other)
Next == s = NoSite /\
        \E kind \in Kinds4, galaxias \in BOOLEAN, gb \in Gbs, req \in Reqs, extra \in Extras, vc \in VClasses,
           early \in BOOLEAN, usedPct \in {0, 37, 100} :
          LET c == CodeSite(kind, galaxias, gb, req, extra, vc, early, usedPct) IN
          c.ok /\ s' = c.site
Spec == Init /\ [][Next]_vars

Sound == FrameGasSound(s)
Exact == CallGasExact(s)
\* the consequence GasBounds rests on: the instruction never leaves its frame with more gas than before
NeverGains == s.ga <= s.gb
=============================================================================
