------------------------------ MODULE MC_TxExec ------------------------------
(***************************************************************************)
(* Model of TxExec for TLC: one block = up to MaxTx iterations of            *)
(* commitBlock's loop, starting from every world in InitWorlds.  In every    *)
(* iteration the environment picks ANY transaction of the universe Txs and,  *)
(* if it is executed, ANY behaviour of the byte code:                        *)
(*   - every well-formed sequence of at most MaxEv frame events (nested      *)
(*     calls with value between all accounts, CALLCODE / DELEGATECALL /      *)
(*     STATICCALL, creations with value, self-destructs to another account   *)
(*     or to the own address, every frame ending with or without error),     *)
(*   - top-level success or failure,                                         *)
(*   - every amount of gas consumed in [0, gas - intrinsic] and every        *)
(*     refund counter in RcVals.                                             *)
(*                                                                         *)
(* Checked on EVERY transition (action property StepProp, which sees         *)
(* history variable `last`): the statement of C09 -- Conservation,           *)
(* GasBounds, PoolExact, NonceStep, RejectedIsNoOp, PlainExact, BlockGas.    *)
(* With CallerRestoresPool = FALSE (the unchanged commitBlock) TLC must      *)
(* find RejectedIsNoOp violated: that run is the companion that shows the    *)
(* property is not vacuous and documents defect DESIGN.md 5-9 at design      *)
(* level.                                                                    *)
(*                                                                         *)
(* ExecMode = "plain" restricts the byte code to what a driver can build     *)
(* without a gas table: no code / code id 1 = STOP (succeeds, uses nothing)  *)
(* / code id 2 = INVALID (fails, uses everything), creation with empty init  *)
(* code.  In that mode Dump (ACTION_CONSTRAINT) prints every transition as   *)
(* one JSON line {w0, h, o}: the initial world, the block so far (each       *)
(* transaction with its specified class, status and gas used) and the        *)
(* specified world after it.  harness/txexec TestReplay scales the amounts   *)
(* by the real intrinsic gas (1 model gas unit = IntrinsicGas of the         *)
(* transaction kind), executes the block transaction by transaction through  *)
(* the real ApplyTransaction AND as a whole through the real commitBlock,    *)
(* and compares classes, receipts, balances, nonces and the gas pool.        *)
(***************************************************************************)
EXTENDS TxExec, Json

CONSTANTS InitWorlds,   \* set of initial worlds
          Txs,          \* set of transactions the environment may submit
          MaxTx,        \* transactions per block
          MaxEv,        \* frame events per transaction
          Kinds,        \* frame kinds the byte code may use
          EvVals,       \* values a frame may carry
          RcVals,       \* refund counters
          CodeVals,     \* code ids a creation may deploy (0 = empty code)
          StVals,       \* storage ids
          ExecMode,     \* "all" | "plain"
          DumpOn

VARIABLES w,      \* the world
          gl,     \* the block's gas limit (the pool at the start)
          used,   \* gas used by the block so far (commitBlock's usedGas)
          n,      \* transactions seen so far
          held,   \* ghost: gas that transactions rejected AFTER buyGas had taken from the pool so far
                  \* (what a caller that does not restore the pool loses; keeps such histories apart)
          last,   \* the last iteration: [c, pre, tx, ex, r]  (history variable, hidden by the VIEW)
          w0,     \* the world the block started from              (ditto)
          hist    \* the block so far: <<tx, class, status, gas used>>  (ditto)
vars == <<w, gl, used, n, held, last, w0, hist>>

NoTx == [from |-> 1, to |-> 1, new |-> 0, nonce |-> 0, value |-> 0, gas |-> 0, price |-> 0, intr |-> 0, sig |-> 0]
NoRes(x) == [w |-> x, raw |-> 0, refund |-> 0, used |-> 0, bs |-> 0, bl |-> 0, dead |-> {}, err |-> ""]
NoEx == [fr |-> <<>>, ok |-> 0, eg |-> 0, rc |-> 0, cc |-> 0, st |-> [a \in Acct |-> 0]]

(***************************************************************************)
(* Every behaviour of the byte code in at most MaxEv frame events.          *)
(***************************************************************************)
\* the events that can come next in machine state X (filtered by Step itself)
Candidates(X) ==
  LET top == Top(X) IN
  (IF Len(X.fs) > 1
   THEN {<<"exit", 0, 0, 0, 0>>} \cup {<<"exit", 0, c, 0, 1>> : c \in (IF top.cr THEN CodeVals ELSE {0})}
   ELSE {})
  \cup (IF top.runs
        THEN {<<k, top.ctx, t, v, 0>> : k \in Kinds \ {"sd"}, t \in Acct, v \in EvVals}
             \cup (IF "sd" \in Kinds THEN {<<"sd", top.ctx, t, X.bal[top.ctx], 0>> : t \in Acct} ELSE {})
        ELSE {})
Valid(X) == {ev \in Candidates(X) : Step(X, ev).err = ""}

\* all sequences of at most k further events after which only the top-level frame is open
RECURSIVE Runs(_, _, _)
Runs(X, pre, k) ==
  (IF Len(X.fs) = 1 THEN {pre} ELSE {})
  \cup (IF k = 0 THEN {} ELSE UNION {Runs(Step(X, ev), Append(pre, ev), k - 1) : ev \in Valid(X)})

PlainExecs(x, tx) ==
  LET w1  == [x EXCEPT !.bal[tx.from] = @ - tx.gas * tx.price, !.pool = @ - tx.gas]
      all == tx.gas - tx.intr
      fails == Collides(w1, tx) \/ (~Created(tx) /\ x.code[tx.to] = 2)
  IN {[fr |-> <<>>, ok |-> IF fails THEN 0 ELSE 1, eg |-> IF fails THEN all ELSE 0, rc |-> 0, cc |-> 0,
       st |-> [a \in Acct |-> x.stor[a]]]}

Execs(x, tx) ==
  IF ExecMode = "plain" THEN PlainExecs(x, tx) ELSE
  LET w1 == [x EXCEPT !.bal[tx.from] = @ - tx.gas * tx.price, !.pool = @ - tx.gas]
      frs == IF Collides(w1, tx) \/ MaxEv = 0 THEN {<<>>} ELSE Runs(EnterTop(w1, tx), <<>>, MaxEv)
  IN {[fr |-> fr, ok |-> ok, eg |-> eg, rc |-> rc, cc |-> cc, st |-> [a \in Acct |-> sv]] :
        fr \in frs, ok \in {0, 1}, eg \in 0..(tx.gas - tx.intr), rc \in RcVals,
        cc \in (IF Created(tx) THEN CodeVals ELSE {0}), sv \in StVals}

Init == /\ w \in InitWorlds /\ gl = w.pool /\ used = 0 /\ n = 0 /\ held = 0
        /\ last = [c |-> "none", pre |-> w, tx |-> NoTx, ex |-> NoEx, r |-> NoRes(w)]
        /\ w0 = w /\ hist = <<>>

TxJ(t) == <<t.from, t.to, t.new, t.nonce, t.value, t.gas, t.price, t.intr, t.sig>>

Next ==
  /\ n < MaxTx
  /\ n' = n + 1 /\ gl' = gl /\ w0' = w0
  /\ \E tx \in Txs :
       LET c == Class(w, tx) IN
       IF c = "exec"
       THEN \E ex \in Execs(w, tx) :
              LET r == ApplyTx(w, tx, ex) IN
              /\ r.err = ""
              /\ w' = r.w /\ used' = used + r.used /\ held' = held
              /\ last' = [c |-> c, pre |-> w, tx |-> tx, ex |-> ex, r |-> r]
              /\ hist' = Append(hist, <<TxJ(tx), c, ex.ok, r.used>>)
       ELSE /\ w' = RejectTx(w, tx) /\ used' = used
            /\ held' = IF Late(c) THEN held + tx.gas ELSE held
            /\ last' = [c |-> c, pre |-> w, tx |-> tx, ex |-> NoEx, r |-> NoRes(w')]
            /\ hist' = Append(hist, <<TxJ(tx), c, 0, 0>>)

Spec == Init /\ [][Next]_vars
View == <<w, gl, used, n, held>>

(***************************************************************************)
(* The property, on every transition.                                       *)
(***************************************************************************)
StepOK ==
  LET l == last' IN
  IF l.c = "exec"
  THEN /\ Conservation(l.pre, l.r.w)
       /\ GasBounds(l.tx, l.r)
       /\ PoolExact(l.pre, l.r)
       /\ NonceStep(l.pre, l.tx, l.r)
       /\ (l.ex.fr = <<>> /\ l.ex.ok = 1 => PlainExact(l.pre, l.tx, l.r))
       \* a failed execution moves nothing but the fee
       /\ (l.ex.ok = 0 => PlainExact(l.pre, [l.tx EXCEPT !.value = 0], l.r))
       \* balances never go negative
       /\ \A a \in Acct : l.r.w.bal[a] >= 0
  ELSE /\ l.c \in RejectClasses
       /\ RejectedIsNoOp(l.pre, w')
StepProp == [][StepOK]_vars

\* the block: the pool holds exactly what the executed transactions did not use, whatever was
\* rejected in between (so a later transaction is refused for block gas only if the executed ones
\* really used it up), and the value in the world is the initial value
BlockGas == w.pool = gl - used - (IF CallerRestoresPool THEN 0 ELSE held)
\* ... which, for the unchanged code, is the statement's failure in one line:
PoolIsUnused == w.pool = gl - used

\* reachability companions: each of these action properties must be VIOLATED
NeverBurnSelf == [][last'.r.bs = 0]_vars
NeverBurnLate == [][last'.r.bl = 0]_vars
NeverRefund   == [][last'.r.refund = 0]_vars
NeverLate     == [][~Late(last'.c)]_vars
NeverRevert   == [][\A j \in 1..Len(last'.ex.fr) : ~(last'.ex.fr[j][1] = "exit" /\ last'.ex.fr[j][5] = 0)]_vars

(***************************************************************************)
(* One JSON line per transition (abstract test case), ExecMode = "plain".   *)
(***************************************************************************)
Obs(y) == [b |-> y.bal, n |-> y.nonce, c |-> y.code, p |-> y.pool, cb |-> y.cb]
Dump == ~DumpOn \/ PrintT(ToJson([w0 |-> Obs(w0), h |-> hist', o |-> Obs(w')]))
=============================================================================
