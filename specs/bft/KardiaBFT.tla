------------------------------- MODULE KardiaBFT -------------------------------
(***************************************************************************)
(* Obligation-level model of one height of the consensus protocol, used to   *)
(* decide AGREEMENT (property C01) exhaustively.                             *)
(*                                                                         *)
(* A correct validator is an automaton that may sign ANY prevote/precommit  *)
(* permitted by the per-validator obligations of property C03, given the    *)
(* votes that exist:                                                        *)
(*   O1  at most one vote per type and round, rounds only move forward      *)
(*       (prevote before precommit within a round);                         *)
(*   O2  precommit a block v at round r only if +2/3 prevotes for v at r     *)
(*       exist (it then locks v at r);                                       *)
(*   O3  while locked on v it prevotes only v or nil, unless a +2/3 prevote   *)
(*       set for a different value exists in a round in (lockedR, r]         *)
(*       (it then unlocks);                                                  *)
(*   O4  a nil-polka / a polka for an unknown block at its round unlocks.     *)
(* These are exactly the invariants C03 (KardiaNode.tla: OneVotePerTypeHR,    *)
(* PrecommitNeedsPolka, LockRespected) that MC_NodeEnv checks on the          *)
(* handler-level transcription and that the replay binds to the real code.    *)
(*                                                                         *)
(* Byzantine validators are the maximal adversary: their power counts        *)
(* towards EVERY quorum for EVERY value (equivocation, withholding, amnesia   *)
(* are all subsumed, because every guard is "a quorum exists in the soup"    *)
(* and correct validators may ignore messages).  Delays, drops, reordering    *)
(* and timeouts are subsumed for the same reason: a correct validator may     *)
(* act whenever its obligations allow.                                       *)
(*                                                                         *)
(* SigBindsType = FALSE models a signature that does not cover the vote      *)
(* type: a correct validator's prevote can be presented as its precommit.     *)
(***************************************************************************)
EXTENDS Integers, FiniteSets, TLC

CONSTANTS Corr,        \* correct validators (model values)
          CPower,      \* function-like: power of each correct validator, given as a set of <<v, p>>
          ByzPower,    \* total power of the Byzantine validators
          MaxRound, Blocks, SigBindsType

Rounds == 1..MaxRound
Nil  == "nil"
None == "none"
PowerOf(p) == (CHOOSE x \in CPower : x[1] = p)[2]
RECURSIVE SumC(_)
SumC(S) == IF S = {} THEN 0 ELSE LET p == CHOOSE x \in S : TRUE IN PowerOf(p) + SumC(S \ {p})
Total == SumC(Corr) + ByzPower
\* +2/3 with every Byzantine vote counted in
Two3(S) == 3 * (SumC(S) + ByzPower) > 2 * Total

ASSUME 3 * ByzPower < Total          \* the premise of C01: less than one third of the power is faulty

VARIABLES pv, pc,            \* pv[p][r], pc[p][r]: value signed by correct p at round r, or None
          lockedR, lockedV,  \* lock of p
          pos                \* pos[p]: last slot used; slot(r, prevote) = 2r-1, slot(r, precommit) = 2r
vars == <<pv, pc, lockedR, lockedV, pos>>

Init == /\ pv = [p \in Corr |-> [r \in Rounds |-> None]]
        /\ pc = [p \in Corr |-> [r \in Rounds |-> None]]
        /\ lockedR = [p \in Corr |-> 0] /\ lockedV = [p \in Corr |-> None]
        /\ pos = [p \in Corr |-> 0]

PVFor(r, v) == {q \in Corr : pv[q][r] = v}
PCFor(r, v) == {q \in Corr : pc[q][r] = v \/ (~SigBindsType /\ v # None /\ pv[q][r] = v)}
Polka(r, v)   == Two3(PVFor(r, v))
CommitQ(r, v) == Two3(PCFor(r, v))

\* O3: a +2/3 prevote set for another value in a round in (lockedR, r]
CanUnlock(p, r) == lockedV[p] # None /\ \E r2 \in Rounds, w \in Blocks \cup {Nil} :
                      lockedR[p] < r2 /\ r2 <= r /\ w # lockedV[p] /\ Polka(r2, w)

Prevote(p, r, v) ==
  /\ pos[p] < 2*r - 1
  /\ \/ lockedV[p] = None /\ UNCHANGED <<lockedR, lockedV>>
     \/ lockedV[p] # None /\ v = lockedV[p] /\ UNCHANGED <<lockedR, lockedV>>
        \* (a locked validator prevotes its locked block - never nil.  The property's wording "prevotes no other BLOCK"
        \* would admit nil, and with that weaker obligation TLC refutes Agreement at three rounds: validators locked
        \* on A prevote nil at round 2, that nil polka - made by themselves - unlocks them, and B is decided at round 3
        \* although A was decided at round 1.  The handlers obey the stronger rule: see KardiaNode!LockRespected.)
     \/ CanUnlock(p, r) /\ lockedR' = [lockedR EXCEPT ![p] = 0] /\ lockedV' = [lockedV EXCEPT ![p] = None]
  /\ pv' = [pv EXCEPT ![p][r] = v]
  /\ pos' = [pos EXCEPT ![p] = 2*r - 1]
  /\ UNCHANGED pc

Precommit(p, r, v) ==
  /\ pos[p] < 2*r
  /\ \/ /\ v = Nil           \* no polka seen: keep the lock; polka for nil / an unknown block: unlock
        /\ \/ UNCHANGED <<lockedR, lockedV>>
           \/ /\ \E w \in Blocks \cup {Nil} : Polka(r, w) /\ w # lockedV[p]
              /\ lockedR' = [lockedR EXCEPT ![p] = 0] /\ lockedV' = [lockedV EXCEPT ![p] = None]
     \/ /\ v \in Blocks /\ Polka(r, v)          \* O2
        /\ lockedR' = [lockedR EXCEPT ![p] = r] /\ lockedV' = [lockedV EXCEPT ![p] = v]
  /\ pc' = [pc EXCEPT ![p][r] = v]
  /\ pos' = [pos EXCEPT ![p] = 2*r]
  /\ UNCHANGED pv

Next == \E p \in Corr, r \in Rounds, v \in Blocks \cup {Nil} : Prevote(p, r, v) \/ Precommit(p, r, v)
Spec == Init /\ [][Next]_vars

\* C01: no two different blocks ever both own a +2/3 precommit set (in any rounds).  This is what
\* enterCommit/finalizeCommit and block sync's VerifyCommit rely on.
Agreement == \A r1, r2 \in Rounds, v1, v2 \in Blocks : CommitQ(r1, v1) /\ CommitQ(r2, v2) => v1 = v2
\* reachability companions (must be VIOLATED: the model is not vacuous)
NoCommit   == ~\E r \in Rounds, v \in Blocks : CommitQ(r, v)
NoUnlock   == \A p \in Corr : ~(\E r \in Rounds : pc[p][r] \in Blocks) \/ lockedV[p] # None
NoCommitR2 == ~\E v \in Blocks : CommitQ(MaxRound, v)
================================================================================
