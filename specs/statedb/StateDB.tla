------------------------------- MODULE StateDB -------------------------------
(***************************************************************************)
(* The world state of kai/state (StateDB over a state.Database, optionally *)
(* with a snapshot tree): what every public mutator does to what every     *)
(* public getter returns.  Property C08:                                    *)
(*                                                                         *)
(*   - RevertToSnapshot restores every observable exactly, for arbitrarily *)
(*     nested snapshots (here: Snapshot saves the whole journaled part of  *)
(*     the abstract state, Revert puts it back; that IS the specified      *)
(*     meaning of revert, the code implements it with an undo journal);    *)
(*   - a Copy is independent of the original;                              *)
(*   - the root computed by IntermediateRoot / Commit is a function of the *)
(*     content of the account trie only, and that content is what the      *)
(*     non-reverted operations wrote;                                      *)
(*   - a StateDB opened at a committed root returns the committed content. *)
(*                                                                         *)
(* Written in functional style: records + operators that return the new    *)
(* record, one operator per public call of kai/state/statedb.go.  `Apply`  *)
(* dispatches an action tuple <<op, x, y, z>> and is shared by the model   *)
(* (MC_StateDB), by scripted prefixes (Run) and by the trace validator     *)
(* (StateDBTrace).                                                         *)
(*                                                                         *)
(* Levels of the state.  One StateDB object is the record built by NewSDB: *)
(*                                                                         *)
(*   acct[a]  the live view of address a = s.stateObjects[a] laid over the *)
(*            account trie / snapshot layer (an address that was never     *)
(*            touched is represented by what loading it would give):       *)
(*     ex     a live (not deleted) object exists        -> Exist           *)
(*     bal, nonce, code                                  -> GetBalance ..  *)
(*     st[k]  current value of slot k (dirtyStorage over the committed     *)
(*            view)                                      -> GetState       *)
(*     cst[k] committed view of slot k (pendingStorage over originStorage  *)
(*            over trie/snapshot, zero for an object (re)created in this   *)
(*            block)                                     -> GetCommitted.. *)
(*     sui    stateObject.suicided                       -> HasSuicided    *)
(*     dirty  a \in journal.dirties: the object was touched by a journaled *)
(*            change of the CURRENT transaction that has not been reverted *)
(*     -- mechanism marks, not observable by themselves; they are kept so  *)
(*     -- that histories which drive the code through different internal   *)
(*     -- states are different states of the model (and get explored):     *)
(*     pend   a \in stateObjectsPending  (finalised, not yet in the trie)  *)
(*     sd     a \in stateObjectsDirty    (to be committed)                 *)
(*     dstr   a \in stateObjectsDestruct (an earlier incarnation of a was  *)
(*            destructed / overwritten in this block)                      *)
(*     del    stateObjects[a] is an object with deleted = true             *)
(*     os[k]  what the object's own storage trie holds for slot k          *)
(*            (originStorage once loaded; zero for a new incarnation);     *)
(*            updateTrie writes exactly the slots whose value differs      *)
(*   refund   the refund counter                                           *)
(*   jn       the journal is non-empty (Finalise resets the refund only    *)
(*            then: clearJournalAndRefund)                                 *)
(*   logs     all logs of this StateDB in emission order, <<tx, address>>; *)
(*            Log.Index is the position, Log.TxHash/TxIndex come from tx   *)
(*   tx       current transaction context (SetTxContext / Prepare), 0 =    *)
(*            none                                                         *)
(*   al, asl  access list: addresses, (address, slot) pairs                *)
(*   ts       transient storage                                            *)
(*   pre      recorded preimages                                           *)
(*   snaps    stack of open snapshots (validRevisions), each the saved     *)
(*            journaled part of the state                                  *)
(*   trie     content of the in-memory account trie s.trie (what           *)
(*            IntermediateRoot hashes)                                     *)
(*   -- snapshot side (meaningful when a snapshot tree is attached):       *)
(*   sl       s.snap # nil: this StateDB reads through a snapshot layer    *)
(*            (from state.New, if the tree has a layer for the root, until *)
(*            Commit)                                                      *)
(*   base, bc the chain of layers it reads through (SnapLayers.tla) and    *)
(*            the content that chain stands for                            *)
(*   sa, ss   snapAccounts / snapStorage: what IntermediateRoot cached for *)
(*            the diff layer of this block                                 *)
(*   -- one more mechanism mark (history predicate, not observable):       *)
(*   ld[a]    every getter of a was called on this StateDB since it was    *)
(*            opened / copied (the object is loaded, its originStorage and *)
(*            code caches are warm); not journaled, not reverted           *)
(*   sq[a]    StorageTrie(a) was called on this StateDB, and the slots it  *)
(*            saw at the last call (same kind of mark)                     *)
(*                                                                         *)
(* The top-level record t = [cur, park, com, tree, nc]: the StateDB being  *)
(* driven, at most one parked StateDB (the other side of a Copy), the      *)
(* content of the last committed root in the shared state.Database (what   *)
(* state.New(root, db, snaps) must return) and what the snapshot tree      *)
(* holds for that root (ok = it has a layer, ch = the chain of layers).    *)
(*                                                                         *)
(* Deliberate deviations / things mirrored "as implemented" (named):       *)
(*  D1 CopyLosesDirty: Copy() does not copy the journal, so the copy has   *)
(*     no dirty marks; objects that were dirty are marked pending/dirty-   *)
(*     for-commit instead.  A copy taken in the middle of a transaction    *)
(*     therefore does not delete suicided / touched-empty objects at its   *)
(*     next Finalise (only when they are touched again).  C08 asks for     *)
(*     independence of the copy, which holds; the model mirrors the code.  *)
(*  D2 RefundKeptWithoutJournal: Finalise resets the refund only if the    *)
(*     journal is non-empty (a copy starts with a non-zero refund and an   *)
(*     empty journal).                                                     *)
(*  D3 NoPerTxReset: in this code base Prepare/SetTxContext only set the   *)
(*     transaction hash/index; access list and transient storage are never *)
(*     reset by StateDB itself (KVM does not use them).  Modelled as is.   *)
(*  D4 CopyDropsTxContext: Copy() does not copy thash/txIndex.             *)
(*  D5 Not modelled: the RIPEMD-160 precompile exception (address 0x03     *)
(*     stays dirty after a reverted touch); negative balances; SubRefund   *)
(*     below zero and RevertToSnapshot of an unknown id (documented        *)
(*     panics); SetStorage (debug only); database read errors.             *)
(***************************************************************************)
EXTENDS SnapLayers, FiniteSets, TLC     \* SnapLayers declares NA, NS, MaxLayers, Addrs, Slots, ZSt

CONSTANTS MaxBal     \* balances are explored in 0..MaxBal (guard of the model, not of the code)

NoAL  == [a \in Addrs |-> FALSE]
NoASL == [a \in Addrs |-> [k \in Slots |-> FALSE]]
NoTS  == [a \in Addrs |-> ZSt]

(* ------------------------------ accounts ------------------------------ *)
NoAcct == [ex |-> FALSE, bal |-> 0, nonce |-> 0, code |-> 0, st |-> ZSt, cst |-> ZSt, sui |-> FALSE,
           dirty |-> FALSE, pend |-> FALSE, sd |-> FALSE, dstr |-> FALSE, del |-> FALSE, os |-> ZSt]

\* stateObject.empty(): EIP-161 emptiness
EmptyA(x) == x.nonce = 0 /\ x.bal = 0 /\ x.code = 0

\* content of one trie leaf: p = present
AbsentC == [p |-> FALSE, bal |-> 0, nonce |-> 0, code |-> 0, st |-> ZSt]
LeafOf(x) == IF x.ex THEN [p |-> TRUE, bal |-> x.bal, nonce |-> x.nonce, code |-> x.code, st |-> x.st]
             ELSE AbsentC
EmptyContent == [a \in Addrs |-> AbsentC]

\* the object that getStateObject builds from a trie leaf / snapshot account
Load(c) == IF c.p THEN [NoAcct EXCEPT !.ex = TRUE, !.bal = c.bal, !.nonce = c.nonce, !.code = c.code,
                                      !.st = c.st, !.cst = c.st, !.os = c.st]
           ELSE NoAcct

NoSQ == [c |-> FALSE, st |-> ZSt]        \* StorageTrie not called yet
NoSA == [a \in Addrs |-> NoEnt]          \* empty snapAccounts
NoSS == [a \in Addrs |-> NoSlots]        \* empty snapStorage
NoTree == [ok |-> FALSE, ch |-> EmptyChain]

(* state.New(root, db, snaps) at a root whose content is c; tree = what the snapshot tree holds for  *)
(* that root (ok = it has a layer for it; then the StateDB reads through that chain)                *)
NewSDB(c, tree) ==
  [acct |-> [a \in Addrs |-> Load(c[a])], refund |-> 0, jn |-> FALSE, logs |-> <<>>, tx |-> 0,
   al |-> NoAL, asl |-> NoASL, ts |-> NoTS, pre |-> {}, snaps |-> <<>>, trie |-> c,
   sl |-> tree.ok, base |-> tree.ch, bc |-> IF tree.ok THEN c ELSE EmptyContent, sa |-> NoSA, ss |-> NoSS,
   ld |-> NoAL, sq |-> [a \in Addrs |-> NoSQ]]

Tree0 == [ok |-> TRUE, ch |-> EmptyChain]      \* snapshot.New on the empty root: a complete, empty disk layer
T0 == [cur |-> NewSDB(EmptyContent, Tree0), park |-> <<>>, com |-> EmptyContent, tree |-> Tree0, nc |-> 0]

(* ------------------------- object creation ---------------------------- *)
(* createObject(addr): prev = getDeletedStateObject(addr) is non-nil iff a live or a deleted       *)
(* object is there.  prev = nil -> createObjectChange; otherwise the address joins                  *)
(* stateObjectsDestruct and a resetObjectChange is journaled.  The new object is empty, its        *)
(* storage reads as zero (its own trie is empty; reads of an address in stateObjectsDestruct never *)
(* go to the trie / snapshot of the previous incarnation).  pend / sd belong to the address.       *)
Created(x, keepBal) ==
  [NoAcct EXCEPT !.ex = TRUE, !.dirty = TRUE,
                 !.bal  = IF keepBal /\ x.ex THEN x.bal ELSE 0,
                 !.dstr = x.dstr \/ x.ex \/ x.del,
                 !.pend = x.pend, !.sd = x.sd]

\* createObject over a previous (live or deleted) object also drops what IntermediateRoot cached
\* for the snapshot layer of this block (snapAccounts / snapStorage; restored by a revert)
DropSnapCache(d, a) == IF d.sl /\ (d.acct[a].ex \/ d.acct[a].del)
                       THEN [d EXCEPT !.sa[a] = NoEnt, !.ss[a] = NoSlots] ELSE d

\* GetOrNewStateObject
GetOrNew(d, a) == IF d.acct[a].ex THEN d
                  ELSE [DropSnapCache(d, a) EXCEPT !.acct[a] = Created(@, FALSE), !.jn = TRUE]

\* stateObject.SetBalance / SetNonce / SetCode: always journaled
SetBal(d, a, v)   == [d EXCEPT !.acct[a].bal = v,   !.acct[a].dirty = TRUE, !.jn = TRUE]

(* ------------------------------ setters ------------------------------- *)
(* AddBalance: zero amount on an EMPTY object is a "touch" (journaled, marks it dirty so that      *)
(* Finalise(deleteEmpty) removes it); zero amount otherwise does nothing.                          *)
AddBalance(d, a, n) ==
  LET d1 == GetOrNew(d, a)  x == d1.acct[a] IN
  IF n = 0 THEN (IF EmptyA(x) THEN [d1 EXCEPT !.acct[a].dirty = TRUE, !.jn = TRUE] ELSE d1)
  ELSE SetBal(d1, a, x.bal + n)

\* SubBalance: zero amount returns early (after the object was created!)
SubBalance(d, a, n) ==
  LET d1 == GetOrNew(d, a) IN
  IF n = 0 THEN d1 ELSE SetBal(d1, a, d1.acct[a].bal - n)

SetBalance(d, a, v) == SetBal(GetOrNew(d, a), a, v)
SetNonce(d, a, n)   == [GetOrNew(d, a) EXCEPT !.acct[a].nonce = n, !.acct[a].dirty = TRUE, !.jn = TRUE]
SetCode(d, a, c)    == [GetOrNew(d, a) EXCEPT !.acct[a].code = c,  !.acct[a].dirty = TRUE, !.jn = TRUE]

\* SetState: writing the current value journals nothing
SetState(d, a, k, v) ==
  LET d1 == GetOrNew(d, a) IN
  IF d1.acct[a].st[k] = v THEN d1
  ELSE [d1 EXCEPT !.acct[a].st[k] = v, !.acct[a].dirty = TRUE, !.jn = TRUE]

\* Suicide: false for a missing account; otherwise mark + zero balance (the object stays readable)
Suicide(d, a) ==
  IF ~d.acct[a].ex THEN d
  ELSE [d EXCEPT !.acct[a].sui = TRUE, !.acct[a].bal = 0, !.acct[a].dirty = TRUE, !.jn = TRUE]

\* CreateAccount: create-over-existing keeps the balance of a LIVE predecessor and resets the rest
CreateAccount(d, a) == [DropSnapCache(d, a) EXCEPT !.acct[a] = Created(@, TRUE), !.jn = TRUE]

AddRefund(d, g) == [d EXCEPT !.refund = @ + g, !.jn = TRUE]
SubRefund(d, g) == [d EXCEPT !.refund = @ - g, !.jn = TRUE]     \* guard g <= refund (else the code panics)

\* AddLog: stamped with the current transaction context and the running index
AddLog(d, a) == [d EXCEPT !.logs = Append(@, <<d.tx, a>>), !.jn = TRUE]

AddPreimage(d, p) == IF p \in d.pre THEN d ELSE [d EXCEPT !.pre = @ \cup {p}, !.jn = TRUE]

\* SetTxContext / Prepare: not journaled, not reverted
SetTx(d, x) == [d EXCEPT !.tx = x]

\* access list: a change is journaled only if something was added
AddAddressAL(d, a) == IF d.al[a] THEN d ELSE [d EXCEPT !.al[a] = TRUE, !.jn = TRUE]
AddSlotAL(d, a, k) == IF d.asl[a][k] THEN d
                      ELSE [d EXCEPT !.al[a] = TRUE, !.asl[a][k] = TRUE, !.jn = TRUE]

\* transient storage: writing the current value journals nothing
SetTransient(d, a, k, v) == IF d.ts[a][k] = v THEN d ELSE [d EXCEPT !.ts[a][k] = v, !.jn = TRUE]

(* -------------------------------- reads ------------------------------- *)
(* "rd" a: call every getter of address a.  No observable changes; the object gets loaded and its  *)
(* caches filled (mark ld).  The result of the action is what the getters return, packed into one  *)
(* number (base 4: ex, empty, bal, nonce, code, sui, then st / cst per slot), so that reads in the  *)
(* middle of a history are compared too.                                                           *)
B2N(b) == IF b THEN 1 ELSE 0
RECURSIVE Pack(_)
Pack(digits) == IF digits = <<>> THEN 0 ELSE Head(digits) + 4 * Pack(Tail(digits))
RECURSIVE SlotDigits(_, _)
SlotDigits(x, k) == IF k > NS THEN <<>> ELSE <<x.st[k], x.cst[k]>> \o SlotDigits(x, k + 1)
ReadCode(x) == Pack(<<B2N(x.ex), B2N(~x.ex \/ EmptyA(x)), x.bal, x.nonce, x.code, B2N(x.sui)>> \o SlotDigits(x, 1))
Read(d, a) == [d EXCEPT !.ld[a] = TRUE]

(* "stt" a: StorageTrie(a), the accessor behind the GetProof API: a copy of the object's storage    *)
(* trie with the current (dirty and pending) slots written into it; nil for a missing account.      *)
(* It is a getter: nothing changes (the mark sq[a] only records the call and what it saw, so that   *)
(* the model explores what follows it).  Result: 0 for nil, otherwise 1 + the slot values read from the *)
(* returned trie, packed.                                                                           *)
RECURSIVE StDigits(_, _)
StDigits(x, k) == IF k > NS THEN <<>> ELSE <<x.st[k]>> \o StDigits(x, k + 1)
StorageTrieCode(x) == IF x.ex THEN Pack(<<1>> \o StDigits(x, 1)) ELSE 0

(* ------------------------- snapshot / revert -------------------------- *)
(* Everything the journal can undo.  tx, trie and the snapshot stack itself are not in it.         *)
Journaled(d) == [acct |-> d.acct, refund |-> d.refund, jn |-> d.jn, logs |-> d.logs,
                 al |-> d.al, asl |-> d.asl, ts |-> d.ts, pre |-> d.pre, sa |-> d.sa, ss |-> d.ss]

Snapshot(d) == [d EXCEPT !.snaps = Append(@, Journaled(d))]

\* RevertToSnapshot(id of the i-th open snapshot): restore, drop snapshot i and all later ones
Revert(d, i) ==
  LET j == d.snaps[i] IN
  [d EXCEPT !.acct = j.acct, !.refund = j.refund, !.jn = j.jn, !.logs = j.logs,
            !.al = j.al, !.asl = j.asl, !.ts = j.ts, !.pre = j.pre, !.sa = j.sa, !.ss = j.ss,
            !.snaps = SubSeq(@, 1, i - 1)]

(* ------------------- Finalise / IntermediateRoot / Commit ------------- *)
(* Finalise(deleteEmptyObjects): every address in journal.dirties whose object is suicided, or     *)
(* empty when deleteEmpty, is deleted (the object stays in stateObjects with deleted = true and    *)
(* the address joins stateObjectsDestruct); the other dirty objects move dirtyStorage to           *)
(* pendingStorage (cst := st).  All of them become pending + dirty-for-commit.  The journal and    *)
(* the snapshot stack are dropped; the refund is zeroed iff the journal was non-empty (D2).        *)
Deleted(x, de) == x.dirty /\ (x.sui \/ (de /\ EmptyA(x)))
Finalise(d, de) ==
  [d EXCEPT !.acct = [a \in Addrs |->
                       LET x == d.acct[a] IN
                       IF ~x.dirty THEN x
                       ELSE IF x.sui \/ (de /\ EmptyA(x))
                            THEN [NoAcct EXCEPT !.del = TRUE, !.dstr = TRUE, !.pend = TRUE, !.sd = TRUE]
                            ELSE [x EXCEPT !.cst = x.st, !.dirty = FALSE, !.pend = TRUE, !.sd = TRUE]],
            !.refund = IF d.jn THEN 0 ELSE @,
            !.jn = FALSE,
            !.snaps = <<>>,
            \* with a snapshot layer: a deleted object also loses what was cached for the next diff layer
            !.sa = [a \in Addrs |-> IF d.sl /\ Deleted(d.acct[a], de) THEN NoEnt ELSE d.sa[a]],
            !.ss = [a \in Addrs |-> IF d.sl /\ Deleted(d.acct[a], de) THEN NoSlots ELSE d.ss[a]]]

(* IntermediateRoot: Finalise, then every pending object is written to the account trie (its      *)
(* storage first: updateRoot -> updateTrie flushes dirty and pending slots, so cst := st, and the *)
(* object's storage trie now holds st: os := st) or deleted from it.  The returned root is the    *)
(* hash of `trie`.  With a snapshot layer the written account and every slot whose value differs  *)
(* from the storage trie (os) are cached for the diff layer of this block (snapAccounts,          *)
(* snapStorage; a cleared slot is cached as 0).                                                   *)
IntermediateRoot(d, de) ==
  LET f == Finalise(d, de)
      W(a) == f.acct[a].pend /\ f.acct[a].ex          \* objects written by this call
  IN
  [f EXCEPT !.acct = [a \in Addrs |-> LET x == f.acct[a] IN
                        IF x.pend THEN [x EXCEPT !.cst = x.st, !.os = x.st, !.pend = FALSE] ELSE x],
            !.trie = [a \in Addrs |-> IF f.acct[a].pend THEN LeafOf(f.acct[a]) ELSE f.trie[a]],
            !.sa = [a \in Addrs |-> LET x == f.acct[a] IN
                      IF f.sl /\ W(a) THEN Ent(x.bal, x.nonce, x.code, x.st) ELSE f.sa[a]],
            !.ss = [a \in Addrs |-> LET x == f.acct[a] IN
                      IF f.sl /\ W(a) THEN [k \in Slots |-> IF x.st[k] # x.os[k] THEN x.st[k] ELSE f.ss[a][k]]
                      ELSE f.ss[a]]]

(* Commit: IntermediateRoot, then code and storage tries of the dirty-for-commit objects and the  *)
(* account trie go to the database; both sets are cleared.  With a snapshot layer the diff layer  *)
(* of this block = (destruct set, snapAccounts, snapStorage) is handed to the snapshot tree       *)
(* (unless the root did not change) and the StateDB stops reading through the tree (s.snap = nil).*)
(* Returns the new StateDB record and the layer; Apply stores trie as the committed content and   *)
(* updates the tree.                                                                              *)
Commit(d, de) ==
  LET r == IntermediateRoot(d, de) IN
  [sdb   |-> [r EXCEPT !.acct = [a \in Addrs |-> [r.acct[a] EXCEPT !.sd = FALSE, !.dstr = FALSE]],
                       !.sl = FALSE, !.base = EmptyChain, !.bc = EmptyContent, !.sa = NoSA, !.ss = NoSS],
   layer |-> [de |-> [a \in Addrs |-> r.acct[a].dstr], ac |-> r.sa, st |-> r.ss]]

\* what the snapshot tree holds for the committed root after StateDB d committed content c
TreeAfterCommit(t, d, c, layer) ==
  IF d.sl THEN [ok |-> TRUE, ch |-> IF c = d.bc THEN d.base ELSE Push(d.base, layer)]
  ELSE IF c = t.com THEN t.tree      \* no layer is added; a layer exists iff the root is the old one
  ELSE NoTree

(* -------------------------------- Copy -------------------------------- *)
(* Copy(): deep copies of the objects in journal.dirties, stateObjectsPending, stateObjectsDirty;  *)
(* the formerly journal-dirty ones become pending + dirty-for-commit; no journal, no snapshots,    *)
(* no transaction context (D1, D4); refund, logs, preimages, access list, transient storage and    *)
(* the destruct set are copied; the trie is copied.  Clean objects are simply loaded again.        *)
CopyOf(d) ==
  [d EXCEPT !.acct = [a \in Addrs |-> LET x == d.acct[a] IN
                        [x EXCEPT !.dirty = FALSE,
                                  !.pend  = x.pend \/ x.dirty,
                                  !.sd    = x.sd \/ x.dirty,
                                  !.del   = x.del /\ (x.pend \/ x.sd)]],
            !.jn = FALSE, !.snaps = <<>>, !.tx = 0,
            !.ld = [a \in Addrs |-> d.ld[a] /\ (d.acct[a].dirty \/ d.acct[a].pend \/ d.acct[a].sd)]]

(* ------------------------------ dispatch ------------------------------ *)
(* Action tuples <<op, x, y, z>> (unused positions 0):                                             *)
(*  "ab" a n   AddBalance        "sb" a n   SubBalance       "bal" a v  SetBalance                 *)
(*  "non" a n  SetNonce          "code" a c SetCode          "st" a k v SetState                   *)
(*  "sui" a    Suicide           "cre" a    CreateAccount                                          *)
(*  "rf+" g    AddRefund         "rf-" g    SubRefund        "log" a    AddLog                     *)
(*  "pre" p    AddPreimage       "tx" x     SetTxContext                                           *)
(*  "ala" a    AddAddressToAccessList       "als" a k  AddSlotToAccessList                         *)
(*  "ts" a k v SetTransientState                                                                   *)
(*  "rd" a     all getters of a (result = packed values)                                           *)
(*  "stt" a    StorageTrie(a) (result = packed slot values of the returned trie)                   *)
(*  "snap"     Snapshot          "rev" i    RevertToSnapshot(i-th open snapshot)                   *)
(*  "fin" e    Finalise(e=1)     "ir" e     IntermediateRoot      "com" e   Commit                 *)
(*  "open"     state.New at the last committed root (replaces the current StateDB)                 *)
(*  "copy"     Copy(): continue on the copy, park the original                                     *)
(*  "swap"     continue on the parked StateDB, park the current one                                *)
(* Result (last element of a history entry): Suicide's boolean as 0/1, the packed getters for "rd", *)
(* otherwise 0.                                                                                    *)
Apply(t, act) ==
  LET op == act[1]  x == act[2]  y == act[3]  z == act[4]
      d  == t.cur
      R(d1) == [t |-> [t EXCEPT !.cur = d1], res |-> 0]
  IN CASE op = "ab"   -> R(AddBalance(d, x, y))
       [] op = "sb"   -> R(SubBalance(d, x, y))
       [] op = "bal"  -> R(SetBalance(d, x, y))
       [] op = "non"  -> R(SetNonce(d, x, y))
       [] op = "code" -> R(SetCode(d, x, y))
       [] op = "st"   -> R(SetState(d, x, y, z))
       [] op = "sui"  -> [t |-> [t EXCEPT !.cur = Suicide(d, x)], res |-> IF d.acct[x].ex THEN 1 ELSE 0]
       [] op = "cre"  -> R(CreateAccount(d, x))
       [] op = "rf+"  -> R(AddRefund(d, x))
       [] op = "rf-"  -> R(SubRefund(d, x))
       [] op = "log"  -> R(AddLog(d, x))
       [] op = "pre"  -> R(AddPreimage(d, x))
       [] op = "tx"   -> R(SetTx(d, x))
       [] op = "ala"  -> R(AddAddressAL(d, x))
       [] op = "als"  -> R(AddSlotAL(d, x, y))
       [] op = "ts"   -> R(SetTransient(d, x, y, z))
       [] op = "rd"   -> [t |-> [t EXCEPT !.cur = Read(d, x)], res |-> ReadCode(d.acct[x])]
       [] op = "stt"  -> [t |-> [t EXCEPT !.cur.sq[x] = [c |-> TRUE, st |-> d.acct[x].st]],
                          res |-> StorageTrieCode(d.acct[x])]
       [] op = "snap" -> R(Snapshot(d))
       [] op = "rev"  -> R(Revert(d, x))
       [] op = "fin"  -> R(Finalise(d, x = 1))
       [] op = "ir"   -> R(IntermediateRoot(d, x = 1))
       [] op = "com"  -> LET c == Commit(d, x = 1) IN
                         [t |-> [t EXCEPT !.cur = c.sdb, !.com = c.sdb.trie,
                                          !.tree = TreeAfterCommit(t, d, c.sdb.trie, c.layer)], res |-> 0]
       [] op = "open" -> [t |-> [t EXCEPT !.cur = NewSDB(t.com, t.tree)], res |-> 0]
       [] op = "copy" -> [t |-> [t EXCEPT !.cur = CopyOf(d), !.park = <<d>>, !.nc = @ + 1], res |-> 0]
       [] op = "swap" -> [t |-> [t EXCEPT !.cur = t.park[1], !.park = <<d>>], res |-> 0]

(* Guard: is the action meaningful in t under the model's bounds?  (The code accepts all of them   *)
(* except the documented panics; the bounds only keep the explored universe finite.)               *)
Allowed(t, act) ==
  LET op == act[1]  x == act[2]  y == act[3]  d == t.cur IN
  CASE op = "ab"   -> d.acct[x].bal + y <= MaxBal
    [] op = "sb"   -> y <= d.acct[x].bal
    [] op = "rf-"  -> x <= d.refund
    [] op = "rev"  -> x \in 1..Len(d.snaps)
    [] op = "swap" -> t.park # <<>>
    [] OTHER       -> TRUE

\* run a script of action tuples; RunH also builds the history entries (action \o <<result>>)
RECURSIVE Run(_, _)
Run(t, acts) == IF acts = <<>> THEN t ELSE Run(Apply(t, Head(acts)).t, Tail(acts))
RECURSIVE RunH(_, _, _)
RunH(t, acts, h) == IF acts = <<>> THEN h
                    ELSE LET r == Apply(t, Head(acts)) IN RunH(r.t, Tail(acts), Append(h, Head(acts) \o <<r.res>>))

(* ----------------------------- observables ---------------------------- *)
\* what the getters of one StateDB return (compared with the real object after an action)
ObsA(x) == [e |-> x.ex, m |-> (~x.ex \/ EmptyA(x)), b |-> x.bal, n |-> x.nonce, c |-> x.code,
            s |-> x.st, cs |-> x.cst, su |-> x.sui,
            g |-> <<x.dirty, x.pend, x.sd, x.dstr, x.del>>]       \* mechanism marks (lock-step only)
LeafT(c) == <<c.p, c.bal, c.nonce, c.code, c.st>>
ObsD(d) == [a |-> [i \in Addrs |-> ObsA(d.acct[i])], r |-> d.refund, j |-> d.jn, l |-> d.logs, tx |-> d.tx,
            al |-> d.al, as |-> d.asl, ts |-> d.ts, pre |-> d.pre, ns |-> Len(d.snaps),
            tr |-> [i \in Addrs |-> LeafT(d.trie[i])], sl |-> d.sl, ld |-> d.ld]
Obs(t) == [c |-> ObsD(t.cur),
           p |-> IF t.park = <<>> THEN <<>> ELSE <<ObsD(t.park[1])>>,
           com |-> [i \in Addrs |-> LeafT(t.com[i])]]

(* ------------------------ properties of a state ----------------------- *)
WellFormedA(x) ==
  /\ ~x.ex => /\ x.bal = 0 /\ x.nonce = 0 /\ x.code = 0 /\ x.st = ZSt /\ x.cst = ZSt
              /\ ~x.sui /\ ~x.dirty                       \* a missing account reads as zero everywhere
  /\ ~(x.ex /\ x.del)
  /\ x.del => x.sd \/ ~x.dstr                              \* deleted in this block => to be committed
  /\ x.pend => x.sd
WellFormedD(d) ==
  /\ \A a \in Addrs : WellFormedA(d.acct[a])
  /\ (\E a \in Addrs : d.acct[a].dirty) => d.jn             \* dirties come from journal entries
  /\ \A a \in Addrs, k \in Slots : d.asl[a][k] => d.al[a]    \* a listed slot implies its address
  /\ d.refund >= 0
\* every object whose live view differs from the trie leaf is scheduled to be written
TrieTracksLive(d) ==
  \A a \in Addrs : LET x == d.acct[a] IN
     (~x.dirty /\ ~x.pend /\ x.st = x.cst) => LeafOf(x) = d.trie[a]
==============================================================================
