---------------------------- MODULE StateDBTrace ----------------------------
(***************************************************************************)
(* Trace validation (code -> specification) for StateDB.tla.                *)
(*                                                                         *)
(* harness/statedb TestRecord drives the REAL StateDB with seeded random    *)
(* operation sequences (larger universes and much longer histories than    *)
(* the model explores) and writes one ndjson event per call:               *)
(*   {"a": [op, x, y, z],        the action tuple of StateDB!Apply          *)
(*    "r": result,               Suicide's boolean                          *)
(*    "o": {"c": P, "p": [P]},   optional: every getter of the current and  *)
(*                               of the parked StateDB, P as in Proj below  *)
(*    "root": "0x..",            ir / com: the returned root                *)
(*    "rb": [[leaf, ..], ..]}    com: the committed root read back through  *)
(*                               fresh StateDBs (trie, snapshot layers)     *)
(* Many traces are concatenated; ["reset",v,0,0] starts a new one (v = the  *)
(* value encoding the recorder uses; roots are comparable per encoding).   *)
(*                                                                         *)
(* This module replays the events through the same Apply operator.  An     *)
(* event is EXPLAINED iff the specified result, observation, read-back     *)
(* content equal the recorded ones and the recorded root respects the      *)
(* global content <-> root table of the whole file.  An unexplained event   *)
(* is printed (line number + names of the differing items) and the rest of *)
(* that trace is skipped, so that one TLC run validates all traces.        *)
(* Acceptance: every line consumed (POSTCONDITION) and no "tv" line        *)
(* printed.  The invariants of the model are evaluated on every state of   *)
(* every explained trace.                                                  *)
(***************************************************************************)
EXTENDS StateDB, Json

Trace == ndJsonDeserialize("trace.ndjson")

VARIABLES t,      \* abstract state
          i,      \* next line of the trace file
          skip,   \* the current trace had an unexplained event: ignore it up to the next reset
          roots,  \* set of <<encoding, content, root>> triples seen so far (all traces of the file)
          enc     \* value encoding of the current trace
vars == <<t, i, skip, roots, enc>>

Ev == Trace[i]
Has(e, f) == f \in DOMAIN e

(* observable projection of one StateDB, in the shape the recorder writes *)
ProjA(x) == [exist |-> x.ex, empty |-> (~x.ex \/ EmptyA(x)), balance |-> x.bal, nonce |-> x.nonce, code |-> x.code,
             state |-> x.st, committed |-> x.cst, suicided |-> x.sui]
ProjD(d) == [refund |-> d.refund, logs |-> d.logs, txindex |-> d.tx, aladdr |-> d.al, alslot |-> d.asl,
             transient |-> d.ts, preimages |-> d.pre]
SeqToSet(s) == {s[j] : j \in 1..Len(s)}

\* names of the observables of one StateDB that differ from the recorded projection o
DiffD(d, o, tag) ==
  UNION {{tag \o f \o "(a" \o ToString(a) \o ")" : f \in {g \in DOMAIN ProjA(d.acct[a]) : ProjA(d.acct[a])[g] # o.a[a][g]}}
           : a \in Addrs}
  \cup {tag \o f : f \in {g \in DOMAIN ProjD(d) \ {"preimages"} : ProjD(d)[g] # o[g]}}
  \cup (IF SeqToSet(o.preimages) # d.pre THEN {tag \o "preimages"} ELSE {})

Content(c) == [a \in Addrs |-> LeafT(c[a])]

\* everything in event e that the specification does not explain, given r = Apply(t, action)
Unexplained(r, e) ==
  (IF r.res # e.r THEN {"result"} ELSE {})
  \cup (IF Has(e, "o")
        THEN DiffD(r.t.cur, e.o.c, "")
             \cup (IF Len(e.o.p) # Len(r.t.park) THEN {"parked-presence"}
                   ELSE IF r.t.park = <<>> THEN {} ELSE DiffD(r.t.park[1], e.o.p[1], "parked:"))
        ELSE {})
  \cup (IF Has(e, "rb") /\ \E j \in 1..Len(e.rb) : e.rb[j] # Content(r.t.com) THEN {"readback"} ELSE {})
  \cup (IF Has(e, "root")
        THEN LET c == Content(r.t.cur.trie) IN
             (IF \E p \in roots : p[1] = enc /\ p[2] = c /\ p[3] # e.root THEN {"root-history-dependent"} ELSE {})
             \cup (IF \E p \in roots : p[1] = enc /\ p[2] # c /\ p[3] = e.root THEN {"root-collision"} ELSE {})
        ELSE {})

Init == t = T0 /\ i = 1 /\ skip = FALSE /\ roots = {} /\ enc = 0

Next ==
  /\ i <= Len(Trace)
  /\ i' = i + 1
  /\ IF Ev.a[1] = "reset" THEN t' = T0 /\ skip' = FALSE /\ enc' = Ev.a[2] /\ UNCHANGED roots
     ELSE IF skip THEN UNCHANGED <<t, skip, roots, enc>>
     ELSE LET r == Apply(t, <<Ev.a[1], Ev.a[2], Ev.a[3], Ev.a[4]>>)
              bad == Unexplained(r, Ev)
          IN IF bad = {}
             THEN /\ t' = r.t /\ skip' = FALSE /\ UNCHANGED enc
                  /\ roots' = IF Has(Ev, "root") THEN roots \cup {<<enc, Content(r.t.cur.trie), Ev.root>>} ELSE roots
             ELSE /\ PrintT(ToJson([tv |-> "unexplained", line |-> i, op |-> Ev.a[1], what |-> bad]))
                  /\ skip' = TRUE /\ UNCHANGED <<t, roots, enc>>

Spec == Init /\ [][Next]_vars

AllSDB == {t.cur} \cup {t.park[j] : j \in 1..Len(t.park)}
Inv == \A s \in AllSDB : WellFormedD(s) /\ TrieTracksLive(s)

\* every line was consumed (a postcondition cannot read variables: one state per line + the initial one)
AllConsumed == TLCGet("stats").diameter - 1 = Len(Trace)
=============================================================================
