------------------------------ MODULE SnapLayers ------------------------------
(***************************************************************************)
(* The snapshot tree of kai/state/snapshot as far as StateDB uses it: one  *)
(* disk layer (flat account / storage tables) with a stack of diff layers  *)
(* on top (difflayer.go, disklayer.go, snapshot.go Update / Cap /          *)
(* diffToDisk).  Only the chain that leads to one root is represented (a   *)
(* StateDB reads through exactly one chain; siblings do not interact).     *)
(*                                                                         *)
(* A diff layer is what StateDB.Commit hands to Tree.Update:               *)
(*   de[a]     a \in destructs: an earlier incarnation of a was destructed *)
(*             (or overwritten) in that block                              *)
(*   ac[a]     accounts[a]: the account as of the end of the block (h =    *)
(*             there is an entry; deletions have no entry, only de)        *)
(*   st[a][k]  storage[a][k]: Absent = no entry, 0 = slot deleted (nil),   *)
(*             v > 0 = value                                               *)
(* An account entry carries, besides balance / nonce / code, the storage   *)
(* root; it is represented by rt = the storage content the root commits to.*)
(*                                                                         *)
(* These operators are used by StateDB.tla only to give the model the      *)
(* hidden state the real snapshot tree has (so that histories which leave  *)
(* different layers behind are different model states), and by the         *)
(* invariants of MC_StateDB: whatever is read through the layers, in any   *)
(* flattening state, is the committed content.                             *)
(***************************************************************************)
EXTENDS Integers, Sequences

CONSTANTS NA,        \* number of addresses  (Addrs = 1..NA)
          NS,        \* number of storage slots per account (Slots = 1..NS)
          MaxLayers  \* diff layers kept before the bottom one is merged into the disk layer
                     \* (the code: 128, see StateDB.Commit -> Cap(root, 128))

Addrs == 1..NA
Slots == 1..NS
ZSt   == [k \in Slots |-> 0]                      \* all-zero storage

Absent == -1
NoSlots == [k \in Slots |-> Absent]
NoEnt == [h |-> FALSE, bal |-> 0, nonce |-> 0, code |-> 0, rt |-> ZSt]
Ent(bal, nonce, code, rt) == [h |-> TRUE, bal |-> bal, nonce |-> nonce, code |-> code, rt |-> rt]

EmptyDisk == [ac |-> [a \in Addrs |-> NoEnt], st |-> [a \in Addrs |-> ZSt]]
NoDiff    == [de |-> [a \in Addrs |-> FALSE], ac |-> [a \in Addrs |-> NoEnt], st |-> [a \in Addrs |-> NoSlots]]
\* a chain: disk layer + diff layers, bottom first
EmptyChain == [disk |-> EmptyDisk, diffs |-> <<>>]

(* diffLayer.accountRLP / diskLayer.AccountRLP: topmost layer that knows the account decides        *)
RECURSIVE RdAcc(_, _, _)
RdAcc(ch, a, n) == IF n = 0 THEN ch.disk.ac[a]
                   ELSE LET L == ch.diffs[n] IN
                        IF L.ac[a].h THEN L.ac[a] ELSE IF L.de[a] THEN NoEnt ELSE RdAcc(ch, a, n - 1)
ReadAccount(ch, a) == RdAcc(ch, a, Len(ch.diffs))

(* diffLayer.storage / diskLayer.Storage: a slot entry wins over the destruct mark of the same      *)
(* layer (the entry belongs to the NEW incarnation), the destruct mark hides everything below       *)
RECURSIVE RdSlot(_, _, _, _)
RdSlot(ch, a, k, n) == IF n = 0 THEN ch.disk.st[a][k]
                       ELSE LET L == ch.diffs[n] IN
                            IF L.st[a][k] # Absent THEN L.st[a][k] ELSE IF L.de[a] THEN 0 ELSE RdSlot(ch, a, k, n - 1)
ReadSlot(ch, a, k) == RdSlot(ch, a, k, Len(ch.diffs))

(* diffLayer.flatten: child C merged into its parent diff layer P *)
FlattenInto(P, C) ==
  [de |-> [a \in Addrs |-> P.de[a] \/ C.de[a]],
   ac |-> [a \in Addrs |-> IF C.ac[a].h THEN C.ac[a] ELSE IF C.de[a] THEN NoEnt ELSE P.ac[a]],
   st |-> [a \in Addrs |-> [k \in Slots |-> IF C.st[a][k] # Absent THEN C.st[a][k]
                                            ELSE IF C.de[a] THEN Absent ELSE P.st[a][k]]]]

(* diffToDisk: the bottom diff layer L merged into the disk layer D: destructed accounts lose their  *)
(* account record and ALL their slots, then account and slot entries are written / deleted          *)
DiffToDisk(D, L) ==
  [ac |-> [a \in Addrs |-> IF L.ac[a].h THEN L.ac[a] ELSE IF L.de[a] THEN NoEnt ELSE D.ac[a]],
   st |-> [a \in Addrs |-> [k \in Slots |-> IF L.st[a][k] # Absent THEN L.st[a][k]
                                            ELSE IF L.de[a] THEN 0 ELSE D.st[a][k]]]]

(* Tree.Update followed by Cap: push a layer, keep at most MaxLayers diff layers *)
Push(ch, L) ==
  LET ds == Append(ch.diffs, L) IN
  IF Len(ds) > MaxLayers THEN [disk |-> DiffToDisk(ch.disk, ds[1]), diffs |-> Tail(ds)]
  ELSE [disk |-> ch.disk, diffs |-> ds]

(* Cap(root, 1): all diff layers flattened into one accumulator layer; Cap(root, 0): everything     *)
(* merged into the disk layer                                                                       *)
RECURSIVE FlattenAll(_)
FlattenAll(ds) == IF Len(ds) <= 1 THEN ds
                  ELSE FlattenAll(<<FlattenInto(ds[1], ds[2])>> \o SubSeq(ds, 3, Len(ds)))
Accumulated(ch) == [disk |-> ch.disk, diffs |-> FlattenAll(ch.diffs)]
OnDisk(ch) == LET f == FlattenAll(ch.diffs) IN
              [disk |-> IF f = <<>> THEN ch.disk ELSE DiffToDisk(ch.disk, f[1]), diffs |-> <<>>]
===============================================================================
