------------------------------ MODULE MC_StateDB ------------------------------
(***************************************************************************)
(* Model of StateDB for TLC.                                                *)
(*                                                                         *)
(* State: t (the top-level record of StateDB.tla), hist (the path: action  *)
(* tuples with their result appended) and oh (per-step observations, only  *)
(* maintained when Sim = TRUE).  hist and oh are hidden by the VIEW, so    *)
(* BFS explores every distinct abstract state once and prints EVERY        *)
(* transition (state, action) of the reachable graph together with one     *)
(* history that leads to it.  The Go driver (harness/statedb) replays the   *)
(* history from a fresh real StateDB and compares                           *)
(*   - the result of every step,                                            *)
(*   - all getters of the current and of the parked StateDB after the last  *)
(*     step (Sim: after chosen steps),                                      *)
(*   - the last committed root, read back through fresh StateDBs (through   *)
(*     the trie and through the snapshot layers), with `com`,               *)
(*   - after IntermediateRoot / Commit: the root against a global           *)
(*     content <-> root table and against the root of a fresh state built   *)
(*     from the content.                                                    *)
(*                                                                         *)
(* Which operations and argument values are explored is chosen per run     *)
(* ("vector", see checks/C08.py) by the constants, because the product of  *)
(* all features is too large for one exhaustive run:                       *)
(*   - Depth = 0: the search is bounded only by the value bounds, i.e. the *)
(*     COMPLETE graph of a (one-account) universe, over any number of      *)
(*     transactions and blocks;                                            *)
(*   - Depth = n: the graph of the states reachable within n actions;      *)
(*   - Prefixes: the search starts after scripted histories (a committed   *)
(*     base state, a self-destruct in an earlier transaction of the block, *)
(*     ...) so that deep situations get an exhaustive suffix;              *)
(*   - Sim: TLC -simulate, random walks of Depth actions over all          *)
(*     operations, printed once per walk with the observation after every  *)
(*     action.                                                             *)
(*                                                                         *)
(* What BFS with a VIEW cannot give, and how it is compensated:  it        *)
(* explores every abstract state once, with ONE (a shortest) history.  Two *)
(* histories that leave the real object in different internal states but   *)
(* the model in the same state are not both replayed.  Therefore           *)
(*   (1) the model state carries the bookkeeping of the code as mechanism  *)
(*       marks (pending / dirty-for-commit / destructed / deleted objects, *)
(*       origin storage, the snapshot cache and the snapshot layers left   *)
(*       behind by earlier blocks, "was read", "StorageTrie was called"),  *)
(*       so that such histories ARE different model states;                *)
(*   (2) the driver inserts reverted detours (Snapshot; random journaled   *)
(*       operations; RevertToSnapshot) into a third of the replays - by    *)
(*       RevertedLeaveNoTrace they must not change anything, and BFS can   *)
(*       never produce them because the state after the revert is the      *)
(*       state before the snapshot;                                        *)
(*   (3) simulation walks and recorded real runs (StateDBTrace) sample     *)
(*       long, non-shortest histories.                                     *)
(***************************************************************************)
EXTENDS StateDB, Json

CONSTANTS Ops,        \* set of operation codes explored (see Apply)
          Amts,       \* amounts for AddBalance / SubBalance / SetBalance
          Nonces,     \* values for SetNonce
          CodeIds,    \* values for SetCode (0 = empty code)
          Vals,       \* values for SetState / SetTransientState
          Dels,       \* deleteEmptyObjects arguments, subset of {0, 1}
          MaxRefund, MaxLogs, MaxSnaps, MaxTx, MaxCopies,
          Depth,      \* bound on the number of actions after the prefix (0 = none)
          Prefixes,   \* set of scripts (sequences of action 4-tuples) the search starts after
          Sim         \* TRUE: simulation mode (per-step observations, print at the end of a walk)

VARIABLES t,     \* the abstract state (StateDB.tla)
          hist,  \* the path: <<op, x, y, z, result>> per action, prefix included
          oh,    \* Sim only: Obs after every action that followed the prefix
          plen   \* length of the scripted prefix this behaviour started after
vars == <<t, hist, oh, plen>>

Init == \E p \in Prefixes : /\ t = Run(T0, p)
                            /\ hist = RunH(T0, p, <<>>)
                            /\ oh = <<>>
                            /\ plen = Len(p)

Do(act) == /\ Allowed(t, act)
           /\ LET r == Apply(t, act) IN
              /\ t' = r.t
              /\ hist' = Append(hist, act \o <<r.res>>)
              /\ oh' = IF Sim THEN Append(oh, Obs(r.t)) ELSE oh
              /\ UNCHANGED plen

On(op) == op \in Ops
d == t.cur

Step ==
  /\ plen >= 0
  /\ Depth = 0 \/ Len(hist) - plen < Depth
  /\ \/ \E a \in Addrs, n \in Amts   : On("ab")   /\ Do(<<"ab", a, n, 0>>)
     \/ \E a \in Addrs, n \in Amts   : On("sb")   /\ Do(<<"sb", a, n, 0>>)
     \/ \E a \in Addrs, n \in Amts   : On("bal")  /\ Do(<<"bal", a, n, 0>>)
     \/ \E a \in Addrs, n \in Nonces : On("non")  /\ Do(<<"non", a, n, 0>>)
     \/ \E a \in Addrs, c \in CodeIds: On("code") /\ Do(<<"code", a, c, 0>>)
     \/ \E a \in Addrs, k \in Slots, v \in Vals : On("st") /\ Do(<<"st", a, k, v>>)
     \/ \E a \in Addrs               : On("sui")  /\ Do(<<"sui", a, 0, 0>>)
     \/ \E a \in Addrs               : On("cre")  /\ Do(<<"cre", a, 0, 0>>)
     \/ On("rf+") /\ d.refund < MaxRefund /\ Do(<<"rf+", 1, 0, 0>>)
     \/ On("rf-") /\ Do(<<"rf-", 1, 0, 0>>)
     \/ \E a \in Addrs : On("log") /\ Len(d.logs) < MaxLogs /\ Do(<<"log", a, 0, 0>>)
     \/ On("pre") /\ Do(<<"pre", 1, 0, 0>>)
     \/ \E x \in 0..MaxTx : On("tx") /\ x # d.tx /\ Do(<<"tx", x, 0, 0>>)
     \/ \E a \in Addrs : On("ala") /\ Do(<<"ala", a, 0, 0>>)
     \/ \E a \in Addrs, k \in Slots : On("als") /\ Do(<<"als", a, k, 0>>)
     \/ \E a \in Addrs, k \in Slots, v \in Vals : On("ts") /\ Do(<<"ts", a, k, v>>)
     \/ \E a \in Addrs : On("rd") /\ ~d.ld[a] /\ Do(<<"rd", a, 0, 0>>)
     \/ \E a \in Addrs : On("stt") /\ (~d.sq[a].c \/ d.sq[a].st # d.acct[a].st) /\ Do(<<"stt", a, 0, 0>>)
     \/ On("snap") /\ Len(d.snaps) < MaxSnaps /\ Do(<<"snap", 0, 0, 0>>)
     \/ \E i \in 1..MaxSnaps : On("rev") /\ Do(<<"rev", i, 0, 0>>)
     \/ \E e \in Dels : On("fin") /\ Do(<<"fin", e, 0, 0>>)
     \/ \E e \in Dels : On("ir")  /\ Do(<<"ir", e, 0, 0>>)
     \/ \E e \in Dels : On("com") /\ Do(<<"com", e, 0, 0>>)
     \/ On("open") /\ Do(<<"open", 0, 0, 0>>)
     \/ On("copy") /\ t.nc < MaxCopies /\ t.park = <<>> /\ Do(<<"copy", 0, 0, 0>>)
     \/ On("swap") /\ Do(<<"swap", 0, 0, 0>>)

(* Simulation mode: when a random walk has made Depth actions its only successor is Flush, which   *)
(* prints the whole behaviour (one line per walk) and ends the walk (plen = -1 disables Step).     *)
Flush == /\ Sim /\ plen >= 0 /\ Len(hist) - plen = Depth
         /\ PrintT(ToJson([h |-> hist, pl |-> plen, os |-> oh]))
         /\ plen' = -1
         /\ UNCHANGED <<t, hist, oh>>

Next == Step \/ Flush

Spec == Init /\ [][Next]_vars
View == t

(* ------------------------------ invariants ---------------------------- *)
AllSDB == {t.cur} \cup {t.park[i] : i \in 1..Len(t.park)}
\* structural sanity of every StateDB record, including every saved snapshot
WellFormed ==
  \A s \in AllSDB : /\ WellFormedD(s)
                    /\ TrieTracksLive(s)
                    /\ \A i \in 1..Len(s.snaps) : \A a \in Addrs : WellFormedA(s.snaps[i].acct[a])

(* Atomicity, stated on the specification: the state after ANY history equals the state after      *)
(* only its non-reverted actions (applied to a fresh state).  Eff removes, for every "rev i", the   *)
(* i-th open snapshot and everything after it, except SetTxContext and reads (not journaled).      *)
(* Histories with a Copy are skipped (two StateDBs share one history).                             *)
A4(e) == <<e[1], e[2], e[3], e[4]>>
IsTx(a) == a[1] \in {"tx", "rd", "stt"}
RECURSIVE Eff(_, _, _)
Eff(rest, acc, marks) ==
  IF rest = <<>> THEN acc
  ELSE LET e == Head(rest)  a == A4(e) IN
       CASE e[1] = "snap" -> Eff(Tail(rest), Append(acc, a), Append(marks, Len(acc)))
         [] e[1] = "rev"  -> Eff(Tail(rest),
                                 SubSeq(acc, 1, marks[e[2]])
                                   \o SelectSeq(SubSeq(acc, marks[e[2]] + 1, Len(acc)), IsTx),
                                 SubSeq(marks, 1, e[2] - 1))
         [] e[1] \in {"fin", "ir", "com", "open"} -> Eff(Tail(rest), Append(acc, a), <<>>)
         [] OTHER         -> Eff(Tail(rest), Append(acc, a), marks)
HasCopy == \E i \in 1..Len(hist) : hist[i][1] = "copy"
\* (the StorageTrie mark records what a call inside a reverted segment saw: masked)
NoSq(x) == [x EXCEPT !.cur.sq = [a \in Addrs |-> NoSQ]]
RevertedLeaveNoTrace == ~HasCopy => NoSq(Run(T0, Eff(hist, <<>>, <<>>))) = NoSq(t)

\* what a fresh StateDB at the committed root returns is the committed content
ReadBack == [a \in Addrs |-> LeafOf(NewSDB(t.com, t.tree).acct[a])] = t.com

(* Reading through the snapshot layers returns the content they stand for: the account record      *)
(* (with the storage root) of every present account, no record for an absent one, every slot of a  *)
(* present account - in the layering as committed, after flattening the diff layers into one       *)
(* (Cap(root, 1)) and after merging everything into the disk layer (Cap(root, 0)).                 *)
ChainReads(ch, c) ==
  \A a \in Addrs :
     LET e == ReadAccount(ch, a) IN
     /\ e.h = c[a].p
     /\ c[a].p => /\ e.bal = c[a].bal /\ e.nonce = c[a].nonce /\ e.code = c[a].code /\ e.rt = c[a].st
                  /\ \A k \in Slots : ReadSlot(ch, a, k) = c[a].st[k]
AllLayerings(ch, c) == ChainReads(ch, c) /\ ChainReads(Accumulated(ch), c) /\ ChainReads(OnDisk(ch), c)
SnapshotReads == /\ t.tree.ok => AllLayerings(t.tree.ch, t.com)
                 /\ \A s \in AllSDB : s.sl => AllLayerings(s.base, s.bc)

Inv == WellFormed /\ ReadBack /\ SnapshotReads

(* action properties *)
LastOp == IF hist' = <<>> \/ plen' < 0 THEN "none" ELSE hist'[Len(hist')][1]
\* the parked StateDB (the other side of a Copy) is never affected by actions on the current one
CopyIndependent == [][(LastOp \notin {"copy", "swap"}) => t'.park = t.park]_vars
\* the committed content changes only at Commit and is then exactly the account trie
CommitOnly == [][/\ LastOp # "com" => t'.com = t.com
                 /\ LastOp = "com" => t'.com = t'.cur.trie]_vars
\* after IntermediateRoot / Commit the trie holds exactly the live view (root = function of content)
LiveContent(s) == [a \in Addrs |-> LeafOf(s.acct[a])]
RootIsLiveContent == [][(LastOp \in {"ir", "com"}) => t'.cur.trie = LiveContent(t'.cur)]_vars
\* EIP-161: Finalise(deleteEmpty) leaves no touched empty account behind
NoTouchedEmpty == [][(LastOp \in {"fin", "ir", "com"} /\ hist'[Len(hist')][2] = 1) =>
                       \A a \in Addrs : t.cur.acct[a].dirty =>
                          ~(t'.cur.acct[a].ex /\ EmptyA(t'.cur.acct[a]))]_vars

(* ------------------------------- output ------------------------------- *)
\* BFS mode: one line per transition (ACTION_CONSTRAINT); simulation mode prints in Flush
Dump == Sim \/ PrintT(ToJson([h |-> hist', o |-> Obs(t')]))
=============================================================================
