------------------------------- MODULE MC_VoteSet -------------------------------
(* Exhaustive model of VoteSet: every interleaving of valid votes (two signature   *)
(* variants), invalid votes of every kind and peer majority claims, up to MaxOps   *)
(* operations.  `hist` (the path) is hidden by the VIEW; every transition is       *)
(* printed by the action constraint Dump and replayed into types.VoteSet.          *)
EXTENDS VoteSet, Json

CONSTANTS SigVars,   \* signature variants of a valid vote (timestamps), e.g. {1,2}
          IKinds,    \* invalid kinds exercised
          MaxOps     \* bound on the history length (0 = unbounded)

VARIABLES s, hist
vars == <<s, hist>>

Init == s = Empty /\ hist = <<>>

Step(r, a) == s' = r.st /\ hist' = Append(hist, a \o <<r.res>>)

Next == \/ \E i \in Idx, b \in Blocks, sv \in SigVars : Step(AddValid(s, i, b, sv), <<"v", i, b, sv>>)
        \/ \E i \in Idx, b \in Blocks, k \in IKinds : Step(AddInvalid(s, i, b, k), <<"x", i, b, k>>)
        \/ \E p \in Peers, b \in Blocks : Step(SetPeerMaj(s, p, b), <<"p", p, b>>)

Bound == MaxOps = 0 \/ Len(hist) < MaxOps
Spec == Init /\ [][Next]_vars

View == s

Inv == /\ QuorumSound(s) /\ CountedOnce(s) /\ ThresholdsExact(s)
       /\ MajVotesCanonical(s) /\ CommitVerifies(s) /\ AtMostOneQuorumBlock(s)

\* Completeness: if validators with > 2/3 of the power each have b as their FIRST accepted
\* vote then the majority is reported (for b, since no other quorum can exist).
FirstVoteFor(b) == {i \in Idx : \E k \in 1..Len(hist) :
                      /\ hist[k][1] = "v" /\ hist[k][2] = i /\ hist[k][3] = b /\ hist[k][5] = "added"
                      /\ \A j \in 1..(k-1) : ~(hist[j][1] = "v" /\ hist[j][2] = i /\ hist[j][5] \in {"added"})}
Complete == \A b \in Blocks : 3 * SumP(FirstVoteFor(b)) > 2 * Total => s.maj23 = b

\* invalid votes never change anything
InvalidNoOp == [][\A i \in Idx, b \in Blocks, k \in IKinds : AddInvalid(s, i, b, k).st = s]_vars

Obs(t) == [v |-> [i \in Idx |-> t.votes[i].b], sv |-> [i \in Idx |-> t.votes[i].sv],
           sum |-> t.sum, m |-> t.maj23,
           bb |-> [b \in Blocks |-> [t |-> t.byBlock[b].tracked, pm |-> t.byBlock[b].peerMaj,
                                      vs |-> t.byBlock[b].voters]],
           any |-> HasTwoThirdsAny(t), all |-> HasAll(t),
           cf |-> IF CanCommit(t) THEN CommitFlags(t) ELSE <<>>]
Dump == PrintT(ToJson([h |-> hist', o |-> Obs(s')]))
=================================================================================
