SPECIFICATION Spec
CONSTANTS
  Power = <<1, 1, 1>>
  Blocks = {"A", "B", "nil"}
  Peers = {"p1"}
  SigVars = {1, 2}
  IKinds = {"height", "round", "type", "index", "addr", "sig", "chain"}
  MaxOps = 0
VIEW View
INVARIANT Inv
INVARIANT Complete
PROPERTY InvalidNoOp
CONSTRAINT Bound
ACTION_CONSTRAINT Dump
