------------------------------- MODULE MC_Commit -------------------------------
(* Exhaustive enumeration of abstract commits for ValidatorSet.VerifyCommit:       *)
(* every combination of per-validator flag and signature kind, number of slots,    *)
(* claimed height and block id.  Each initial state is one test of the real        *)
(* function (there are no transitions).                                            *)
EXTENDS VoteSet, Json

VARIABLE c
SigKinds == {"ok", "bad", "other", "swap"}
Slot == {[flag |-> "absent", sig |-> "ok"]} \cup [flag : {"nil", "commit"}, sig : SigKinds]
Init == c \in [size : {N - 1, N, N + 1}, hOK : BOOLEAN, bidOK : BOOLEAN, sigs : [Idx -> Slot]]
Next == UNCHANGED c
Spec == Init /\ [][Next]_c

\* C02: accepted only if distinct validators with > 2/3 of the power validly signed that block id
Sound == VerifyCommit(c) = "ok" =>
           /\ c.size = N /\ c.hOK /\ c.bidOK
           /\ 3 * SumP({i \in Idx : c.sigs[i].flag = "commit" /\ c.sigs[i].sig = "ok"}) > 2 * Total
\* and conversely a well-formed commit carrying > 2/3 is accepted
Completeness == (/\ c.size = N /\ c.hOK /\ c.bidOK
                 /\ \A i \in Idx : c.sigs[i].sig = "ok"
                 /\ 3 * SumP({i \in Idx : c.sigs[i].flag = "commit"}) > 2 * Total) => VerifyCommit(c) = "ok"
Dump == PrintT(ToJson([c |-> c, r |-> VerifyCommit(c)]))
================================================================================
