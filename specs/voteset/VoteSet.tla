--------------------------------- MODULE VoteSet ---------------------------------
(***************************************************************************)
(* Vote tallying of one (height, round, type) as implemented by             *)
(* types/vote_set.go, and commit construction / verification                *)
(* (VoteSet.MakeCommit, ValidatorSet.VerifyCommit).  Property C02.          *)
(*                                                                         *)
(* Written in functional style (state record + operators returning          *)
(* [st, res]) so that the same operators serve                              *)
(*   - the exhaustive model (MC_VoteSet),                                   *)
(*   - the per-transition dump replayed into the real types.VoteSet,        *)
(*   - the trace validator (VoteSetTrace), and                              *)
(*   - the consensus node specification (KardiaNode instantiates them).     *)
(***************************************************************************)
EXTENDS Integers, Sequences, FiniteSets, TLC

CONSTANTS Power,    \* sequence of voting powers; index = validator index + 1
          Blocks,   \* block ids votes may carry; contains NilB
          Peers     \* peers that may claim a majority

N     == Len(Power)
Idx   == 1..N
None  == "none"     \* "no vote" / "no majority"
NilB  == "nil"      \* the nil block id (a vote for nil)

RECURSIVE SumP(_)
SumP(S) == IF S = {} THEN 0
           ELSE LET i == CHOOSE x \in S : TRUE IN Power[i] + SumP(S \ {i})
Total == SumP(Idx)

\* voteSet.valSet.TotalVotingPower()*2/3 + 1  (truncating division, as in the code)
Quorum == (Total * 2) \div 3 + 1

NoVote == [b |-> None, sv |-> 0]
NoBV   == [tracked |-> FALSE, peerMaj |-> FALSE, voters |-> [i \in Idx |-> 0], sum |-> 0]

\* votes[i]      = canonical vote of validator i (voteSet.votes), sv = which signature variant
\* sum           = voteSet.sum
\* maj23         = voteSet.maj23 (None if nil)
\* byBlock[b]    = voteSet.votesByBlock[key(b)]; tracked = entry exists
\* peerMaj[p]    = voteSet.peerMaj23s[p]
Empty == [votes   |-> [i \in Idx |-> NoVote],
          sum     |-> 0,
          maj23   |-> None,
          byBlock |-> [b \in Blocks |-> NoBV],
          peerMaj |-> [p \in Peers |-> None]]

\* getVote(valIndex, blockKey): signature variant of the known vote, 0 if unknown
Existing(s, i, b) == IF s.votes[i].b = b THEN s.votes[i].sv
                     ELSE IF s.byBlock[b].tracked THEN s.byBlock[b].voters[i] ELSE 0

(* AddVote for a vote that passes every check up to and including the signature.        *)
(* Result classes (what the caller of AddVote observes):                                 *)
(*   "added"            (true,  nil)                                                     *)
(*   "dup"              (false, nil)                                                     *)
(*   "nondet"           (false, ErrVoteNonDeterministicSignature)                        *)
(*   "conflict_added"   (true,  ErrVoteConflictingVotes)                                 *)
(*   "conflict_dropped" (false, ErrVoteConflictingVotes)                                 *)
AddValid(s, i, b, sv) ==
  LET ex == Existing(s, i, b) IN
  IF ex # 0 THEN [st |-> s, res |-> IF ex = sv THEN "dup" ELSE "nondet"]
  ELSE
    LET conflicting == s.votes[i].b # None
        replace     == conflicting /\ s.maj23 = b
        votes1      == IF ~conflicting \/ replace
                       THEN [s.votes EXCEPT ![i] = [b |-> b, sv |-> sv]] ELSE s.votes
        sum1        == IF ~conflicting THEN s.sum + Power[i] ELSE s.sum
        bb          == s.byBlock[b]
        drop        == conflicting /\ ~(bb.tracked /\ bb.peerMaj)
    IN IF drop
       THEN [st |-> [s EXCEPT !.votes = votes1, !.sum = sum1], res |-> "conflict_dropped"]
       ELSE
         LET orig    == bb.sum
             bb1     == [bb EXCEPT !.tracked = TRUE, !.voters[i] = sv, !.sum = @ + Power[i]]
             crossed == orig < Quorum /\ Quorum <= bb1.sum /\ s.maj23 = None
             votes2  == IF crossed
                        THEN [j \in Idx |-> IF bb1.voters[j] # 0
                                            THEN [b |-> b, sv |-> bb1.voters[j]] ELSE votes1[j]]
                        ELSE votes1
         IN [st  |-> [s EXCEPT !.votes = votes2, !.sum = sum1,
                               !.maj23 = IF crossed THEN b ELSE @,
                               !.byBlock[b] = bb1],
             res |-> IF conflicting THEN "conflict_added" ELSE "added"]

(* A vote that fails one of the checks.  Kinds, in the order the code tests them:       *)
(*   "height" "heightlow" "round" "roundlow" "type"  -> ErrVoteUnexpectedStep             *)
(*   "index"                  -> index beyond the set                                    *)
(*   "addr"                   -> address of another validator                            *)
(*   "sig" "chain"            -> signature does not verify (tested AFTER the duplicate   *)
(*                               lookup, so a known (i, b) yields "nondet" instead)      *)
InvalidKinds == {"height", "heightlow", "round", "roundlow", "type", "index", "addr", "sig", "chain"}
\* ("height"/"round": one above the set's; "heightlow"/"roundlow": one below - a straggler of an earlier round, the
\*  input LastCommit.AddVote can really meet)
AddInvalid(s, i, b, kind) ==
  [st  |-> s,
   res |-> IF kind \in {"sig", "chain"} /\ Existing(s, i, b) # 0 THEN "nondet" ELSE "invalid"]

\* SetPeerMaj23
SetPeerMaj(s, p, b) ==
  IF s.peerMaj[p] # None
  THEN [st |-> s, res |-> IF s.peerMaj[p] = b THEN "ok" ELSE "err"]
  ELSE [st  |-> [s EXCEPT !.peerMaj[p] = b, !.byBlock[b].tracked = TRUE, !.byBlock[b].peerMaj = TRUE],
        res |-> "ok"]

\* Observers
TwoThirdsMajority(s) == s.maj23
HasTwoThirdsAny(s)   == s.sum > (Total * 2) \div 3
HasAll(s)            == s.sum = Total

(* MakeCommit (precommit sets with a majority for a real block): one flag per validator *)
(*   "absent" no canonical vote, or a vote for another block                             *)
(*   "nil"    canonical vote for nil                                                     *)
(*   "commit" canonical vote for maj23                                                   *)
CanCommit(s) == s.maj23 \notin {None, NilB}
CommitFlags(s) == [i \in Idx |->
                     CASE s.votes[i].b = None    -> "absent"
                       [] s.votes[i].b = NilB    -> "nil"
                       [] s.votes[i].b = s.maj23 -> "commit"
                       [] OTHER                  -> "absent"]

(* ValidatorSet.VerifyCommit on an abstract commit c:                                    *)
(*   c.size   number of signature slots,  c.hOK / c.bidOK  height / block id as expected *)
(*   c.sigs[i] = [flag, sig]  sig \in {"ok","bad"}: does the signature verify for        *)
(*               (chain, height, round, type, block id implied by flag, timestamp)       *)
VerifyCommit(c) ==
  IF c.size # N THEN "size"
  ELSE IF ~c.hOK THEN "height"
  ELSE IF ~c.bidOK THEN "blockid"
  ELSE IF \E i \in Idx : c.sigs[i].flag # "absent" /\ c.sigs[i].sig # "ok" THEN "signature"
  ELSE IF 3 * SumP({i \in Idx : c.sigs[i].flag = "commit"}) > 2 * Total THEN "ok"
  ELSE "power"

(***************************** properties of a state *****************************)
ValidVoters(s, b) == {i \in Idx : s.byBlock[b].tracked /\ s.byBlock[b].voters[i] # 0}

\* a reported majority is backed by distinct validators holding strictly more than 2/3
QuorumSound(s) == s.maj23 # None => 3 * SumP(ValidVoters(s, s.maj23)) > 2 * Total
\* each validator's power is counted at most once
CountedOnce(s) == /\ s.sum = SumP({i \in Idx : s.votes[i].b # None})
                  /\ \A b \in Blocks : s.byBlock[b].sum = SumP({i \in Idx : s.byBlock[b].voters[i] # 0})
\* the two integer thresholds in the code mean "strictly more than two thirds"
ThresholdsExact(s) == /\ HasTwoThirdsAny(s) <=> 3 * s.sum > 2 * Total
                      /\ \A b \in Blocks : (s.byBlock[b].sum >= Quorum) <=> (3 * s.byBlock[b].sum > 2 * Total)
\* the votes of the majority block are the canonical ones (MakeCommit reads s.votes)
MajVotesCanonical(s) == s.maj23 # None => \A i \in ValidVoters(s, s.maj23) : s.votes[i].b = s.maj23
\* the commit built from a majority is accepted by commit verification with the same set
CommitVerifies(s) == CanCommit(s) =>
   VerifyCommit([size |-> N, hOK |-> TRUE, bidOK |-> TRUE,
                 sigs |-> [i \in Idx |-> [flag |-> CommitFlags(s)[i], sig |-> "ok"]]]) = "ok"
\* only one block can be reported
AtMostOneQuorumBlock(s) == \A b1, b2 \in Blocks :
   (3 * SumP({i \in Idx : s.votes[i].b = b1}) > 2 * Total /\ 3 * SumP({i \in Idx : s.votes[i].b = b2}) > 2 * Total) => b1 = b2
==================================================================================
