---------------------------- MODULE MC_CStateStore ----------------------------
(***************************************************************************)
(* Model for TLC: every chain of consensus states that the specification's  *)
(* own updateState produces from a genesis set under a universe of change    *)
(* sets (ChangeSets: none / power change / removal / re-addition / ... , so  *)
(* that static stretches, changes at consecutive heights, returns to an      *)
(* earlier membership, power-only changes and removals of the designated     *)
(* next proposer all occur), saved in order into TWO stores that run side by *)
(* side over the same chain:                                                 *)
(*     sS  CStateStore AS SPECIFIED   (S!...)                                *)
(*     sI  CStateStore AS IMPLEMENTED (I!..., switches ImplKey, ImplPrune,   *)
(*         ImplLookups, ImplGenesis; all FALSE describes the code as found)  *)
(* with PruneState(from, to) over every range at every point (at most        *)
(* MaxPrunes per behaviour), and every read call evaluated in every state:   *)
(* Load at the head, Load after the head has been rewound to any lower       *)
(* height (= loadStateAtHeight there; what a restart after the chain's head   *)
(* repair does), LoadValidators / LoadConsensusParams at every height        *)
(* 0 .. head + 1.  A restart is not an action: the store keeps nothing in     *)
(* memory, so "after a restart" is simply "in every state" (the driver uses   *)
(* a new store object for the reads and restarts at random between steps).    *)
(*                                                                         *)
(* The property C14 is stated as invariants over sS (Inv).  The same         *)
(* predicates over sI (ImplInv...) are what the code's design can NOT        *)
(* guarantee; MCneg.cfg lets TLC exhibit the shortest histories.             *)
(*                                                                         *)
(* Dump (ACTION_CONSTRAINT) prints one JSON line per transition:             *)
(*    h  the history: <<"a", change set, params, result, removed-next-       *)
(*       proposer flag>> | <<"p", from, to, records deleted>>                *)
(*    s  the running node's state after it (what updateState must produce)   *)
(*    o  what every read call returns AS SPECIFIED                           *)
(*    x  the same AS IMPLEMENTED, component-wise, 0 where equal to o         *)
(* harness/cstore replays h into the real code (real updateState, real       *)
(* Save / PruneState, a NEW store object for the reads) and compares.        *)
(***************************************************************************)
EXTENDS Integers, Sequences, FiniteSets, TLC, Json

CONSTANTS Cap,          \* ValidatorSet.tla: MaxTotalVotingPower (never approached here)
          InitPowers,   \* genesis powers of validators 1..n
          ChangeSets,   \* set of change sets (sequences of [a, p]); <<>> = a block without validator updates
          ParamsU,      \* consensus-params tokens a block may switch to ({1}: params never change, as in the code)
          MaxBlocks,    \* chain length (blocks applied after genesis)
          MaxPrunes,    \* PruneState calls per behaviour
          ImplKey, ImplPrune, ImplLookups, ImplGenesis   \* the as-implemented instance (see CStateStore)

S == INSTANCE CStateStore WITH KeyBindsPriorities <- TRUE, PruneByReference <- TRUE, LookupsTotal <- TRUE,
                               GenesisAsSaved <- TRUE
I == INSTANCE CStateStore WITH KeyBindsPriorities <- ImplKey, PruneByReference <- ImplPrune,
                               LookupsTotal <- ImplLookups, GenesisAsSaved <- ImplGenesis

VARIABLES cur,     \* the running node's chain state (what ConsensusState / BlockExecutor hold in memory)
          chain,   \* chain[h + 1] = the state handed to Save for height h
          sS, sI,  \* the two stores
          sched,   \* sched[h] = membership (set of <<address, power>>) in force at height h, computed from the
                   \* change sets alone: a change returned by block b takes effect at height b + 2
          np,      \* prunes so far; -1: the node has not started yet (empty database)
          hist
vars == <<cur, chain, sS, sI, sched, np, hist>>

InitChs == [i \in 1..Len(InitPowers) |-> [a |-> i, p |-> InitPowers[i]]]
MemberSet(s) == {<<s.v[i].a, s.v[i].p>> : i \in 1..Len(s.v)}
ApplyChs(M, chs) == LET as == {chs[i].a : i \in 1..Len(chs)}
                    IN {m \in M : m[1] \notin as} \cup {<<chs[i].a, chs[i].p>> : i \in {j \in 1..Len(chs) : chs[j].p > 0}}
FlatChs(chs) == [i \in 1..(2 * Len(chs)) |-> IF i % 2 = 1 THEN chs[(i + 1) \div 2].a ELSE chs[i \div 2].p]

Init == LET g == S!GenesisState(InitChs, 1)
        IN /\ cur = g /\ chain = <<g>>
           /\ sS = S!EmptyStore /\ sI = I!EmptyStore
           /\ sched = <<MemberSet(g.vals), MemberSet(g.next)>>
           /\ np = -1 /\ hist = <<>>

\* First start on an empty database: LoadStateFromDBOrGenesisDoc = Load (nothing there), MakeGenesisState, Save.
\* (Its own step so that the genesis state alone is a dumped, replayed case: history <<>>.)
Start == /\ np = -1 /\ np' = 0
         /\ sS' = S!Save(sS, cur) /\ sI' = I!Save(sI, cur)
         /\ UNCHANGED <<cur, chain, sched, hist>>

\* ApplyBlock after the application returned `chs`: updateState, app hash, Save.  An invalid change set is an
\* error of ApplyBlock: nothing changes, nothing is saved.
DoApply(chs, p) ==
  LET r == S!UpdateState(cur, chs, p)
      rmNextProposer == \E i \in 1..Len(chs) : chs[i].p = 0 /\ chs[i].a = cur.next.prop
      tag == IF rmNextProposer THEN 1 ELSE 0
  IN /\ np >= 0 /\ Len(chain) <= MaxBlocks
     /\ hist' = Append(hist, <<"a", FlatChs(chs), p, r.res, tag>>)
     /\ UNCHANGED np
     /\ IF r.res = "ok"
        THEN /\ cur' = r.s /\ chain' = Append(chain, r.s)
             /\ sS' = S!Save(sS, r.s) /\ sI' = I!Save(sI, r.s)
             /\ sched' = Append(sched, ApplyChs(sched[Len(sched)], chs))
        ELSE UNCHANGED <<cur, chain, sS, sI, sched>>

DoPrune(from, to) ==
  LET a == S!Prune(sS, from, to)
      b == I!Prune(sI, from, to)
  IN /\ np >= 0 /\ np < MaxPrunes /\ np' = np + 1
     /\ sS' = a.store /\ sI' = b.store
     /\ hist' = Append(hist, <<"p", from, to, b.n>>)
     /\ UNCHANGED <<cur, chain, sched>>

Next == \/ Start
        \/ \E chs \in ChangeSets, p \in ParamsU : DoApply(chs, p)
        \* pruning OLD states: the head's own record is never in the range (to <= head)
        \/ \E from \in 0..cur.h, to \in 1..cur.h : from < to /\ DoPrune(from, to)
Spec == Init /\ [][Next]_vars
View == <<cur, sS, sI, np>>

Heights == 0..(cur.h + 1)

(************************* C14 on the store as specified ************************)
\* the state loaded at the head after a restart equals the state saved for it (the head is never pruned)
LoadEqualsSaved == cur.h \in S!Kept(sS) /\ S!LoadEqualsSavedAt(sS, chain, cur.h)
\* after any prune every kept height still loads completely, and equal to what was saved — also: after a head
\* rewind to any kept height, Load returns exactly the state that was saved for it, whatever was saved later
PruneKeepsNeeded == \A h \in S!Kept(sS) : S!LoadEqualsSavedAt(sS, chain, h)
\* the set retrievable for a kept height is the set saved as entitled to sign it, and that is the membership
\* the change sets prescribe for that height
HistoricalValidators == \A h \in S!Kept(sS) :
                           /\ S!HistoricalValidatorsAt(sS, chain, h)
                           /\ h >= 1 => MemberSet(chain[h + 1].last) = sched[h]
ParamsRoundTrip == \A h \in S!Kept(sS) : S!ParamsRoundTripAt(sS, chain, h)
\* heights without a record are errors, never panics; pruning removes exactly the requested records
Total == /\ \A h \in Heights \ S!Kept(sS) : S!TotalAt(sS, h)
         /\ 0 \in S!Kept(sS)
         /\ S!Kept(sS) = I!Kept(sI)
\* updateState rotates the sets as scheduled (sanity of the chain generator itself)
Timeline == /\ cur.h >= 1 => MemberSet(cur.last) = sched[cur.h]
            /\ MemberSet(cur.vals) = sched[cur.h + 1] /\ MemberSet(cur.next) = sched[cur.h + 2]
            /\ S!WellFormed(cur.next.v) /\ cur.next.prop # 0
Inv == np >= 0 => LoadEqualsSaved /\ PruneKeepsNeeded /\ HistoricalValidators /\ ParamsRoundTrip /\ Total /\ Timeline

(*************** the same predicates on the store as implemented ****************)
\* not expected to hold while the Impl switches are FALSE: MCneg.cfg asks TLC for the shortest histories
ImplLoadEqualsSaved == np >= 0 /\ cur.h \in I!Kept(sI) => I!LoadEqualsSavedAt(sI, chain, cur.h)
ImplLoadsAtHead == cur.h \in I!Kept(sI) => I!LoadAt(sI, cur.h).res = "ok"          \* weaker: Load does not even panic
ImplPruneKeepsNeeded == \A h \in I!Kept(sI) : I!LoadAt(sI, h).res = "ok"
ImplHistoricalValidators == \A h \in I!Kept(sI) : h >= 1 =>
                               LET l == I!LoadValidators(sI, h) IN l.res = "ok" /\ MemberSet(l.set) = sched[h]
ImplTotal == np >= 0 => \A h \in Heights \ I!Kept(sI) : I!TotalAt(sI, h)

(************************************ dump **************************************)
FlatSet(s) == [i \in 1..(3 * Len(s.v) + 1) |->
                 IF i = 3 * Len(s.v) + 1 THEN s.prop
                 ELSE LET v == s.v[(i - 1) \div 3 + 1]
                      IN CASE (i - 1) % 3 = 0 -> v.a [] (i - 1) % 3 = 1 -> v.p [] OTHER -> v.prio]
FlatMem(s) == [i \in 1..(2 * Len(s.v)) |-> IF i % 2 = 1 THEN s.v[(i + 1) \div 2].a ELSE s.v[i \div 2].p]
FlatState(s) == <<s.h, s.bid, s.time, s.app, s.params, s.lhvc, s.lhpc, FlatSet(s.last), FlatSet(s.vals), FlatSet(s.next)>>

\* Load at the head: <<class, <<>>>> when the loaded state IS the running state, else the loaded state in full
LdC(l, c) == IF l.res = "ok" THEN (IF l.s = c THEN <<"ok", <<>>>> ELSE <<"ok", FlatState(l.s)>>) ELSE <<l.res, <<>>>>
\* loadStateAtHeight at any height — for a height below the head this is what Load() returns after the head has
\* been rewound to it (head repair after an unclean shutdown): 0 none, 2 panic, 10 + mask ok, where mask has one
\* bit per field that differs from the state that was saved for that height (10: the saved state exactly)
\*   1 last  2 vals  4 next  8 lhvc  16 bid  32 app  64 time  128 params  256 lhpc
Bit(c, b) == IF c THEN b ELSE 0
DiffMask(a, b) == Bit(a.last # b.last, 1) + Bit(a.vals # b.vals, 2) + Bit(a.next # b.next, 4) + Bit(a.lhvc # b.lhvc, 8)
                  + Bit(a.bid # b.bid, 16) + Bit(a.app # b.app, 32) + Bit(a.time # b.time, 64)
                  + Bit(a.params # b.params, 128) + Bit(a.lhpc # b.lhpc, 256)
LaC(l, saved) == CASE l.res = "none" -> 0 [] l.res = "panic" -> 2 [] OTHER -> 10 + DiffMask(l.s, saved)
\* LoadValidators: <<1, members, 1 if priorities and proposer are the saved ones>> | <<0, <<>>, 0>>
LvC(l, saved) == IF l.res = "ok" THEN <<1, FlatMem(l.set), IF l.set = saved THEN 1 ELSE 0>> ELSE <<0, <<>>, 0>>
\* LoadConsensusParams: the params token | 0 error | -1 panic
LpC(l) == CASE l.res = "ok" -> l.params [] l.res = "err" -> 0 [] OTHER -> -1

SavedAt(ch, h) == IF h + 1 <= Len(ch) THEN ch[h + 1] ELSE ch[1]
ObsS(st, c, ch) == [ld |-> LdC(S!LoadAt(st, c.h), c),
                    la |-> [k \in 1..(c.h + 2) |-> LaC(S!LoadAt(st, k - 1), SavedAt(ch, k - 1))],
                    lv |-> [k \in 1..(c.h + 2) |-> LvC(S!LoadValidators(st, k - 1), SavedAt(ch, k - 1).last)],
                    lp |-> [k \in 1..(c.h + 2) |-> LpC(S!LoadConsensusParams(st, k - 1))]]
ObsI(st, c, ch) == [ld |-> LdC(I!LoadAt(st, c.h), c),
                    la |-> [k \in 1..(c.h + 2) |-> LaC(I!LoadAt(st, k - 1), SavedAt(ch, k - 1))],
                    lv |-> [k \in 1..(c.h + 2) |-> LvC(I!LoadValidators(st, k - 1), SavedAt(ch, k - 1).last)],
                    lp |-> [k \in 1..(c.h + 2) |-> LpC(I!LoadConsensusParams(st, k - 1))]]
OnlyDiff(a, b) == [ld |-> IF a.ld = b.ld THEN 0 ELSE b.ld, la |-> IF a.la = b.la THEN 0 ELSE b.la,
                   lv |-> IF a.lv = b.lv THEN 0 ELSE b.lv, lp |-> IF a.lp = b.lp THEN 0 ELSE b.lp]
Dump == LET o == ObsS(sS', cur', chain')
            x == ObsI(sI', cur', chain')
        IN PrintT(ToJson([h |-> hist', s |-> FlatState(cur'), o |-> o, x |-> OnlyDiff(o, x)]))
================================================================================
