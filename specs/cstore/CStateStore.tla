------------------------------ MODULE CStateStore ------------------------------
(***************************************************************************)
(* The consensus-state store of go-kardia (property C14).                   *)
(*                                                                         *)
(* Code transcribed (one operator per public call / critical section):      *)
(*   kai/state/cstate/state.go      LatestBlockState, ToProto / StateFromProto*)
(*   kai/state/cstate/store.go      MakeGenesisState, saveState,             *)
(*                                  saveValidatorsInfo, saveConsensusParamsInfo,*)
(*                                  loadStateAtHeight (= Load at the head),   *)
(*                                  LoadValidators, LoadConsensusParams,      *)
(*                                  PruneState                                *)
(*   kai/state/cstate/execution.go  updateState, the tail of ApplyBlock       *)
(*   kai/rawdb/accessors_cstate.go  the three record families                 *)
(*   types/validator_set.go         through ValidatorSet.tla (specs/valset):  *)
(*                                  UpdateOp = UpdateWithChangeSet,           *)
(*                                  IncrementOp = IncrementProposerPriority,  *)
(*                                  NewSet = NewValidatorSet                  *)
(*                                                                         *)
(* Functional style (as ValidatorSet.tla): a store is a VALUE                *)
(*     [st : height -> per-height record,                                   *)
(*      vr : key    -> validator-set record [lhc, set],                     *)
(*      pr : key    -> consensus-params record [lhc, params]]               *)
(* and every operator returns the new store and/or the result of the call.  *)
(* MC_CStateStore instantiates this module TWICE over the same chain of      *)
(* states: once "as specified" and once "as implemented" (see the switches   *)
(* below), checks the property on the first, and prints the results both     *)
(* predict for every read call so that the Go driver (harness/cstore) can    *)
(* (1) hold the real store to the specification and (2) tell a deviation     *)
(* that the as-implemented model explains from one it does not.              *)
(* History: the code AS FOUND (all switches FALSE) violated C14 in four      *)
(* ways, each reproduced on the real code by the driver and since repaired:  *)
(*   - records keyed by ValidatorSet.Hash(): Load returned Validators and     *)
(*     LastValidators with NextValidators' priorities and proposer (already   *)
(*     for the genesis state alone), and worse after a head rewind;           *)
(*   - PruneState could delete the only record of a membership that returns   *)
(*     later (Load at the head panics) or that a kept lower state needs;      *)
(*   - LoadConsensusParams dereferenced a missing per-height record;          *)
(*   - Load at height 0 joined the genesis BLOCK's id and state root although *)
(*     the genesis STATE was saved with zero values.                          *)
(* The repaired code is the instance PerHeightRecords, LookupsTotal,          *)
(* GenesisAsSaved = TRUE (KeyBindsPriorities, PruneByReference stay FALSE).   *)
(*                                                                         *)
(* A validator set is a record [v, prop]: v the sequence of [a, p, prio] in  *)
(* the code's order (ValidatorSet.tla), prop the address held by the         *)
(* Proposer field (0: none).  NilSet stands for a nil *ValidatorSet.         *)
(*                                                                         *)
(* A chain state (cstate.LatestBlockState) is a record                       *)
(*   [h, ih, bid, time, app, params, lhvc, lhpc, last, vals, next]           *)
(* h = LastBlockHeight, ih = InitialHeight, bid / time / app = abstract tokens for LastBlockID,  *)
(* LastBlockTime and AppHash (0 = the zero value), params = a token for the  *)
(* ConsensusParams value, lhvc / lhpc = LastHeight{Validators,Consensus-     *)
(* Params}Changed, last / vals / next = the three validator sets.  ChainID   *)
(* and InitialHeight are constants of a chain; they travel in the per-height *)
(* record as the code does it and are compared by the driver.                *)
(*                                                                         *)
(* The block store is not modelled as a variable: exactly one block per      *)
(* height exists in a behaviour, so what loadStateAtHeight joins from it is  *)
(* a function of the height (MetaAt, AppAt below).                           *)
(***************************************************************************)
EXTENDS ValidatorSet      \* Integers, Sequences, FiniteSets, TLC; CONSTANT Cap

CONSTANTS
  InitialHeight,       \* genesis document's initial_height (MakeGenesisState: 0 is read as 1).  In the store it only sets
                       \* the two "last changed" heights of the genesis state and travels in the per-height record; the
                       \* heights the store itself works with are LastBlockHeight-relative whatever its value: the genesis
                       \* state is height 0, its Validators the set of height 1, NextValidators of state h the set of h + 2
  KeyBindsPriorities,  \* TRUE  (as specified): a validator-set record is addressed by the FULL value of the set
                       \*        (membership, power, every priority, proposer)
                       \* FALSE (as implemented): by ValidatorSet.Hash(), the Merkle root of (address, power) only
  PruneByReference,    \* TRUE  (as specified): pruning removes exactly the set records no KEPT state refers to
                       \* FALSE (as implemented): removes the LastValidators records of the pruned states unless
                       \*        genesis or the state at `to` refers to the same key
  LookupsTotal,        \* TRUE  (as specified): LoadConsensusParams of a height without a record is an error
                       \* FALSE (as implemented): it dereferences the missing record (panic)
  GenesisAsSaved,      \* TRUE  (as specified): Load at height 0 returns the zero block id / app hash that were saved
                       \* FALSE (as implemented): it joins the genesis BLOCK's id and state root
  PerHeightRecords     \* FALSE (as specified, and the code as found).
                       \* TRUE  models the REPAIR of the code (commit 83d442d; only meaningful with KeyBindsPriorities =
                       \*        FALSE): the hash-addressed records stay as they are and every set is ALSO written
                       \*        under (hash, height the set is in force at); reads prefer that record and fall back
                       \*        to the hash-addressed one; PruneState drops the per-height records of pruned
                       \*        heights that no remaining state refers to.  MC_CStateStore checks that this design
                       \*        satisfies the invariants of C14 (ImplInv, ImplUpgradeInv).
  , UpgradeAt          \* with PerHeightRecords: the first height saved by the repaired code (0: the whole database;
                       \* k > 0: heights below k were saved by the code as found, i.e. without per-height records —
                       \* "records already in a database must stay loadable")
ASSUME ~(KeyBindsPriorities /\ PerHeightRecords)

NilSet == [v |-> <<>>, prop |-> 0]
IsNil(s) == s.v = <<>>

(***************************** the block store ********************************)
\* tokens: block id and app hash of height h are h + 1 (0 is the zero value), block time of height h is h
\* (genesis block and genesis state both carry the genesis time, token 0)
MetaAt(h) == [bid |-> h + 1, time |-> h]
AppAt(h)  == h + 1

(******************************* genesis **************************************)
\* MakeGenesisState: Validators = NewValidatorSet(vals), NextValidators = the same advanced by one round,
\* LastValidators = nil, both "last changed" heights = InitialHeight, zero block id and app hash.
GenesisState(initChs, params) ==
  LET v == NewSet(initChs)
      n == IncrementOp(v.v, 1)
  IN [h |-> 0, ih |-> InitialHeight, bid |-> 0, time |-> 0, app |-> 0, params |-> params,
      lhvc |-> InitialHeight, lhpc |-> InitialHeight,
      last |-> NilSet, vals |-> [v |-> v.v, prop |-> v.prop], next |-> [v |-> n.v, prop |-> n.prop]]

(******************************* updateState **********************************)
(* updateState(state, blockID, header, validatorUpdates) + `state.AppHash = appHash` of ApplyBlock.       *)
(*   nValSet := NextValidators.Copy(); if there are updates: UpdateWithChangeSet (an error aborts, nothing *)
(*   is saved) and LastHeightValidatorsChanged := height + 2; THEN IncrementProposerPriority(1)            *)
(*   (rotation is advanced AFTER the change set is applied — the order property C12 asks for);             *)
(*   LastValidators' = Validators, Validators' = NextValidators.                                           *)
(* chs: sequence of [a, p] (p = 0 removes).  newParams: the params token of the new state — the code never *)
(* changes ConsensusParams (newParams = s.params); a different value models a params-changing block the    *)
(* way Tendermint records it (LastHeightConsensusParamsChanged = height + 1) and is used only by the       *)
(* params extension of the model.                                                                          *)
(* Deliberate transcription of a deviation: updateState does not carry LastHeightConsensusParamsChanged    *)
(* over (the field is 0 in every state after genesis).  It is bookkeeping, not part of C14's statement.    *)
UpdateState(s, chs, newParams) ==
  LET height == s.h + 1
      r == UpdateOp(s.next.v, chs)
      n == IncrementOp(r.v, 1)
  IN IF chs # <<>> /\ r.res # "ok" THEN [res |-> r.res, s |-> s]
     ELSE [res |-> "ok",
           s |-> [h |-> height, ih |-> s.ih, bid |-> MetaAt(height).bid, time |-> MetaAt(height).time, app |-> AppAt(height),
                  params |-> newParams,
                  lhvc |-> IF chs # <<>> THEN height + 2 ELSE s.lhvc,
                  lhpc |-> IF newParams # s.params THEN height + 1 ELSE 0,
                  last |-> s.vals, vals |-> s.next, next |-> [v |-> n.v, prop |-> n.prop]]]

(******************************** keys *****************************************)
(* A validator-set record holds [lhc, set]: the set and the LastHeightValidatorsChanged of the state that   *)
(* wrote it.  AS SPECIFIED a record is addressed by everything it holds, so that two different records      *)
(* never share a key and a record, once written, is never altered by a later Save.  AS IMPLEMENTED the key  *)
(* is ValidatorSet.Hash(): address and power of the members, nothing else.                                   *)
(* Uniform shape <<members, rest>> so that TLC can compare any two keys of one store.  Nil and empty sets    *)
(* both get the zero hash in the code; here both are NilSet.                                                 *)
Members(s) == [i \in 1..Len(s.v) |-> <<s.v[i].a, s.v[i].p>>]
PrioSeq(s) == [i \in 1..Len(s.v) |-> s.v[i].prio]
VKey(s, lhc) == IF KeyBindsPriorities THEN <<Members(s), <<PrioSeq(s), s.prop, lhc>>>> ELSE <<Members(s), <<>>>>
\* the repair's additional key: keccak(Hash() || height) — the membership part of the hash key plus the height
AtKey(hk, height) == <<hk[1], <<height>>>>
\* params records: the code's key is the last 32 bytes of the encoded record — assumed injective on
\* (params, lhpc) (true for every value the driver uses; not for arbitrarily large field values)
PKey(params, lhpc) == <<params, lhpc>>

Put(f, k, x) == (k :> x) @@ f
Drop(f, K) == [k \in (DOMAIN f) \ K |-> f[k]]
EmptyStore == [st |-> <<>>, vr |-> <<>>, pr |-> <<>>]     \* <<>> is the function with the empty domain
HasKey(f, k) == k \in DOMAIN f

(******************************** saveState ************************************)
(* One batch: the records of the validator sets (each with the state's LastHeightValidatorsChanged), the   *)
(* params record, and the per-height record holding the four keys.  Later puts of a batch win over earlier *)
(* ones with the same key.                                                                                 *)
(* Which set records are written: AS IMPLEMENTED only NextValidators (plus LastValidators (nil -> zero key) *)
(* and Validators at height 0), relying on the two earlier heights having written the other two under the   *)
(* same keys.  AS SPECIFIED "Save stores the per-height record and the validator-set records it refers to": *)
(* all three at every height (with a key that binds the whole record nothing else is sound).                *)
Save(store, s) ==
  LET rec(x) == [lhc |-> s.lhvc, set |-> x]
      k(x) == VKey(x, s.lhvc)
      all == s.h = 0 \/ KeyBindsPriorities
      vr0 == IF all THEN Put(Put(store.vr, k(s.last), rec(s.last)), k(s.vals), rec(s.vals)) ELSE store.vr
      vr1 == Put(vr0, k(s.next), rec(s.next))
      \* the repair: Validators of the genesis state is the set of height 1, NextValidators of state h that of h + 2
      vr2 == IF ~(PerHeightRecords /\ s.h >= UpgradeAt) THEN vr1
             ELSE LET a == IF s.h = 0 THEN Put(vr1, AtKey(k(s.vals), 1), rec(s.vals)) ELSE vr1
                  IN Put(a, AtKey(k(s.next), s.h + 2), rec(s.next))
      pk == PKey(s.params, s.lhpc)
  IN [st |-> Put(store.st, s.h, [ih |-> s.ih, lk |-> k(s.last), vk |-> k(s.vals), nk |-> k(s.next), pk |-> pk]),
      vr |-> vr2,
      pr |-> Put(store.pr, pk, [lhc |-> s.lhpc, params |-> s.params])]

(***************************** loadStateAtHeight *******************************)
(* Load() = LoadAt(store, height of the head block).  Result classes:                                     *)
(*   "none"  no per-height record (Load returns the empty state)                                          *)
(*   "panic" a referenced record is missing (nil dereference / explicit panic in the code)                *)
(*   "ok"    with the state assembled from the record, the three set records, the params record, the      *)
(*           block meta and the app hash of that height.                                                  *)
Refs(r) == {r.lk, r.vk, r.nk}
\* the key under which the record for reference hk, a set in force at `height`, is found (readValidatorsInfoAt of the
\* repair: the per-height record if there is one, else the hash-addressed record)
Resolve(store, hk, height) == IF PerHeightRecords /\ HasKey(store.vr, AtKey(hk, height)) THEN AtKey(hk, height) ELSE hk
LoadAt(store, h) ==
  IF ~HasKey(store.st, h) THEN [res |-> "none"]
  ELSE LET r0 == store.st[h]
           r == [r0 EXCEPT !.lk = Resolve(store, @, h), !.vk = Resolve(store, @, h + 1), !.nk = Resolve(store, @, h + 2)]
           lastOK == h = 0 \/ (HasKey(store.vr, r.lk) /\ ~IsNil(store.vr[r.lk].set))
           valsOK == HasKey(store.vr, r.vk) /\ ~IsNil(store.vr[r.vk].set)
           nextOK == HasKey(store.vr, r.nk) /\ ~IsNil(store.vr[r.nk].set)
       IN IF ~(lastOK /\ valsOK /\ nextOK /\ HasKey(store.pr, r.pk)) THEN [res |-> "panic"]
          ELSE [res |-> "ok",
                s |-> [h |-> h, ih |-> r.ih,
                       bid  |-> IF h = 0 /\ GenesisAsSaved THEN 0 ELSE MetaAt(h).bid,
                       time |-> MetaAt(h).time,
                       app  |-> IF h = 0 /\ GenesisAsSaved THEN 0 ELSE AppAt(h),
                       params |-> store.pr[r.pk].params, lhpc |-> store.pr[r.pk].lhc,
                       lhvc |-> store.vr[r.nk].lhc,
                       last |-> IF h = 0 THEN NilSet ELSE store.vr[r.lk].set,
                       vals |-> store.vr[r.vk].set,
                       next |-> store.vr[r.nk].set]]

(******************************* LoadValidators ********************************)
(* The set entitled to sign height h = LastValidators of the state saved for h.                            *)
(*   "nostate"  ErrNoConsensusStateForHeight     "novalset" ErrNoValSetForHeight                           *)
(*   "nilset"   the record holds no set (height 0: nobody signs the genesis block)                         *)
LoadValidators(store, h) ==
  IF ~HasKey(store.st, h) THEN [res |-> "nostate", set |-> NilSet]
  ELSE LET k == Resolve(store, store.st[h].lk, h)
       IN IF ~HasKey(store.vr, k) THEN [res |-> "novalset", set |-> NilSet]
          ELSE IF IsNil(store.vr[k].set) THEN [res |-> "nilset", set |-> NilSet]
          ELSE [res |-> "ok", set |-> store.vr[k].set]

(***************************** LoadConsensusParams *****************************)
LoadConsensusParams(store, h) ==
  IF ~HasKey(store.st, h) THEN [res |-> IF LookupsTotal THEN "err" ELSE "panic", params |-> 0]
  ELSE LET k == store.st[h].pk
       IN IF ~HasKey(store.pr, k) THEN [res |-> "err", params |-> 0]
          ELSE [res |-> "ok", params |-> store.pr[k].params]

(********************************* PruneState **********************************)
(* PruneState(from, to): per-height records of [max(from,1), to) are deleted (height 0 never).             *)
(* As implemented: candidates = the LastValidators keys of the deleted records; the keys referenced by the *)
(* genesis record and by the record at `to` (if present) are spared; the rest is deleted.                  *)
(* As specified: exactly the set records that no remaining per-height record refers to are deleted —       *)
(* the most aggressive pruning the property allows (it only asks that nothing NEEDED disappears).          *)
(* Params records are never pruned.  n = number of per-height records deleted (first return value).        *)
Prune(store, from, to) ==
  LET f == IF from = 0 THEN 1 ELSE from
      gone == {i \in f..(to - 1) : HasKey(store.st, i)}
      st1 == Drop(store.st, gone)
      cand == {store.st[i].lk : i \in gone}
      spared == (IF HasKey(st1, 0) THEN Refs(st1[0]) ELSE {}) \cup (IF HasKey(st1, to) THEN Refs(st1[to]) ELSE {})
      needed == UNION {Refs(st1[i]) : i \in DOMAIN st1}
      del == IF PruneByReference THEN (DOMAIN store.vr) \ needed ELSE cand \ spared
      \* the repair: the per-height record of the set of height i serves the states i-2 (next), i-1 (current), i (last)
      delAt == IF ~PerHeightRecords THEN {}
               ELSE {AtKey(store.st[i].lk, i) : i \in {j \in gone : (j < 2 \/ ~HasKey(st1, j - 2)) /\ ~HasKey(st1, j - 1)}}
  IN [store |-> [st |-> st1, vr |-> Drop(store.vr, del \cup delAt), pr |-> store.pr], n |-> Cardinality(gone)]

(******************************* what C14 states *******************************)
(* chain: the sequence of states handed to Save, chain[h + 1] for height h.                                *)
Kept(store) == DOMAIN store.st
\* the state loaded at a kept height equals the state saved for it: every field, every priority, proposers
LoadEqualsSavedAt(store, chain, h) ==
  LET l == LoadAt(store, h) IN l.res = "ok" /\ l.s = chain[h + 1]
\* the set retrievable for a kept past height is the LastValidators saved for it (nobody for height 0)
HistoricalValidatorsAt(store, chain, h) ==
  LET l == LoadValidators(store, h)
  IN IF h = 0 THEN l.res # "ok" ELSE l.res = "ok" /\ l.set = chain[h + 1].last
ParamsRoundTripAt(store, chain, h) ==
  LET l == LoadConsensusParams(store, h) IN l.res = "ok" /\ l.params = chain[h + 1].params
\* unknown heights are errors, never panics
TotalAt(store, h) == LoadValidators(store, h).res \in {"nostate"} /\ LoadConsensusParams(store, h).res = "err"
=================================================================================
