--------------------------------- MODULE TxPoolTrace ---------------------------------
(***************************************************************************)
(* Trace validation (code -> specification).  trace.ndjson holds the        *)
(* operations a seeded random driver performed on the REAL pool             *)
(* (harness/pool TestRecord), one JSON object per operation:                *)
(*   op    "ar" "al" "ab" "xr" "xl" "pr" "rs" "gp" "ex" "rst", or "new"      *)
(*         (a fresh pool over a fresh chain: start of the next trace)       *)
(*   t, u  transactions <<a, n, p, k>>     a, n, b, g  head event           *)
(*   f     new gas price                   S           expired accounts     *)
(*   acc   1 / 0: accepted or rejected (a pair for "ab")                    *)
(*   p, q, l  what the real pool holds afterwards: pending, queued, locals  *)
(*   pn       pool.Nonce(addr) of every account afterwards                  *)
(* Every line must be explained by the operator of TxPool.tla for that      *)
(* operation: some allowed outcome has the same accept/reject pattern and   *)
(* the same pool content.  Where several outcomes fit (they can differ in   *)
(* state the observation does not show) all are followed.  The clauses of   *)
(* the statement (TraceInv) are evaluated on every state on the way.        *)
(* Acceptance: the search reaches depth Len(Trace) (POSTCONDITION).         *)
(***************************************************************************)
EXTENDS TxPool, Json

CONSTANTS InitBal, InitGas

Trace == ndJsonDeserialize("trace.ndjson")

VARIABLES s, i
vars == <<s, i>>

Fresh == InitState([a \in Accts |-> 0], [a \in Accts |-> InitBal], InitGas)
Init == s = Fresh /\ i = 1

SetOf(q) == {q[k] : k \in DOMAIN q}      \* a JSON array comes back as a sequence

Outcomes(e) ==
  CASE e.op = "ar"  -> SyncAdd(s, e.t, FALSE)
    [] e.op = "al"  -> SyncAdd(s, e.t, TRUE)
    [] e.op = "ab"  -> SyncBatch(s, <<e.t, e.u>>)
    [] e.op = "xr"  -> AddLocked(s, e.t, FALSE)
    [] e.op = "xl"  -> AddLocked(s, e.t, TRUE)
    [] e.op = "pr"  -> Promote(s)
    [] e.op = "rs"  -> Reset(s, [s.cn EXCEPT ![e.a] = e.n], [s.cb EXCEPT ![e.a] = e.b], e.g)
    [] e.op = "gp"  -> SetGasPrice(s, e.f)
    [] e.op = "ex"  -> Expire(s, SetOf(e.S))
    [] e.op = "rst" -> Restart(s)
    [] e.op = "new" -> {Res(Fresh, "ok", {})}

A1(r) == IF r = "ok" THEN 1 ELSE 0
Acc(e, r) == IF e.op = "ab" THEN <<A1(r[1]), A1(r[2])>> ELSE A1(r)

Explains(e, o) == /\ Acc(e, o.res) = e.acc
                  /\ o.st.pend = SetOf(e.p) /\ o.st.queue = SetOf(e.q) /\ o.st.loc = SetOf(e.l)
                  /\ \A a \in Accts : o.st.pn[a] = e.pn[a]

Next == /\ i <= Len(Trace)
        /\ \E o \in Outcomes(Trace[i]) : Explains(Trace[i], o) /\ s' = o.st
        /\ i' = i + 1

Spec == Init /\ [][Next]_vars

TraceInv == /\ PendingGapFree(s) /\ EachAffordable(s) /\ FitsBlockGas(s)
            /\ PendingQueueDisjoint(s) /\ IndexedExactlyOnce(s) /\ MinedGone(s)
            /\ NonceTracksPending(s) /\ NonceIsNextPending(s) /\ QueuedValid(s) /\ LocalFlagged(s)
            /\ TotalSlotsRespected(s) /\ PendingLimitRespected(s)

\* diagnostic (an invariant that is always true): where no outcome explains the next line, print what
\* the specification allows there; the runner shows it when the trace is rejected
Stuck == (i <= Len(Trace) /\ ~\E o \in Outcomes(Trace[i]) : Explains(Trace[i], o))
           => PrintT(<<"STUCK", i, {[r |-> o.res, p |-> o.st.pend, q |-> o.st.queue, l |-> o.st.loc, pn |-> o.st.pn] : o \in Outcomes(Trace[i])}>>)

\* on rejection: the matched prefix
Accepted ==
  IF TLCGet("stats").diameter - 1 = Len(Trace) THEN TRUE
  ELSE PrintT(<<"REJECTED", TLCGet("stats").diameter - 1, Len(Trace)>>) /\ FALSE
======================================================================================
