--------------------------------- MODULE MC_TxPool ---------------------------------
(***************************************************************************)
(* Exhaustive model of the transaction pool: every interleaving of up to    *)
(* Depth operations chosen from                                             *)
(*   "ar"  AddRemotesSync([tx])      "al"  AddLocal(tx)                     *)
(*   "rs"  chain head event: the state nonce / balance of one account and   *)
(*         the block gas limit change arbitrarily, then the reset runs      *)
(*   "ab"  AddRemotesSync([tx1, tx2]) (a batch, as the reactor submits)     *)
(*   "bb"/"bl"  AddRemotesSync(ts) / AddLocals(ts) for a batch ts drawn     *)
(*         from the fixed list Batches (3-4 elements: runs of pre-filtered  *)
(*         elements -- pooled duplicates, bad signatures -- before and      *)
(*         between new ones); the result is the per-slot outcome vector     *)
(*   "mn"  head event whose block contains the first k transactions the     *)
(*         pool offers for an account; "ro" that block is abandoned for an  *)
(*         empty sibling (reorganisation: the pool reinjects them)          *)
(*   "gp"  SetGasPrice               "ex"  lifetime expiry of a set of      *)
(*         silent non-local accounts "rst" Stop + NewTxPool (journal load)  *)
(*   "xr"/"xl"  the critical section of AddRemotes / AddLocals alone        *)
(*   "pr"  the promotion run the reorg loop owes for the dirty accounts     *)
(* ("xr"/"xl"/"pr" split an asynchronous submission at the point where the  *)
(* code releases the pool lock, so that further submissions, price changes  *)
(* and head events interleave with the pending promotion; a head event      *)
(* that arrives first absorbs it, as scheduleReorgLoop does.)               *)
(*                                                                         *)
(* `hist` is the path (one compact tuple per operation: label, arguments,   *)
(* result class, evicted set, number of alternatives, pooled set if there   *)
(* were alternatives); `alts` is the set of ALL outcomes the specification  *)
(* allows for the last operation.  Both are hidden by the VIEW.  Every      *)
(* transition is printed by the action constraint Dump and replayed into    *)
(* the real pool: the result and observation of the real pool after the     *)
(* last operation must be one element of `alts`.                            *)
(***************************************************************************)
EXTENDS TxPool, Json

CONSTANTS
  MaxNonce, Prices, Kinds,   \* submissions: Accts x 0..MaxNonce x Prices x Kinds  (+ ExtraTx)
  ExtraTx,                   \* further individual transactions offered as submissions
  Batches,                   \* the batch shapes of "bb"/"bl": a set of sequences of transactions
  ResetAccts, ResetNonces, Bals, GasLimits,  \* accounts a head event may touch, values it may install
  InitBal, InitGas,          \* chain at start (all nonces 0)
  Floors,                    \* arguments of SetGasPrice
  Acts,                      \* operation labels enabled in this configuration
  TrackGhosts,               \* see variable `ghost`
  MaxMine,                   \* a mined block takes at most this many transactions of one account
  Depth                      \* bound on the number of operations

VARIABLES s, hist, alts,
          blk,    \* environment: the pool transactions the current head block contains (set by "mn")
          ghost   \* (only if TrackGhosts) the transactions that have been pooled and have left.  The operators
                  \* do not read it; being part of the VIEW it makes TLC keep apart, and so replay, histories in
                  \* which a transaction leaves the pool and is submitted again -- state the real pool keeps
                  \* (stale entries of its price heap) and the specification abstracts from (IdealHeap)
vars == <<s, hist, alts, blk, ghost>>

\* blacklisted accounts submit only what ExtraTx lists (every such submission is rejected statelessly)
TxU == {<<a, n, p, k>> : a \in Accts \ BlackAccts, n \in 0..MaxNonce, p \in Prices, k \in Kinds} \cup ExtraTx

Init == /\ s = InitState([a \in Accts |-> 0], [a \in Accts |-> InitBal], InitGas)
        /\ hist = <<>>
        /\ alts = {}
        /\ blk = <<>>
        /\ ghost = {}

(* what the driver can see of a pool *)
Obs(t) == [p |-> t.pend, q |-> t.queue, n |-> t.pn, l |-> t.loc, f |-> t.floor, ll |-> t.allL,
           d |-> t.dirty, j |-> t.jr]

Step0(outs, label, nb) ==
  \E o \in outs :
    /\ blk' = nb
    /\ ghost' = IF TrackGhosts THEN ghost \cup (All(s) \ All(o.st)) ELSE {}
    /\ s' = o.st
    /\ hist' = Append(hist, label \o <<o.res, o.ev, Cardinality(outs),
                                       IF Cardinality(outs) > 1 THEN All(o.st) ELSE {}>>)
    /\ alts' = {[r |-> x.res, o |-> Obs(x.st)] : x \in outs}

Step(outs, label) == Step0(outs, label, blk)           \* operations that are not head events
NewHead(outs, label) == Step0(outs, label, <<>>)          \* a new head on top of the current one

\* the first k offered transactions of account a, in nonce order
RECURSIVE FirstK(_, _, _)
FirstK(a, n, k) == IF k = 0 THEN <<>> ELSE <<The(AtN(s.pend, a, n))>> \o FirstK(a, n + 1, k - 1)

Quiet == s.dirty = {}     \* no promotion run outstanding

Next ==
  /\ Len(hist) < Depth
  /\ \/ "ar" \in Acts /\ Quiet /\ \E t \in TxU : Step(SyncAdd(s, t, FALSE), <<"ar">> \o t)
     \/ "al" \in Acts /\ Quiet /\ \E t \in TxU : Step(SyncAdd(s, t, TRUE), <<"al">> \o t)
     \/ "ab" \in Acts /\ Quiet /\ \E t1, t2 \in TxU : t1 # t2 /\ Step(SyncBatch(s, <<t1, t2>>), <<"ab", t1, t2>>)
     \/ "bb" \in Acts /\ Quiet /\ \E ts \in Batches : Step(BatchAdd(s, ts, FALSE), <<"bb", ts>>)
     \/ "bl" \in Acts /\ Quiet /\ \E ts \in Batches : Step(BatchAdd(s, ts, ~NoLocals), <<"bl", ts>>)
     \/ "xr" \in Acts /\ \E t \in TxU : PreCheck(s, t) = "ok" /\ Step(AddLocked(s, t, FALSE), <<"xr">> \o t)
     \/ "xl" \in Acts /\ \E t \in TxU : PreCheck(s, t) = "ok" /\ Step(AddLocked(s, t, TRUE), <<"xl">> \o t)
     \/ "pr" \in Acts /\ ~Quiet /\ Step(Promote(s), <<"pr">>)
     \/ "rs" \in Acts /\ \E a \in ResetAccts, n \in ResetNonces, b \in Bals, g \in GasLimits :
            NewHead(Reset(s, [s.cn EXCEPT ![a] = n], [s.cb EXCEPT ![a] = b], g), <<"rs", a, n, b, g>>)
     \* the next block contains the first k transactions the pool offers for account a ...
     \/ "mn" \in Acts /\ Quiet /\ \E a \in Accts, k \in 1..MaxMine : k <= PLen(s, a) /\ GapFreeAcct(s, a) /\
            Step0(Reset(s, [s.cn EXCEPT ![a] = @ + k], s.cb, s.cg), <<"mn", a, k>>, FirstK(a, s.cn[a], k))
     \* ... and is then abandoned for an empty sibling: the chain nonce goes back, the pool reinjects
     \/ "ro" \in Acts /\ Quiet /\ blk # <<>> /\
            NewHead(Reorg(s, [s.cn EXCEPT ![TA(blk[1])] = @ - Len(blk)], s.cb, s.cg, blk), <<"ro">>)
     \/ "gp" \in Acts /\ \E f \in Floors : f # s.floor /\ Step(SetGasPrice(s, f), <<"gp", f>>)
     \/ "ex" \in Acts /\ \E S \in SUBSET {a \in Accts : a \notin s.loc /\ Of(s.queue, a) # {}} :
            S # {} /\ Step(Expire(s, S), <<"ex", S>>)
     \/ "rst" \in Acts /\ Quiet /\ Step(Restart(s), <<"rst">>)

Spec == Init /\ [][Next]_vars
View == <<s, blk, ghost>>

(***************************** what is checked *****************************)
(* state invariants: the clauses of the statement that hold in every state  *)
\* (PendingGapFree: AS IMPLEMENTED a reorganisation can leave a hole, so it is checked as "no operation other
\* than "ro" opens a hole" in StepInv, and as a state invariant of the repaired model in StrictInv)
Inv == /\ (("ro" \notin Acts \/ FixGapAfterReorg) => PendingGapFree(s) /\ NonceTracksPending(s) /\ NonceIsNextPending(s))
       /\ EachAffordable(s) /\ FitsBlockGas(s)
       /\ PendingQueueDisjoint(s) /\ IndexedExactlyOnce(s) /\ MinedGone(s)
       /\ QueuedValid(s) /\ LocalFlagged(s)
       /\ TotalSlotsRespected(s) /\ PendingLimitRespected(s)
       /\ RejectedIsNoOp(s, TxU)

(* the strict reading of the statement; holds with the Fix* switches on     *)
StrictInv == /\ PendingGapFree(s)
             /\ Quiet => GlobalQueueRespected(s) /\ AccountQueueRespected(s)
             /\ RejectedIsNoOpStrict(s, TxU)

(* transition invariants (evaluated on every transition, whether or not the *)
(* successor is new)                                                        *)
Last == hist'[Len(hist')]
ReorgOps == {"ar", "al", "ab", "bb", "bl", "pr", "rs", "mn", "ro", "rst"}
StepInv ==
  \* no operation opens a hole in what an account is offered, or lets Nonce(a) drift from it -- except, AS
  \* IMPLEMENTED, a reorganisation (after which a wrong Nonce(a) can open the hole one submission later)
  /\ (Last[1] # "ro" \/ FixGapAfterReorg) => \A a \in Accts : SoundAcct(s, a) => SoundAcct(s', a)
  /\ Last[1] # "rst" => ReplacementNeedsBump(s, s', Last[Len(Last) - 2]) /\ LocalsExempt(s, s')
  \* the global queue limit right after every reorg (the pre-checks of "ar"/"al" return before one)
  /\ (Last[1] \in ReorgOps /\ ~(Last[1] \in {"ar", "al"} /\ Last[6] \in {"known", "sender", "blacklisted"})
                           /\ ~(Last[1] = "ab" /\ \A i \in 1..2 : Last[4][i] \in {"known", "sender", "blacklisted"})
                           /\ ~(Last[1] \in {"bb", "bl"} /\ \A i \in 1..Len(Last[3]) : Last[3][i] \in PreFiltered))
        => GlobalQueueRespected(s')
  \* the per-account queue limit: an accepted submission never makes the sender's queue exceed it, nor
  \* grow while above it (an excess can only be left over from a demotion, see FixCapAfterDemote)
  /\ (Last[1] \in {"ar", "al"} /\ Last[6] = "ok" /\ Last[2] \notin s'.loc)
        => \/ Cardinality(Of(s'.queue, Last[2])) <= AccountQueue
           \/ Cardinality(Of(s'.queue, Last[2])) <= Cardinality(Of(s.queue, Last[2]))
  \* a submission accepted through AddLocal makes the sender local (AS IMPLEMENTED: not when
  \* it replaced a pending transaction)
  /\ (Last[1] \in {"al", "xl"} /\ Last[6] = "ok" /\ ~NoLocals)
        => (Last[2] \in s'.loc \/ (~FixMarkOnReplace /\ AtN(s.pend, Last[2], Last[3]) # {}))
  \* the journal gives the journaled transactions of local accounts back after a restart (or, for the
  \* same nonce, another journaled one that had been dropped and is payable again)
  /\ (Last[1] = "rst" /\ JournalOn)
        => \A t \in s.pend \cup s.queue : (\E i \in 1..Len(s.jr) : s.jr[i] = t)
              => AtN(s'.pend \cup s'.queue, TA(t), TN(t)) # {}
  \* the outcome vector of a batch is per slot: a slot answered "ok" names a transaction that was new and is
  \* pooled afterwards unless a later element or the promotion run displaced it; a pre-filtered slot names one
  \* that was pooled before ("known") or can never be pooled
  /\ Last[1] \in {"bb", "bl"} =>
        \A i \in 1..Len(Last[2]) :
           /\ Last[3][i] = "known" => (Last[2][i] \in All(s) \/ \E j \in 1..(i - 1) : Last[2][j] = Last[2][i])
           /\ Last[3][i] = "ok" => Last[2][i] \notin All(s)
           /\ Last[3][i] \in {"sender", "funds", "noncelow", "gaslimit", "intrinsic", "oversized", "blacklisted"}
                 => Last[2][i] \notin All(s')
StepProp == [][StepInv]_vars

Dump == PrintT(ToJson([h |-> hist', o |-> alts']))
====================================================================================
