---------------------------------- MODULE TxPool ----------------------------------
(***************************************************************************)
(* Reference model of the transaction pool of go-kardia                     *)
(* (mainchain/tx_pool: tx_pool.go, tx_list.go, tx_sorted_map.go,            *)
(* tx_priced_list.go, tx_noncer.go, tx_journal.go).  Property C17.          *)
(*                                                                         *)
(* Functional style: the pool is ONE record `s`; every public call /        *)
(* critical section of the code is an operator that maps a state (and the  *)
(* call's arguments) to a SET of outcomes [st, res, ev]:                    *)
(*   st   the state after the call                                          *)
(*   res  the result class of the call (error class, "ok")                  *)
(*   ev   the transactions evicted by the pool-full branch of `add`         *)
(* The set has more than one element exactly where the code's choice        *)
(* depends on something the model deliberately does not track:              *)
(*   - heap order among equally priced remote transactions with equal      *)
(*     nonce (txPricedList.Discard),                                        *)
(*   - prque order among accounts with equally long pending lists           *)
(*     (truncatePending),                                                   *)
(*   - the heartbeat order of accounts (truncateQueue: wall-clock times).   *)
(* The same operators serve the exhaustive model (MC_TxPool), the per-     *)
(* transition dump replayed into the real pool, and the trace validator     *)
(* (TxPoolTrace).                                                           *)
(*                                                                         *)
(* A transaction is the tuple <<a, n, p, k>>: sender, nonce, gas price and  *)
(* a KIND that fixes the remaining fields (gas limit, value, payload size,  *)
(* how it is signed).  Two transactions are the same (same hash) iff the    *)
(* tuples are equal.                                                        *)
(*                                                                         *)
(* Abstract state (field -> code):                                          *)
(*   pend, queue  sets of transactions = pool.pending / pool.queue (all     *)
(*                accounts together; at most one per (sender, nonce))       *)
(*   allR, allL   pool.all.remotes / pool.all.locals (the lookup, with the  *)
(*                flag that decides membership in the priced heap)          *)
(*   loc          pool.locals                                               *)
(*   floor        pool.gasPrice                                             *)
(*   pn[a]        pool.pendingNonces.get(a) = what Nonce(a) returns.  The   *)
(*                map is TRANSCRIBED, not derived from pend: set(n+1) in    *)
(*                promoteTx (PromoteSeq), setIfLower(n) in removeTx and     *)
(*                in both loops of truncatePending (DropHighest), a fresh   *)
(*                cache falling back to the state nonce in reset, setAll    *)
(*                (highest pending + 1, absent accounts fall back) at the   *)
(*                end of a resetting run.  NonceIsNextPending relates it    *)
(*                to pend; the driver compares it with pool.Nonce(addr)     *)
(*                after every replayed transition.                          *)
(*   cn, cb, cg   pool.currentState nonce / balance, pool.currentMaxGas     *)
(*                (the chain view taken at the last reset)                  *)
(*   csr          pool.changesSinceReorg                                    *)
(*   dirty        accounts whose promotion has been requested but has not   *)
(*                run yet, plus the marker 0 while a run of the reorg loop  *)
(*                is owed at all (addTxs requests one even for an empty     *)
(*                account set); only non-empty between the two halves of    *)
(*                an asynchronous submission                                *)
(*   jr           the journal file: sequence of transactions                *)
(*                                                                         *)
(* Deliberate abstractions (named):                                         *)
(*   IdealHeap     the priced heap is modelled as the set allR: stale       *)
(*                 entries and the stale counter / reheap schedule are not  *)
(*                 tracked (they are skipped lazily by the code).           *)
(*   NoBeats       pool.beats (wall-clock heartbeats) is not tracked: the   *)
(*                 environment decides which non-local accounts are older   *)
(*                 than Lifetime (Expire) and truncateQueue may pick        *)
(*                 accounts in any order.                                   *)
(*   NoEvents      the NewTxsEvent feed and the metrics are not modelled.   *)
(*                                                                         *)
(* Behaviour of the code that the statement of C17 does not allow is        *)
(* transcribed AS IMPLEMENTED and guarded by a switch (all FALSE = the      *)
(* code); with the switch TRUE the operator shows the behaviour the         *)
(* statement asks for, and MC_TxPool checks that the strict invariants      *)
(* hold then.  The driver reports each of them on the real pool under the   *)
(* signature given here:                                                    *)
(*   FixCapAfterDemote    demoteUnexecutables runs AFTER the per-account    *)
(*                        queue cap of promoteExecutables: demoted          *)
(*                        transactions can exceed AccountQueue until the    *)
(*                        account is promoted again                         *)
(*                        [pool:statement:limit-account-queue:after-rs]     *)
(*   FixReorgAfterRemove  SetGasPrice (removeTx) demotes the followers of   *)
(*                        a removed pending transaction and no reorg        *)
(*                        follows: AccountQueue / GlobalQueue exceeded      *)
(*                        until the next one                                *)
(*                        [pool:statement:limit-*-queue:after-gp]           *)
(*   FixReplaceFirst      add() evicts for room BEFORE it tests the price   *)
(*                        bump: a submission rejected as "replacement       *)
(*                        underpriced" has already evicted somebody         *)
(*                        [pool:statement:rejected-changed-pool:replace],   *)
(*                        and when the victim is the sender's own           *)
(*                        same-nonce transaction the bump is not required   *)
(*                        [pool:statement:replacement-without-bump]         *)
(*   FixMarkOnReplace     AddLocal that replaces a PENDING transaction      *)
(*                        returns before the sender is marked local         *)
(*                        [pool:statement:addlocal-sender-not-local]        *)
(*   FixGapAfterReorg     demoteUnexecutables only looks for a gap IN FRONT *)
(*                        of the pending list: after a reorganisation that  *)
(*                        lowers the state nonce, when not every abandoned  *)
(*                        transaction gets back in (pool full), the         *)
(*                        reinjected lower nonces are promoted in front of  *)
(*                        the old pending ones and a hole in the middle     *)
(*                        stays [pool:statement:gap-free:after-ro]          *)
(* One more deviation is not in the operators at all, because it stems      *)
(* from state the model abstracts from (IdealHeap): a transaction that      *)
(* left the pool without being popped from the price heap and is submitted  *)
(* again sits in the heap twice; Discard counts both entries, frees one     *)
(* slot less than needed and the lookup exceeds GlobalSlots+GlobalQueue     *)
(* [pool:content:*:resurrected-heap-entry,                                  *)
(*  pool:statement:limit-total:resurrected-heap-entry].                     *)
(***************************************************************************)
EXTENDS Integers, Sequences, FiniteSets, TLC

CONSTANTS
  Accts,          \* account ids (integers)
  AccountSlots, GlobalSlots, AccountQueue, GlobalQueue,  \* TxPoolConfig limits
  PriceLimit,     \* TxPoolConfig.PriceLimit: initial pool.gasPrice
  PriceBump,      \* TxPoolConfig.PriceBump (percent)
  InitLocals,     \* TxPoolConfig.Locals
  NoLocals,       \* TxPoolConfig.NoLocals
  UseJournal,     \* TxPoolConfig.Journal # ""
  BlackAccts,     \* accounts on the global Blacklisted map
  FixCapAfterDemote, FixReorgAfterRemove, FixReplaceFirst, FixMarkOnReplace, FixGapAfterReorg

(******************************* transactions *******************************)
TA(t) == t[1]    \* sender
TN(t) == t[2]    \* nonce
TP(t) == t[3]    \* gas price
TK(t) == t[4]    \* kind

(* Kinds.  Valid shapes:                                                     *)
(*   "s" plain transfer, gas 100000, value 0                                 *)
(*   "v" transfer with value 1000000 (cost = value + gas*price)              *)
(*   "b" gas 200000 (fits only the larger block gas limit)                   *)
(*   "w" 40 KiB payload: occupies 2 slots, gas 400000                        *)
(* Invalid shapes (rejected statelessly, or by one stateful test):           *)
(*   "g" gas 20000 < intrinsic gas        "h" payload above txMaxSize        *)
(*   "x" signature does not verify        "c" signed for another chain id    *)
GasOf(k)   == CASE k = "b" -> 200000 [] k = "w" -> 400000 [] k = "g" -> 20000 [] OTHER -> 100000
ValOf(k)   == IF k = "v" THEN 1000000 ELSE 0
SlotsOf(k) == IF k = "w" THEN 2 ELSE 1
Intrinsic(k) == IF k = "w" THEN 29000 + 40960 * 4 ELSE 29000   \* legacy TxGas + 4 per zero byte
Cost(t)    == ValOf(TK(t)) + GasOf(TK(t)) * TP(t)               \* tx.Cost()

Of(S, a)     == {t \in S : TA(t) = a}
AtN(S, a, n) == {t \in S : TA(t) = a /\ TN(t) = n}
The(S)       == CHOOSE x \in S : TRUE
MinN(S)      == CHOOSE n \in {TN(t) : t \in S} : \A t \in S : n <= TN(t)
MaxN(S)      == CHOOSE n \in {TN(t) : t \in S} : \A t \in S : TN(t) <= n
All(s)       == s.allR \cup s.allL

RECURSIVE SlotSum(_)
SlotSum(S) == IF S = {} THEN 0 ELSE LET t == The(S) IN SlotsOf(TK(t)) + SlotSum(S \ {t})

(* txList.Add: a transaction replaces the one with the same nonce only if it is          *)
(* strictly dearer AND reaches old*(100+PriceBump)/100 (integer division, as in the code) *)
Bumps(new, old) == TP(new) > TP(old) /\ TP(new) >= (TP(old) * (100 + PriceBump)) \div 100

(* L is pool.pending or pool.queue (all accounts); result: accepted?, new list, replaced *)
ListAdd(L, t) ==
  LET o == AtN(L, TA(t), TN(t)) IN
  IF o # {} /\ ~Bumps(t, The(o)) THEN [ok |-> FALSE, l |-> L, old |-> {}]
  ELSE [ok |-> TRUE, l |-> (L \ o) \cup {t}, old |-> o]

Unindex(s, S) == [s EXCEPT !.allR = @ \ S, !.allL = @ \ S]
Index(s, t, local) == IF local THEN [s EXCEPT !.allL = @ \cup {t}] ELSE [s EXCEPT !.allR = @ \cup {t}]

(******************************** the state ********************************)
InitState(cn, cb, cg) ==
  [pend |-> {}, queue |-> {}, allR |-> {}, allL |-> {}, loc |-> InitLocals, floor |-> PriceLimit,
   pn |-> cn, cn |-> cn, cb |-> cb, cg |-> cg, csr |-> 0, dirty |-> {}, jr |-> <<>>]

JournalOn == UseJournal /\ ~NoLocals
\* journalTx: only transactions of accounts in pool.locals reach the file
Journal(s, t) == IF JournalOn /\ TA(t) \in s.loc THEN [s EXCEPT !.jr = Append(@, t)] ELSE s

(* enqueueTx(hash, tx, local, addAll)                                                     *)
Enqueue(s, t, local, addAll) ==
  LET r == ListAdd(s.queue, t) IN
  IF ~r.ok THEN [ok |-> FALSE, st |-> s, replaced |-> FALSE]
  ELSE LET s1 == Unindex([s EXCEPT !.queue = r.l], r.old)
       IN [ok |-> TRUE, st |-> IF addAll THEN Index(s1, t, local) ELSE s1, replaced |-> r.old # {}]

(* the "internal shuffle" of demotions: enqueueTx(hash, tx, false, false) for every tx of *)
(* S; the code ignores the result, so a transaction that loses against a queued one with  *)
(* the same nonce would stay in the lookup without being in a list (IndexedExactlyOnce    *)
(* shows this is unreachable).  Distinct nonces commute.                                  *)
RECURSIVE EnqueueMany(_, _)
EnqueueMany(s, S) == IF S = {} THEN s
                     ELSE LET t == The(S) IN EnqueueMany(Enqueue(s, t, FALSE, FALSE).st, S \ {t})

(* removeTx(hash, outofbound).  Note that the pending list is searched BY NONCE.          *)
RemoveTx(s, t) ==
  IF t \notin All(s) THEN s
  ELSE LET s1  == Unindex(s, {t})
           a   == TA(t)
           inP == AtN(s1.pend, a, TN(t))
       IN IF inP # {}
          THEN LET inv == {x \in Of(s1.pend, a) : TN(x) > TN(t)}      \* strict list: everything above goes back
                   s2  == EnqueueMany([s1 EXCEPT !.pend = (@ \ inP) \ inv], inv)
               IN [s2 EXCEPT !.pn[a] = IF @ > TN(t) THEN TN(t) ELSE @]  \* pendingNonces.setIfLower
          ELSE [s1 EXCEPT !.queue = @ \ AtN(@, a, TN(t))]

(* several removals; the result does not depend on the order (checked by replay: the     *)
(* code removes in heap-pop order)                                                        *)
RECURSIVE RemoveSet(_, _)
RemoveSet(s, S) == IF S = {} THEN s ELSE LET t == The(S) IN RemoveSet(RemoveTx(s, t), S \ {t})

(******************************* submissions *******************************)
(* validateTx, in the order of the code                                                   *)
Validate(s, t, isLocal) ==
  LET k == TK(t)  a == TA(t) IN
  IF k = "h" THEN "oversized"
  ELSE IF GasOf(k) > s.cg THEN "gaslimit"
  ELSE IF k \in {"x", "c"} THEN "sender"
  ELSE IF ~isLocal /\ TP(t) < s.floor THEN "underpriced"
  ELSE IF TN(t) < s.cn[a] THEN "noncelow"
  ELSE IF Cost(t) > s.cb[a] THEN "funds"
  ELSE IF GasOf(k) < Intrinsic(k) THEN "intrinsic"
  ELSE "ok"

(* txPricedList: cheapest first, among equal prices the higher nonce first                *)
Worse(x, y) == TP(x) < TP(y) \/ (TP(x) = TP(y) /\ TN(x) > TN(y))
Heads(R)    == {m \in R : \A x \in R : ~Worse(x, m)}
Underpriced(s, t) == s.allR # {} /\ \E m \in s.allR : TP(m) >= TP(t) /\ \A x \in s.allR : TP(m) <= TP(x)

(* txPricedList.Discard(slots, force): pops until enough slots are free or the heap is    *)
(* empty; every tie is a choice.  Result: set of [drop, ok]                               *)
RECURSIVE Disc(_, _, _)
Disc(R, need, acc) ==
  IF need <= 0 \/ R = {} THEN {[drop |-> acc, ok |-> need <= 0]}
  ELSE UNION {Disc(R \ {m}, need - SlotsOf(TK(m)), acc \cup {m}) : m \in Heads(R)}

Out(st, res, ev, dirt) == [st |-> st, res |-> res, ev |-> ev, dirt |-> dirt]

(* the tail of add(): replace a pending transaction, or enqueue                           *)
Insert(s, t, local, isLocal, ev) ==
  LET a == TA(t)
      markLocal(x) == LET L == x.loc \cup {a}       \* locals.add + all.RemoteToLocals(locals)
                      IN [x EXCEPT !.loc = L, !.allL = @ \cup {y \in x.allR : TA(y) \in L},
                                   !.allR = {y \in @ : TA(y) \notin L}]
  IN
  IF AtN(s.pend, a, TN(t)) # {}
  THEN LET r == ListAdd(s.pend, t) IN
       IF ~r.ok THEN Out(s, "replace", ev, FALSE)
       ELSE LET s1 == Index(Unindex([s EXCEPT !.pend = r.l], r.old), t, isLocal)
                \* AS IMPLEMENTED the account is not marked local on this path
                s2 == IF FixMarkOnReplace /\ local /\ a \notin s1.loc THEN markLocal(s1) ELSE s1
            IN Out(Journal(s2, t), "ok", ev, FALSE)       \* replaced: account not dirty
  ELSE LET e == Enqueue(s, t, isLocal, TRUE) IN
       IF ~e.ok THEN Out(s, "replace", ev, FALSE)
       ELSE LET s2 == IF local /\ a \notin e.st.loc THEN markLocal(e.st) ELSE e.st
            IN Out(Journal(s2, t), "ok", ev, ~e.replaced)

WouldReplaceFail(s, t) ==
  LET o == AtN(s.pend, TA(t), TN(t)) \cup AtN(s.queue, TA(t), TN(t))
  IN o # {} /\ ~Bumps(t, The(o))

(* TxPool.add(tx, local): the critical section of a submission.                           *)
(* Set of outcomes [st, res, ev, dirt]; dirt = the sender needs a promotion run.          *)
AddTx(s, t, local) ==
  IF t \in All(s) THEN {Out(s, "known", {}, FALSE)}
  ELSE
  LET isLocal == local \/ TA(t) \in s.loc
      v       == Validate(s, t, isLocal)
      cap     == GlobalSlots + GlobalQueue
  IN
  IF v # "ok" THEN {Out(s, v, {}, FALSE)}
  ELSE IF FixReplaceFirst /\ WouldReplaceFail(s, t) THEN {Out(s, "replace", {}, FALSE)}
  ELSE IF SlotSum(All(s)) + SlotsOf(TK(t)) <= cap THEN {Insert(s, t, local, isLocal, {})}
  ELSE \* the pool is full
    IF ~isLocal /\ Underpriced(s, t) THEN {Out(s, "underpriced", {}, FALSE)}
    ELSE IF s.csr > GlobalSlots \div 4 THEN {Out(s, "overflow", {}, FALSE)}
    ELSE { IF ~isLocal /\ ~d.ok THEN Out(s, "overflow", {}, FALSE)
           \* AS IMPLEMENTED the victims are removed BEFORE the replacement test of Insert, so a
           \* submission rejected with "replace" has already evicted them (ev # {})
           ELSE Insert(RemoveSet([s EXCEPT !.csr = @ + Cardinality(d.drop)], d.drop), t, local, isLocal, d.drop)
         : d \in Disc(s.allR, SlotSum(All(s)) - cap + SlotsOf(TK(t)), {}) }

(* addTxs tests these before it takes the pool lock (no reorg is requested if the whole   *)
(* batch fails here)                                                                      *)
PreCheck(s, t) == IF t \in All(s) THEN "known"
                  ELSE IF TK(t) \in {"x", "c"} THEN "sender"
                  ELSE IF TA(t) \in BlackAccts THEN "blacklisted"
                  ELSE "ok"

(*************************** the reorganisation ****************************)
(* promoteTx for the transactions of S in nonce order                                     *)
RECURSIVE PromoteSeq(_, _)
PromoteSeq(s, S) ==
  IF S = {} THEN s
  ELSE LET t == CHOOSE x \in S : TN(x) = MinN(S)
           r == ListAdd(s.pend, t)
           s1 == IF ~r.ok THEN Unindex(s, {t})                  \* an older pending one is better
                 ELSE [Unindex([s EXCEPT !.pend = r.l], r.old) EXCEPT !.pn[TA(t)] = TN(t) + 1]
       IN PromoteSeq(s1, S \ {t})

(* the body of promoteExecutables for one account                                         *)
PromoteAcct(s, a) ==
  LET q == Of(s.queue, a) IN
  IF q = {} THEN s
  ELSE
  LET fwd   == {t \in q : TN(t) < s.cn[a]}                                  \* list.Forward(state nonce)
      q1    == q \ fwd
      drops == {t \in q1 : GasOf(TK(t)) > s.cg \/ Cost(t) > s.cb[a]}       \* list.Filter(balance, maxGas)
      q2    == q1 \ drops
      \* list.Ready(pendingNonce): the consecutive run that starts at the LOWEST queued nonce,
      \* provided that nonce is not above the pending nonce
      ready == IF q2 = {} \/ MinN(q2) > s.pn[a] THEN {}
               ELSE {t \in q2 : \A m \in MinN(q2)..TN(t) : AtN(q2, a, m) # {}}
      s1    == Unindex([s EXCEPT !.queue = (@ \ q) \cup (q2 \ ready)], fwd \cup drops)
      s2    == PromoteSeq(s1, ready)
      q3    == Of(s2.queue, a)
      \* list.Cap(AccountQueue) for accounts that are not local: the highest nonces go
      caps  == IF a \in s2.loc THEN {}
               ELSE {t \in q3 : Cardinality({u \in q3 : TN(u) < TN(t)}) >= AccountQueue}
  IN Unindex([s2 EXCEPT !.queue = @ \ caps], caps)

RECURSIVE PromoteAll(_, _)
PromoteAll(s, S) == IF S = {} THEN s ELSE LET a == The(S) IN PromoteAll(PromoteAcct(s, a), S \ {a})

QueueCap(s, a) == LET q == Of(s.queue, a)
                      caps == {t \in q : Cardinality({u \in q : TN(u) < TN(t)}) >= AccountQueue}
                  IN IF a \in s.loc THEN s ELSE Unindex([s EXCEPT !.queue = @ \ caps], caps)

(* the body of demoteUnexecutables for one account                                        *)
DemoteAcct(s, a) ==
  LET p     == Of(s.pend, a)
      olds  == {t \in p : TN(t) < s.cn[a]}
      p1    == p \ olds
      drops == {t \in p1 : GasOf(TK(t)) > s.cg \/ Cost(t) > s.cb[a]}
      inval == IF drops = {} THEN {} ELSE {t \in p1 \ drops : TN(t) > MinN(drops)}   \* strict list
      p2    == (p1 \ drops) \ inval
      s1    == EnqueueMany(Unindex([s EXCEPT !.pend = (@ \ p) \cup p2], olds \cup drops), inval)
      gapped == p2 # {} /\ AtN(p2, a, s.cn[a]) = {}
      s2    == IF gapped THEN EnqueueMany([s1 EXCEPT !.pend = @ \ p2], p2) ELSE s1
      \* AS IMPLEMENTED only a gap in front is looked for; repaired: whatever lies above a hole goes back too
      hole  == {t \in p2 : \E m \in s.cn[a]..TN(t) : AtN(p2, a, m) = {}}
      s3    == IF FixGapAfterReorg /\ ~gapped THEN EnqueueMany([s2 EXCEPT !.pend = @ \ hole], hole) ELSE s2
  IN IF FixCapAfterDemote THEN QueueCap(s3, a) ELSE s3

RECURSIVE DemoteAll(_, _)
DemoteAll(s, S) == IF S = {} THEN s ELSE LET a == The(S) IN DemoteAll(DemoteAcct(s, a), S \ {a})

(* truncatePending *)
PLen(s, a) == Cardinality(Of(s.pend, a))
DropHighest(s, a) ==
  LET t == CHOOSE x \in Of(s.pend, a) : TN(x) = MaxN(Of(s.pend, a))
  IN [Unindex([s EXCEPT !.pend = @ \ {t}], {t}) EXCEPT !.pn[a] = IF @ > TN(t) THEN TN(t) ELSE @]
RECURSIVE DropEach(_, _, _, _)
DropEach(s, offs, i, j) == IF i > j THEN s ELSE DropEach(DropHighest(s, offs[i]), offs, i + 1, j)
\* "Iteratively reduce all offenders until below limit or threshold reached"
RECURSIVE Equalize(_, _, _, _)
Equalize(s, offs, cnt, thr) ==
  LET k == Len(offs) IN
  IF cnt > GlobalSlots /\ PLen(s, offs[k - 1]) > thr
  THEN Equalize(DropEach(s, offs, 1, k - 1), offs, cnt - (k - 1), thr)
  ELSE [st |-> s, cnt |-> cnt]
\* "If still above threshold, reduce to limit or min allowance"
RECURSIVE Reduce(_, _, _)
Reduce(s, offs, cnt) ==
  LET k == Len(offs) IN
  IF k > 0 /\ cnt > GlobalSlots /\ PLen(s, offs[k]) > AccountSlots
  THEN Reduce(DropEach(s, offs, 1, k), offs, cnt - k) ELSE s
\* pop the spammers, longest pending list first (ties: any)
RECURSIVE Offend(_, _, _, _)
Offend(s, spam, offs, cnt) ==
  IF cnt <= GlobalSlots \/ spam = {} THEN {Reduce(s, offs, cnt)}
  ELSE UNION { LET offs1 == Append(offs, o)
                   r == IF Len(offs1) > 1 THEN Equalize(s, offs1, cnt, PLen(s, o))
                        ELSE [st |-> s, cnt |-> cnt]
               IN Offend(r.st, spam \ {o}, offs1, r.cnt)
             : o \in {x \in spam : \A y \in spam : PLen(s, y) <= PLen(s, x)} }
TruncPending(s) ==
  IF Cardinality(s.pend) <= GlobalSlots THEN {s}
  ELSE Offend(s, {a \in Accts : a \notin s.loc /\ PLen(s, a) > AccountSlots}, <<>>, Cardinality(s.pend))

(* truncateQueue: accounts are visited latest heartbeat first (NoBeats: any order)        *)
TopN(q, n) == {t \in q : Cardinality({u \in q : TN(u) > TN(t)}) < n}
RECURSIVE TQ(_, _, _)
TQ(s, addrs, drop) ==
  IF drop <= 0 \/ addrs = {} THEN {s}
  ELSE UNION { LET q == Of(s.queue, a)  n == Cardinality(q) IN
               IF n <= drop THEN TQ(RemoveSet(s, q), addrs \ {a}, drop - n)
               ELSE TQ(RemoveSet(s, TopN(q, drop)), addrs \ {a}, 0)
             : a \in addrs }
TruncQueue(s) ==
  IF Cardinality(s.queue) <= GlobalQueue THEN {s}
  ELSE TQ(s, {a \in Accts : a \notin s.loc /\ Of(s.queue, a) # {}}, Cardinality(s.queue) - GlobalQueue)

(* runReorg(done, reset, dirtyAccounts, events).  For a reset the caller has already put  *)
(* the new chain view into cn/cb/cg (pool.reset reads it from the chain).                 *)
ReorgRest(s0, isReset) ==
  LET who == IF isReset THEN {a \in Accts : Of(s0.queue, a) # {}} ELSE s0.dirty \cap Accts
      s1 == PromoteAll(s0, who)
      s2 == IF ~isReset THEN s1
            ELSE LET d == DemoteAll(s1, {a \in Accts : Of(s1.pend, a) # {}})
                 IN [d EXCEPT !.pn = [a \in Accts |-> IF Of(d.pend, a) # {} THEN MaxN(Of(d.pend, a)) + 1
                                                      ELSE d.cn[a]]]     \* pendingNonces.setAll
  IN { [y EXCEPT !.csr = 0, !.dirty = {}] : y \in UNION {TruncQueue(x) : x \in TruncPending(s2)} }
RunReorg(s, isReset) == ReorgRest(IF isReset THEN [s EXCEPT !.pn = s.cn] ELSE s, isReset)   \* newTxNoncer(statedb)

(* pool.reset(oldHead, newHead) when the new head is not a child of the old one: the new   *)
(* chain view and a fresh nonce cache, then the transactions of the abandoned blocks that  *)
(* the new chain lacks (ts, in block order) go back through the critical section of a      *)
(* remote submission (addTxsLocked(reinject, false); results and dirty set are ignored)    *)
RECURSIVE Reinject(_, _, _)
Reinject(S, ts, i) == IF i > Len(ts) THEN S
                      ELSE Reinject(UNION { {o.st : o \in AddTx(x, ts[i], FALSE)} : x \in S }, ts, i + 1)

(***************************** public operations *****************************)
Res(st, res, ev) == [st |-> st, res |-> res, ev |-> ev]

(* the critical section alone (first half of AddRemotes/AddLocals)                        *)
Owed == 0     \* marker in `dirty`: requestPromoteExecutables has been called
AddLocked(s, t, local) ==
  { Res([o.st EXCEPT !.dirty = @ \cup {Owed} \cup (IF o.dirt THEN {TA(t)} ELSE {})], o.res, o.ev)
    : o \in AddTx(s, t, local /\ ~NoLocals) }

(* AddRemotesSync([tx]) / AddLocal(tx): pre-checks, critical section, promotion run       *)
SyncAdd(s, t, local) ==
  LET pc == PreCheck(s, t) IN
  IF pc # "ok" THEN {Res(s, pc, {})}
  ELSE UNION { {Res(x, o.res, o.ev) : x \in RunReorg(o.st, FALSE)} : o \in AddLocked(s, t, local) }

(* AddRemotesSync(ts) / AddLocals(ts) for a batch ts = <<t1, ..., tk>> (addTxs):              *)
(*  1. every element is pre-filtered against the pool as it is BEFORE the batch: "known"     *)
(*     (already pooled), "sender" (bad signature / wrong chain id), "blacklisted"; such a    *)
(*     slot keeps that error and never reaches the critical section;                         *)
(*  2. the survivors go through the critical section (add) left to right, each seeing the    *)
(*     effects of the earlier ones (a repeated element is "known" there);                    *)
(*  3. their results are merged back into the slots the pre-filter left open, in order --    *)
(*     res[i] is the outcome of ts[i], whatever lies between;                                *)
(*  4. ONE promotion run, unless every element was pre-filtered.                             *)
RECURSIVE BatchLocked(_, _, _, _, _)
BatchLocked(S, ts, pcs, i, local) ==     \* S: set of [st, rs (results so far), ev]
  IF i > Len(ts) THEN S
  ELSE BatchLocked(UNION { IF pcs[i] # "ok" THEN {[st |-> x.st, rs |-> Append(x.rs, pcs[i]), ev |-> x.ev]}
                           ELSE {[st |-> o.st, rs |-> Append(x.rs, o.res), ev |-> x.ev \cup o.ev]
                                 : o \in AddLocked(x.st, ts[i], local)} : x \in S }, ts, pcs, i + 1, local)
BatchAdd(s, ts, local) ==
  LET pcs == [i \in 1..Len(ts) |-> PreCheck(s, ts[i])]
      B   == BatchLocked({[st |-> s, rs |-> <<>>, ev |-> {}]}, ts, pcs, 1, local)
  IN IF \A i \in 1..Len(ts) : pcs[i] # "ok" THEN {Res(s, pcs, {})}
     ELSE UNION { {Res(y, x.rs, x.ev) : y \in RunReorg(x.st, FALSE)} : x \in B }
SyncBatch(s, ts) == BatchAdd(s, ts, FALSE)
PreFiltered == {"known", "sender", "blacklisted"}

(* second half of an asynchronous submission: the promotion run for the dirty accounts    *)
Promote(s) == {Res(x, "ok", {}) : x \in RunReorg(s, FALSE)}

(* a chain head event: the chain view changes arbitrarily, then runReorg with a reset     *)
Reset(s, cn, cb, cg) == {Res(x, "ok", {}) : x \in RunReorg([s EXCEPT !.cn = cn, !.cb = cb, !.cg = cg], TRUE)}

(* a chain reorganisation: like Reset, with the transactions ts of the abandoned block reinjected *)
Reorg(s, cn, cb, cg, ts) ==
  {Res(x, "ok", {}) : x \in UNION { ReorgRest(y, TRUE)
                                    : y \in Reinject({[s EXCEPT !.cn = cn, !.cb = cb, !.cg = cg, !.pn = cn]}, ts, 1) }}

AfterRemoval(s) == IF FixReorgAfterRemove THEN RunReorg(s, FALSE) ELSE {s}

(* SetGasPrice: every REMOTE-flagged transaction below the new price goes (txPricedList.Cap) *)
SetGasPrice(s, price) ==
  LET s1 == [s EXCEPT !.floor = price]
      s2 == IF price > s.floor THEN RemoveSet(s1, {t \in s.allR : TP(t) < price}) ELSE s1
  IN {Res(x, "ok", {}) : x \in AfterRemoval(s2)}

(* the eviction tick of loop() when exactly the accounts of S have been silent for longer *)
(* than Lifetime; local accounts are skipped                                              *)
Expire(s, S) ==
  {Res(x, "ok", {}) : x \in AfterRemoval(RemoveSet(s, UNION {Of(s.queue, a) : a \in S \ s.loc}))}

(* Stop + NewTxPool over the same journal file and the same chain: journal.load(AddLocals) *)
(* (one batch, one promotion run), then journal.rotate(pool.local())                      *)
\* the pre-checks of addTxs see the pool as it was BEFORE the batch: empty, so never "known"
PreCheckBatch(x, jr, i) == IF TK(jr[i]) \in {"x", "c"} THEN "sender"
                           ELSE IF TA(jr[i]) \in BlackAccts THEN "blacklisted" ELSE "ok"
RECURSIVE LoadJ(_, _, _)
LoadJ(S, jr, i) ==
  IF i > Len(jr) THEN S
  ELSE LoadJ(UNION { {o.st : o \in IF PreCheckBatch(x, jr, i) # "ok" THEN {Res(x, "pre", {})}
                                   ELSE AddLocked(x, jr[i], TRUE)} : x \in S }, jr, i + 1)

RECURSIVE SeqOf(_)
SeqOf(S) == IF S = {} THEN <<>>
            ELSE LET t == CHOOSE x \in S : \A y \in S : TA(x) < TA(y) \/ (TA(x) = TA(y) /\ TN(x) <= TN(y))
                 IN <<t>> \o SeqOf(S \ {t})
Rotate(s) == IF JournalOn THEN [s EXCEPT !.jr = SeqOf({t \in s.pend \cup s.queue : TA(t) \in s.loc})] ELSE s

Restart(s) ==
  LET s0 == InitState(s.cn, s.cb, s.cg)
      loaded == IF JournalOn /\ Len(s.jr) > 0 THEN UNION {RunReorg(x, FALSE) : x \in LoadJ({s0}, s.jr, 1)}
                ELSE {s0}
  IN {Res(Rotate([x EXCEPT !.jr = s.jr]), "ok", {}) : x \in loaded}

(**************************** the statement of C17 ****************************)
(* "the transactions the pool offers are, per sender, a gap-free nonce sequence starting  *)
(*  at the sender's current state nonce"                                                  *)
GapFreeAcct(s, a) == \A t \in Of(s.pend, a) : TN(t) = s.cn[a] \/ (TN(t) > s.cn[a] /\ AtN(s.pend, a, TN(t) - 1) # {})
PendingGapFree(s) == \A a \in Accts : GapFreeAcct(s, a)
SoundAcct(s, a) == /\ GapFreeAcct(s, a) /\ s.pn[a] = s.cn[a] + Cardinality(Of(s.pend, a))
                   /\ s.pn[a] = IF Of(s.pend, a) # {} THEN MaxN(Of(s.pend, a)) + 1 ELSE s.cn[a]
(* "every transaction is individually affordable (value plus maximum fee)"                *)
EachAffordable(s) == \A t \in s.pend : Cost(t) <= s.cb[TA(t)]
(* "and fits the block gas limit"                                                         *)
FitsBlockGas(s) == \A t \in s.pend : GasOf(TK(t)) <= s.cg
(* "no transaction is both pending and queued" (stronger: no nonce is)                    *)
PendingQueueDisjoint(s) == \A t \in s.pend : AtN(s.queue, TA(t), TN(t)) = {}
(* "every indexed transaction is in exactly one list" (and every listed one is indexed,   *)
(* under one flag, one per nonce)                                                         *)
OnePerNonce(L) == \A t, u \in L : (TA(t) = TA(u) /\ TN(t) = TN(u)) => t = u
IndexedExactlyOnce(s) == /\ All(s) = s.pend \cup s.queue /\ s.allR \cap s.allL = {}
                         /\ OnePerNonce(s.pend) /\ OnePerNonce(s.queue)
(* "already-mined ... transactions are gone" (replaced ones: OnePerNonce)                 *)
MinedGone(s) == \A t \in All(s) \cup s.pend \cup s.queue : TN(t) >= s.cn[TA(t)]
(* Nonce(addr) is the first nonce the pool does not offer                                 *)
(* the virtual nonce is one above the highest offered nonce, or the state nonce when      *)
(* nothing is offered.  (AS IMPLEMENTED it fails after a reorganisation has left a hole,   *)
(* see FixGapAfterReorg: truncating the holed list sets it to the cut nonce.)              *)
NonceIsNextPending(s) == \A a \in Accts : s.pn[a] = IF Of(s.pend, a) # {} THEN MaxN(Of(s.pend, a)) + 1 ELSE s.cn[a]
NonceTracksPending(s) == \A a \in Accts : GapFreeAcct(s, a) => s.pn[a] = s.cn[a] + PLen(s, a)
(* everything queued is payable too (a by-product of promoteExecutables)                  *)
QueuedValid(s) == \A t \in s.queue : Cost(t) <= s.cb[TA(t)] /\ GasOf(TK(t)) <= s.cg
(* a local account has all its transactions under the local flag (never in the price heap) *)
LocalFlagged(s) == \A t \in s.allR : TA(t) \notin s.loc

(* "configured slot limits are respected" -- the forms that hold in EVERY state:          *)
(*   the lookup holds at most GlobalSlots+GlobalQueue slots unless only local ones remain *)
(*   the executable set is within GlobalSlots unless no non-local account is above its    *)
(*   guaranteed AccountSlots (locals exempt)                                              *)
TotalSlotsRespected(s) == SlotSum(All(s)) <= GlobalSlots + GlobalQueue \/ s.allR = {}
PendingLimitRespected(s) == Cardinality(s.pend) <= GlobalSlots
                            \/ \A a \in Accts \ s.loc : PLen(s, a) <= AccountSlots
(* -- and the queue limits (locals exempt); AS IMPLEMENTED they hold only right after the *)
(* truncation of a reorg (GlobalQueue) / the promotion of the account (AccountQueue)      *)
GlobalQueueRespected(s) == Cardinality(s.queue) <= GlobalQueue \/ \A t \in s.queue : TA(t) \in s.loc
AccountQueueRespected(s) == \A a \in Accts \ s.loc : Cardinality(Of(s.queue, a)) <= AccountQueue

(* "invalid submissions are rejected with an error without changing the pool": for every  *)
(* conceivable submission U x {remote, local} in state s.  AS IMPLEMENTED one case fails: *)
(* the pool-full eviction happens before the replacement test.                            *)
RejectedIsNoOp(s, U) == \A t \in U, l \in BOOLEAN : \A o \in AddTx(s, t, l) :
                          o.res # "ok" => (o.st = s \/ (~FixReplaceFirst /\ o.res = "replace" /\ o.ev # {}))
RejectedIsNoOpStrict(s, U) == \A t \in U, l \in BOOLEAN : \A o \in AddTx(s, t, l) : o.res # "ok" => o.st = s

(* "A transaction replaces a same-nonce one only with the required price bump" (s -> s2   *)
(* one step of the pool that is not a restart; ev = evicted by the pool-full branch).     *)
(* AS IMPLEMENTED one case fails: when the pool is full the victim of the eviction can be *)
(* the very transaction the new one competes with, which is then "replaced" at any price  *)
(* above the cheapest remote one (remote) or at any price (local).                        *)
ReplacementNeedsBump(s, s2, ev) ==
  \A t \in s.pend \cup s.queue : \A u \in AtN(s2.pend \cup s2.queue, TA(t), TN(t)) :
     u = t \/ Bumps(u, t) \/ (~FixReplaceFirst /\ t \in ev)
ReplacementNeedsBumpStrict(s, s2) ==
  \A t \in s.pend \cup s.queue : \A u \in AtN(s2.pend \cup s2.queue, TA(t), TN(t)) : u = t \/ Bumps(u, t)

(* "local senders exempt from price eviction" (and from truncation and expiry): a         *)
(* transaction of an account that is local leaves the pool only because it was mined,     *)
(* became unpayable / too large for a block, or was replaced with the price bump          *)
LocalsExempt(s, s2) ==
  \A t \in s.pend \cup s.queue : (TA(t) \in s.loc /\ t \notin s2.pend \cup s2.queue) =>
     \/ TN(t) < s2.cn[TA(t)] \/ Cost(t) > s2.cb[TA(t)] \/ GasOf(TK(t)) > s2.cg
     \/ \E u \in AtN(s2.pend \cup s2.queue, TA(t), TN(t)) : Bumps(u, t)
(* who submits through AddLocal is a local sender afterwards (FixMarkOnReplace)           *)
===================================================================================
