#!/usr/bin/env python3
"""Generates /verif/MANIFEST.json from the table below (one entry per claimed property)."""
import json, os, subprocess
ROOT = os.path.dirname(os.path.dirname(os.path.abspath(__file__)))

CHECKS = {
 "C02": dict(
   engine="voteset", category="model_checking", technique="TLA+ spec (VoteSet.tla) model-checked with TLC; every transition of the reachable graph replayed into the real types.VoteSet/VerifyCommit (model-based testing)",
   text="VoteSet.tla transcribes types/vote_set.go and ValidatorSet.VerifyCommit. TLC checks QuorumSound/CountedOnce/ThresholdsExact/Complete/CommitVerifies exhaustively for five power vectors (totals 3,4,6,7,9); every transition of those graphs and every abstract commit (flag x signature kind x size x height x block id) is executed on the real code at three power scales up to the MaxTotalVotingPower cap and compared on result class and all observers.",
   note="Trusted: TLC, the Go driver's mapping of abstract votes to real signed votes; secp256k1 soundness. Powers beyond the five vectors and sets larger than 5 validators are reached only through scale replay.",
   ref="§4-C02"),
 "C12": dict(
   engine="valset", category="model_checking", technique="TLA+ spec (ValidatorSet.tla, executable transcription of the specified proposer selection and change-set rules) model-checked with TLC; every transition replayed into the real types.ValidatorSet",
   text="ValidatorSet.tla states Increment/UpdateWithChangeSet as specified. TLC checks WellFormed/Window/Centred on all histories (3-5 validators, powers 1..60, depth 3-4, invalid change sets of every class) and FairShare(+-1)/NoStarvation on static-set rotations after arbitrary prefixes; every transition is executed on the real ValidatorSet and compared on order, power, every priority, proposer, error outcome, all-or-nothing and independence of the change-list order. The cap clauses are replayed at the scale where the model's Cap is MaxTotalVotingPower.",
   note="Trusted: TLC, the driver. 32-bit TLC integers: rounding behaviour near the int64/8 cap is only covered for the accept/reject decision, not for priorities.",
   ref="§4-C12"),
}

NOT_YET = {
}

def main():
    props = [json.loads(l) for l in open(os.path.join(ROOT, "properties.jsonl"))]
    hooks_commits = []
    try:
        out = subprocess.run(["git", "-C", "/repo", "log", "--format=%H %s"], capture_output=True, text=True).stdout
        for l in out.splitlines():
            h, s = l.split(" ", 1)
            if s.startswith("verif hooks"):
                hooks_commits.append(h)
    except Exception:
        pass
    checks = []
    na = []
    for p in props:
        pid = p["id"]
        if pid in CHECKS:
            c = CHECKS[pid]
            checks.append(dict(
                property_id=pid,
                quick_cmd="./check %s quick" % pid,
                thorough_cmd="./check %s thorough" % pid,
                evidence_file="/verif/evidence/%s.json" % pid,
                replay_cmd_template="./check %s --replay {path}" % pid,
                engine=c["engine"],
                level_claimed=dict(category=c["category"], text=c["text"], design_ref=c["ref"]),
                level_note=c["note"],
                technique=c["technique"]))
        else:
            na.append(dict(property_id=pid, reason=NOT_YET.get(pid, "check not built yet (construction in progress, see DESIGN.md §7); the TLA+ technique applies and a check is planned")))
    m = dict(
        version=1,
        setup_cmd="./setup.sh",
        hooks=dict(guard="verif",
                   enable="go test -tags verif in the harness module /verif/harness (replace github.com/kardiachain/go-kardia => /repo)",
                   baseline_off_cmd="python3 /verif/lib/baseline.py",
                   source_commits=hooks_commits, add_only=True),
        engines=[dict(name=k, path="specs/%s + harness/%s" % (k, k), serves_properties=[pid for pid, c in CHECKS.items() if c["engine"] == k],
                      kind_free_text="TLA+ specification checked by TLC, bound to the code by replay (MBT) and/or trace validation")
                 for k in sorted({c["engine"] for c in CHECKS.values()})],
        checks=checks,
        notes="One TLA+ module family per subsystem under specs/; ./check <id> quick|thorough runs TLC and the Go harness against /repo's working tree (build tag verif). Exit 0 held / 1 violation / 2 infrastructure error (never a verdict). known_findings.json lists recorded and fixed defects.",
        not_applicable=na)
    with open(os.path.join(ROOT, "MANIFEST.json"), "w") as f:
        json.dump(m, f, indent=1)
    print("MANIFEST.json: %d checks, %d not claimed" % (len(checks), len(na)))

if __name__ == "__main__":
    main()
