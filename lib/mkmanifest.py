#!/usr/bin/env python3
"""Generates /verif/MANIFEST.json from the table below (one entry per claimed property)."""
import json, os, subprocess
ROOT = os.path.dirname(os.path.dirname(os.path.abspath(__file__)))

CHECKS = {
 "C02": dict(
   engine="voteset", category="model_checking", technique="TLA+ spec (VoteSet.tla) model-checked with TLC; every transition of the reachable graph replayed into the real types.VoteSet/VerifyCommit (model-based testing)",
   text="VoteSet.tla transcribes types/vote_set.go and ValidatorSet.VerifyCommit. TLC checks QuorumSound/CountedOnce/ThresholdsExact/Complete/CommitVerifies exhaustively for five power vectors (totals 3,4,6,7,9); every transition of those graphs and every abstract commit (flag x signature kind x size x height x block id) is executed on the real code at three power scales up to the MaxTotalVotingPower cap and compared on result class and all observers.",
   note="Trusted: TLC, the Go driver's mapping of abstract votes to real signed votes; secp256k1 soundness. Powers beyond the five vectors and sets larger than 5 validators are reached only through scale replay.",
   ref="§4-C02"),
 "C12": dict(
   engine="valset", category="model_checking", technique="TLA+ spec (ValidatorSet.tla, executable transcription of the specified proposer selection and change-set rules) model-checked with TLC; every transition replayed into the real types.ValidatorSet",
   text="ValidatorSet.tla states Increment/UpdateWithChangeSet as specified. TLC checks WellFormed/Window/Centred on all histories (3-5 validators, powers 1..60, depth 3-4, invalid change sets of every class) and FairShare(+-1)/NoStarvation on static-set rotations after arbitrary prefixes; every transition is executed on the real ValidatorSet and compared on order, power, every priority, proposer, error outcome, all-or-nothing and independence of the change-list order. The cap clauses are replayed at the scale where the model's Cap is MaxTotalVotingPower.",
   note="Trusted: TLC, the driver. 32-bit TLC integers: rounding behaviour near the int64/8 cap is only covered for the accept/reject decision, not for priorities.",
   ref="§4-C12"),
 "C01": dict(
   engine="node", category="model_checking", technique="TLA+ specs: obligation-level KardiaBFT model-checked exhaustively for Agreement; handler-level KardiaNode bound to the code by trace validation of real multi-node runs (TLC) with Agreement/C03 invariants",
   text="Two layers joined by C03. KardiaBFT.tla: correct validators may do anything the C03 obligations permit against a maximal Byzantine adversary (< 1/3 power); TLC decides Agreement exhaustively (equal and skewed powers, rounds 1..2 quick / 1..3 thorough; reachability companions and the unsigned-vote-type variant must be violated). Real networks (3-7 real ConsensusState nodes with real chain, stores, pools) run seeded adversarial schedules with a Byzantine validator played by the driver (equivocating votes and proposals, invalid blocks): the real block stores must agree and every run is explained event by event by KardiaNodeTrace.tla (TLC), whose invariants include Agreement and the C03 obligations on the real signature logs.",
   note="Trusted: TLC, the driver's projection of the round state, C03 as the join (checked separately), C11 for 'signatures bind the vote type'. Validator-set changes across heights and block sync adoption are not yet modelled (static sets; catch-up by consensus gossip only).",
   ref="§4-C01"),
 "C03": dict(
   engine="node", category="model_checking", technique="TLA+ spec KardiaNode.tla (transcription of consensus/state.go) + MC_NodeEnv (one validator vs adversarial environment): TLC checks the obligations; behaviours (exhaustive BFS from scripted start states + simulation walks) replayed step by step on a real ConsensusState",
   text="KardiaNode.tla transcribes handleMsg/handleTimeout and the whole enterX cascade; MC_NodeEnv.tla puts one validator against an environment that owns all other keys (any proposal incl. invalid blocks and wrong proposers, parts, votes, +2/3 bundles, bad signatures, late precommits, timeouts, races with own messages). TLC checks OneVotePerTypeHR, PrecommitNeedsPolka, LockRespected, OnlyValidVoted on every state (exhaustive to depth 2-4 from 11 scripted start states: locked, moved on while locked, waiting for a POL, next height, commit without block, ...; weighted random walks beyond). Every generated behaviour is executed on a real node with real signed messages; after EVERY step the signature requests, queued messages, full round state, vote sets and ticker are compared with the specification.",
   note="Trusted: TLC, the driver. Model restriction: the environment never completes +2/3 votes for an invalid block (< 1/3 faulty); 4 equal validators, one-part blocks, static validator set; block validity is abstract (valid / invalid AppHash) — the validation clauses themselves are checked by C13's BlockFields model.",
   ref="§4-C03"),
 "C04": dict(
   engine="node", category="model_checking", technique="real network runs: adversarial prefix (validated against the TLA+ handler spec by TLC) followed by a synchronous suffix with a gossip model; fresh-genesis networks",
   text="Liveness is decided on the real code as bounded progress after a synchronous point: seeded adversarial prefixes (drops, reordering, early timeouts, Byzantine equivocation, invalid proposals; 3-7 nodes, equal and skewed powers) are explained by KardiaNodeTrace (TLC), then delivery becomes timely (everything in flight and everything consensus/manager.go's gossip would send — votes, proposal, parts, catch-up commits, majority claims — is delivered before the earliest timeout fires) and every correct node must pass the highest height reached; a fresh network built from a genesis document shaped like deployment/local/genesis_devnet.yaml (named validators, staking contract) through LoadStateFromDBOrGenesisDoc must commit heights 1-3.",
   note="A violation is declared only for no commit within 4000 handler steps of timely delivery or a panic, never for slowness. The TLA+ side contributes the conformance of the prefixes and deadlock-freedom of the handlers inside MC_NodeEnv; unbounded liveness is not model-checked. Restarted nodes are C05/C14.",
   ref="§4-C04"),
 "C13": dict(
   engine="partset", category="model_checking", technique="TLA+ specs (Merkle, PartSet, BlockFields, Codec) model-checked with TLC; every transition/state replayed into the real PartSet, Merkle proof, block validation and codec code",
   text="Merkle.tla (injective domain-separated hash algebra; Completeness/ContentSound/PositionSound for 1-9 leaves under every mutation), PartSet.tla (AddPart with the proof bound to index and total; CompleteIsOriginal, GenuineNeverBlocked, RejectNoOp for 0-5 parts, all arrival orders, 20 adversarial part kinds) replayed into real types.PartSet built from real block bytes; BlockFields.tla (BlockFromProto/ValidateBasic/validateBlock/VerifyCommit over a record of all header fields, txs, last commit, evidence; TamperEvidentId, UniqueIds, AcceptedIsValid for 48 single-field mutations and pairs) executed on four real nodes through part set, wire decoder and BlockExecutor.ValidateBlock (fresh and warm cache); Codec.tla round trips through proto codecs, consensus envelope and rawdb.",
   note="Trusted: TLC, the driver's mapping of abstract offers/mutations to real ones, collision resistance of sha256/keccak, secp256k1. Blocks beyond 5 parts, mutations of 3+ fields, unequal powers in the commit check are not covered.",
   ref="§4-C13"),
 "C11": dict(
   engine="sig", category="model_checking", technique="TLA+ signature algebra (SigAlgebra.tla) enumerated by TLC; every case (original, 1-3 mutations, presented signer, signature form) replayed into the real signing and acceptance paths",
   text="SigAlgebra.tla states the Dolev-Yao assumption the consensus specifications rely on (a signature verifies iff signer and full content are unchanged), one operator per real acceptance path. For every honestly signed prevote, precommit, proposal and transaction over 3-value field domains and every presentation after 1-3 mutations (any content field, the message type in all directions, verifier chain id / signer, claimed address / index / proposer, chain marker in V, 17/15 forms of the signature bytes incl. high-s twin, r/s = 0 or >= N, wrong lengths, random strings) TLC gives the verdict and the driver checks that types.VerifySignature, Vote.Verify, VoteSet/HeightVoteSet.AddVote, VerifyCommit, VerifyDuplicateVote, the reactor codec, the real setProposal, types.Sender (fresh, decoded, cached), AsMessage and a real TxPool accept iff the algebra says so, never panic, and that sign-then-recover returns the signer.",
   note="Trusted: unforgeability of secp256k1/keccak, TLC, 3 values per field through 4-6 concretisation tables. Keystore/JSON paths and other PrivValidator implementations are not bound.",
   ref="§4-C11"),
 "C20": dict(
   engine="conn", category="model_checking", technique="TLA+ specs (SecretConn handshake/stream/upgrade, MConn) model-checked by TLC; every behaviour replayed on real MakeSecretConnection / transport.upgrade / MConnection; TLC trace validation of concurrent real connections",
   text="Handshake: Dolev-Yao adversary against 2-3 honest sessions (Authenticated, NoImpersonation, Mutual, EstablishedSound incl. the transport's reject-self), each model session executed as a real MakeSecretConnection against the driver's own adversary implementation. Frame stream: all write/read chunkings over {0,1,1023,1024,1025,2049}, Flip and Cut at every byte offset, Drop/Dup/Swap/Replay/Inject up to three manipulations (DeliveredIsPrefixOfSent, TamperDetected) replayed on real connection pairs with the wire owned by the driver. MConnection: all packet interleavings and fragmentations, lengths 0..capacity+1 (PerChannelFIFOExactlyOnce, NoCrossChannelMixing, OversizeRefused, AllDelivered) replayed on a real receiver and stepped sender; traces of real concurrent MConnection-over-SecretConnection pairs and concurrent writers are explained by the specification (TLC).",
   note="Trusted: perfect X25519/HKDF/merlin/ChaCha20-Poly1305/ECDSA, TLC, the in-memory wire and the driver's independent adversary, a finite adversary closure. Ping/pong, flow-rate throttling and real TCP are not covered. Named deviation: the role-less challenge allows self-reflection, closed by transport.upgrade (composed invariant EstablishedSound).",
   ref="§4-C20"),
 "C16": dict(
   engine="rlp", category="model_checking", technique="TLA+ specs (RLP.tla Yellow-Paper Enc / canonical Dec, RLPStream, RLPTyped) model-checked by TLC; every generated string/tree/mutation/call history replayed into the real encoder and every decoder entry point; TLC trace validation of random inputs",
   text="RLP.tla defines Enc and the canonical decoder Dec; RLPStream.tla and RLPTyped.tla transcribe the lib/rlp Stream and the reflective decoders. TLC checks that Dec accepts exactly encodings and that the streaming/typed decoders accept exactly canonical encodings of the right shape and never request a buffer beyond the input limit, over: all strings of length <= 3/4 over an 18-byte boundary alphabet, trees with lengths 0..256 under every mutation class at every position (also stacked), headers claiming up to 2^64-1 bytes, boundary values of 31 Go schemas incl. the chain wire structs, all Stream call sequences of <= 6/10 calls. Every transition is executed on the real encoder, DecodeBytes/Decode/Stream/Split*/CountValues/iterator and the real Transaction/Receipt/BlockInfo/Log/StateAccount/Header (acceptance, value, canonical re-encode, hash, size, measured allocation, no panic); 2 000/20 000 random or damaged strings go through the real decoders and TLC must explain every outcome.",
   note="Partial: payloads above ~1 KB, Go types outside the 31 schemas and streams without an input limit are not covered; 'reference implementation' is read as RLP.tla's Enc (go-ethereum v1.9.15 only as a counted cross-check). Trusted: TLC, the driver's reflection mapping, keccak256.",
   ref="§4-C16"),
 "C08": dict(
   engine="statedb", category="model_checking", technique="TLA+ specs (StateDB.tla + SnapLayers.tla) model-checked by TLC; every transition replayed into the real kai/state.StateDB with and without a snapshot tree (with inserted reverted detours); TLC trace validation of seeded block-structured real runs",
   text="StateDB.tla with SnapLayers.tla specifies every public mutator and getter of kai/state.StateDB and the snapshot tree's layers (balance/nonce/code/storage setters, Suicide, CreateAccount, refund, logs, preimages, access list, transient storage, Snapshot/Revert, Finalise, IntermediateRoot, Commit, Copy, state.New, StorageTrie). TLC checks revert-leaves-no-trace, copy independence, root = live content and reads-through-layers = committed content on complete graphs of one-account universes, depth-bounded two-account graphs and scripted multi-block prefixes. Every transition is replayed into the real StateDB in up to four snapshot-tree modes comparing every getter, the committed read-back (trie and snapshot paths) and a global content<->root bijection; seeded real runs (up to 4 accounts x 2 slots) are validated call by call by TLC.",
   note="Trusted: TLC, the driver's value mapping, keccak collision-freedom, memorydb for the production store, single-goroutine use. Universes beyond 2 accounts x 2 slots are only sampled; prefetcher, SetStorage, snapshot generation/journal are not covered.",
   ref="§4-C08"),
 "C05": dict(
   engine="node", category="model_checking", technique="TLA+ spec CrashRecovery.tla (durable operations in measured program order, recovery as implemented) model-checked by TLC; every crash point replayed as a real kill/restart of a validator running the real receiveRoutine, file WAL and stores; restart outcome compared with the specification",
   text="CrashRecovery.tla has one action per durable operation of a validator in the order measured on the real code (own vote WAL fsyncs, SaveBlock, #ENDHEIGHT, writeBlockWithState, trie flush, writeHead, consensus-state batch) and the recovery as implemented (head repair, Store.Load or genesis, catchupReplay iff #ENDHEIGHT(h-1) and not #ENDHEIGHT(h)); TLC checks store consistency for every crash point in both cache modes and lists what the restart computes and where published votes are left unprotected. The harness kills a REAL validator (real receiveRoutine under the gate, real file WAL, counting database) before EVERY durable operation of a 3-height run (about 65 cuts x 3 WAL tail variants — unsynced tail lost / survived / last record torn — x 2 cache modes), restarts it on the surviving files through NewBlockChain / Store.Load / OnStart and lets it continue against the live network: it must start, its stored blocks must be the committed ones, no post-restart signature request may conflict with a pre-crash published message, it must catch up, the WAL it leaves behind must decode to its end (torn tails repaired before appending), and the restart's head / consensus state must be what the specification computes for that crash point. Conflicts are accepted as KNOWN only in the recorded design-level windows (after #ENDHEIGHT; head rewound in memory mode).",
   note="Restart goes straight to consensus with WAL catch-up (fast sync off); honest, timely network after the restart; empty blocks; second crashes during recovery and WAL corruption at the tail are C15's / not enumerated here. Trusted: TLC, the driver's counting wrappers (a cut = the operation that did not happen).",
   ref="§4-C05"),
 "C17": dict(
   engine="pool", category="model_checking", technique="TLA+ specification (TxPool.tla, set-valued transcription of mainchain/tx_pool) model-checked with TLC; every transition replayed into the real TxPool; seeded random real runs validated by TLC",
   text="TxPool.tla transcribes add/validateTx/enqueueTx/promoteTx/removeTx, runReorg (reset incl. reinjection, promoteExecutables, demoteUnexecutables, truncatePending, truncateQueue), SetGasPrice, lifetime eviction and journal load/rotate as operators returning every outcome the code may produce. TLC checks the clauses of the statement on 13 configurations (2-4 accounts, <= 3 nonces, 1-3 prices, 8 transaction kinds, limits 1-3, depth 3-9): gap-free from the state nonce, individually affordable, block gas limit, pending/queued disjoint, indexed exactly once, mined gone, limits, rejected submission is a no-op, price bump, locals exempt, AddLocal makes the sender local, journal give-back. Every transition is executed from a fresh real pool over a stub chain and compared on result, content, locals and journal, and the clauses are evaluated directly on the real pool against the real chain state; random runs of 40-80 operations are trace-validated by TLC. Seven deviations of the code (inherited from go-ethereum) are recorded as known findings; with the Fix* switches on TLC shows the strict reading holds.",
   note="Trusted: TLC, the driver's mapping of transactions and its stub chain, secp256k1; the price heap is abstracted to the set of remote transactions, heartbeat times to nondeterminism; critical sections are driven one at a time (no true concurrency between the reorg loop and submissions); small integers.",
   ref="§4-C17"),
 "C07": dict(
   engine="mpt", category="model_checking", technique="TLA+ specifications (MPT.tla, MPTCache.tla, MPTDb.tla, MPTRange.tla) model-checked with TLC; every transition / case replayed into the real trie package (model-based testing) and long random real runs validated line by line by TLC (MPTTrace.tla)",
   text="MPT.tla/MPTCache.tla/MPTDb.tla transcribe trie/trie.go (insert/delete/get with collapsing), the 32-byte embedding rule with exact RLP lengths, NodeIterator order and seek, Prove/VerifyProof, StackTrie, node flags/hashNodes/hasher/committer/reopen/Copy, and hashdb's reference-counted garbage collection; MPTRange.tla states VerifyRangeProof's contract. TLC checks that the trie after ANY history is the canonical trie of its content (root = function of content, order- and commit-independent), Get = last written, cached hashes never stale, dirtiness closed upwards, every committed / unreleased root stays readable under GC, the stack trie builds the canonical tree on prefix-free data, DeriveSha feeds keys in ascending order, every proof mutation yields error or the true value, only the true range claim is accepted. Every transition/case (0.9 M quick, 8.5 M thorough) is executed on the real trie package and compared on Get, iterator structure, root vs an independent RLP+keccak of the specified tree, StackTrie, node sets, reopened roots, Copy independence, content<->root bijection, proof/range outcomes, SecureTrie and DeriveSha; long random real runs are validated line by line by TLC.",
   note="Trusted: TLC, the driver's value mapping and its own RLP/hex-prefix code (keccak from lib/crypto), keccak collision-freeness; verifiers key proof nodes by their own hash. Named deviations kept as upstream: Prove on the empty trie returns no element, StackTrie panics outside prefix-free key sets, a key that is a prefix of others is iterated after them, range proofs only on equal-length keys with honest edge proofs. Bounds: <= 10 keys exhaustively; 31 keys to depth 3 plus sampled depth 16; cache and db histories <= 7 operations. Not covered: the VerifyRangeProof algorithm beyond its contract, difference/union iterators, Prove(fromLevel>0), clean cache, Cap(limit>0), concurrent use.",
   ref="§4-C07"),
 "C15": dict(
   engine="wal", category="model_checking", technique="TLA+ specification (WAL.tla: record-level model of consensus/wal.go over lib/autofile groups) model-checked with TLC; every transition replayed into the real BaseWAL with byte-exhaustive concretisation of each damage class (model-based testing); large random real logs validated by TLC (WALTrace.tla)",
   text="On every history of <= 4 (quick) / <= 6 (thorough) records in 1-7 files (buffered and synced writes, all rotation points, total-size removal, restarts, process crashes) the real BaseWAL returns exactly the written messages, in order, across files; SearchForEndHeight finds a marker iff it is on disk (for markers written in increasing height order, as the consensus writer does; otherwise the known finding F-wal-search-nonincreasing applies) and positions the reader behind it. Every single damage (checksum, payload, length smaller / larger / above the limit, every cut region, garbage), realised at every byte offset and bit on sampled logs, yields the specified prefix followed by EOF or DataCorruptionError: never another message, a panic, or a payload buffer above maxMsgSizeBytes, and repairWalFile keeps exactly the longest valid prefix. Invariants checked by TLC: OrderKept, Durable, ReadExact, FlipsReported, RepairExact, SearchSound/Det/Complete, SyncIsDurable. Thorough tier: also traces of large seeded random logs with multi-byte corruption.",
   note="Trusted: TLC, the driver's byte arithmetic and field rendering; CRC-32C detection beyond 32-bit bursts and no payload containing a valid frame at a desynchronised offset (probabilistic); damage is isolated; a process crash is modelled, not a power failure; the 40 KiB bufio buffer never spills in the drivers; heights >= 0. Disagreements where the statement allows both results (EOF vs corruption error) are infrastructure results (exit 2), never a violation. Not covered: the real ticker goroutine, fsync / power-loss semantics, records >= 40 KiB, more than two damages.",
   ref="§4-C15"),
 "C09": dict(
   engine="txexec", category="model_checking", technique="TLA+ specification (TxExec.tla: ApplyTransaction pipeline, KVM frame rules, commitBlock / Process loops) model-checked with TLC (the statement is an action property evaluated on every transition); seeded real blocks validated event by event by TLC (TxExecTrace.tla); every plain-mode model transition replayed at real scale",
   text="TxExec.tla transcribes the ApplyTransaction pipeline (checks, buyGas, intrinsic gas, execute, refund, pay coinbase, finalise) and the frame rules of the KVM incl. snapshot on entry and restore on failure, plus one iteration of the commitBlock loop and StateProcessor.Process. TLC checks Conservation, GasBounds, PoolExact, NonceStep, RejectedIsNoOp as an action property on every transition (every small transaction against every bytecode behaviour of up to 3 frame events quick / 4 thorough, blocks of up to 3-4 transactions); the unchanged-pool variant and five reachability companions must be violated. Binding: 10^4 (quick) / 1.8*10^5 (thorough) events from seeded real blocks (grammar-generated bytecode, every reject class at its exact threshold) through the real ApplyTransaction, commitBlock and Process are explained by TxExecTrace.tla from logged inputs only, with the sum over ALL accounts of the state trie included; every plain-mode model transition is replayed at real scale through ApplyTransaction and commitBlock.",
   note="Trusted: TLC, the KVM tracer (cross-checked against the untraced commitBlock run of the same block), StateDB.Copy (C08), memorydb, the real IntrinsicGas taken as an input. Amounts below 2^30. Named deviations: value reaching an account after it self-destructed in the same transaction disappears with it (reference EVM behaviour; counted separately). Not covered: big-integer edge arithmetic, heights above 1, CREATE2 and inner CREATE collisions, precompiles other than identity, opcode gas costs (C10), mint and staking system calls.",
   ref="§4-C09"),
}

NOT_YET = {
}

def main():
    props = [json.loads(l) for l in open(os.path.join(ROOT, "properties.jsonl"))]
    hooks_commits = []
    try:
        out = subprocess.run(["git", "-C", "/repo", "log", "--format=%H %s"], capture_output=True, text=True).stdout
        for l in out.splitlines():
            h, s = l.split(" ", 1)
            if s.startswith("verif hooks"):
                hooks_commits.append(h)
    except Exception:
        pass
    checks = []
    na = []
    for p in props:
        pid = p["id"]
        if pid in CHECKS:
            c = CHECKS[pid]
            checks.append(dict(
                property_id=pid,
                quick_cmd="./check %s quick" % pid,
                thorough_cmd="./check %s thorough" % pid,
                evidence_file="/verif/evidence/%s.json" % pid,
                replay_cmd_template="./check %s --replay {path}" % pid,
                engine=c["engine"],
                level_claimed=dict(category=c["category"], text=c["text"], design_ref=c["ref"]),
                level_note=c["note"],
                technique=c["technique"]))
        else:
            na.append(dict(property_id=pid, reason=NOT_YET.get(pid, "check not built yet (construction in progress, see DESIGN.md §7); the TLA+ technique applies and a check is planned")))
    m = dict(
        version=1,
        setup_cmd="./setup.sh",
        hooks=dict(guard="verif",
                   enable="go test -tags verif in the harness module /verif/harness (replace github.com/kardiachain/go-kardia => /repo)",
                   baseline_off_cmd="python3 /verif/lib/baseline.py",
                   source_commits=hooks_commits, add_only=True),
        engines=[dict(name=k, path="specs/%s + harness/%s" % (k, k), serves_properties=[pid for pid, c in CHECKS.items() if c["engine"] == k],
                      kind_free_text="TLA+ specification checked by TLC, bound to the code by replay (MBT) and/or trace validation")
                 for k in sorted({c["engine"] for c in CHECKS.values()})],
        checks=checks,
        notes="One TLA+ module family per subsystem under specs/; ./check <id> quick|thorough runs TLC and the Go harness against /repo's working tree (build tag verif). Exit 0 held / 1 violation / 2 infrastructure error (never a verdict). known_findings.json lists recorded and fixed defects.",
        not_applicable=na)
    with open(os.path.join(ROOT, "MANIFEST.json"), "w") as f:
        json.dump(m, f, indent=1)
    print("MANIFEST.json: %d checks, %d not claimed" % (len(checks), len(na)))

if __name__ == "__main__":
    main()
