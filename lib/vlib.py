"""Shared plumbing for the /verif checks: TLC runner, Go harness runner, evidence writer,
known-findings handling.  Python 3 standard library only."""
import json, os, re, shutil, subprocess, sys, tempfile, time, hashlib

ROOT = os.path.dirname(os.path.dirname(os.path.abspath(__file__)))
SPECS = os.path.join(ROOT, "specs")
HARNESS = os.path.join(ROOT, "harness")
REPO = os.environ.get("VERIF_REPO", "/repo")   # checks always use /repo unless a scratch tree is named explicitly
JAVA_CP = "/opt/veriftools/tla/tla2tools.jar:/opt/veriftools/tla/CommunityModules-deps.jar"

EXIT_OK, EXIT_VIOLATION, EXIT_INFRA = 0, 1, 2


class Infra(Exception):
    """Infrastructure failure (never a verdict)."""


def goenv(extra=None):
    e = dict(os.environ)
    e.update(GOFLAGS="-mod=mod", GOPROXY="off", GOSUMDB="off", GOTOOLCHAIN="local")
    e.setdefault("GOCACHE", os.path.expanduser("~/.cache/go-build"))
    if extra:
        e.update({k: str(v) for k, v in extra.items()})
    return e


class TLCResult:
    def __init__(self):
        self.ok = False            # completed without error/violation
        self.generated = 0
        self.distinct = 0
        self.depth = 0
        self.violated = None       # invariant / property name
        self.error = None          # other error text
        self.out = ""              # path of stdout file
        self.wall = 0.0
        self.timed_out = False
        self.coverage = {}         # action -> count (when -coverage)

    def as_dict(self):
        return dict(ok=self.ok, generated=self.generated, distinct=self.distinct, depth=self.depth,
                    violated=self.violated, error=self.error, wall_s=round(self.wall, 1),
                    timed_out=self.timed_out)


def parse_tlc_output(path, res):
    gen = dist = 0
    with open(path, errors="replace") as f:
        for line in f:
            if line.startswith('"') or line.startswith("{"):
                continue  # dump lines
            m = re.match(r"^(\d+) states generated, (\d+) distinct states found", line)
            if m:
                gen, dist = int(m.group(1)), int(m.group(2))
            m = re.match(r"^Progress\(\d+\).*?: ([\d,]+) states generated.*?, ([\d,]+) distinct states found", line)
            if m:
                gen = max(gen, int(m.group(1).replace(",", "")))
                dist = max(dist, int(m.group(2).replace(",", "")))
            m = re.match(r"^The depth of the complete state graph search is (\d+)", line)
            if m:
                res.depth = int(m.group(1))
            m = re.match(r"^Error: Invariant (\S+) is violated", line)
            if m:
                res.violated = m.group(1)
            m = re.match(r"^Error: Action property (\S+) is violated", line)
            if m:
                res.violated = m.group(1)
            if line.startswith("Error: Temporal properties were violated"):
                res.violated = res.violated or "temporal"
            if line.startswith("Error: Deadlock reached"):
                res.violated = res.violated or "Deadlock"
            if line.startswith("Error:") and res.violated is None and res.error is None:
                res.error = line.strip()
            m = re.match(r"^The number of states generated: (\d+)", line)
            if m:
                gen = max(gen, int(m.group(1)))
    res.generated, res.distinct = gen, dist
    return res


class _CrashAgain(Exception):
    def __init__(self, where):
        Exception.__init__(self, where)
        self.where = where


def _panic_in_repo(log, repo):
    """Name of the function of the code under test in which the driver's panicking goroutine died, or None."""
    lines = log.splitlines()
    start = None
    for i, l in enumerate(lines):
        if l.startswith("panic:") or l.startswith("fatal error:"):
            start = i
            break
    if start is None:
        return None
    # first goroutine dump after the panic line
    j = start
    while j < len(lines) and not lines[j].startswith("goroutine "):
        j += 1
    j += 1
    real = os.path.realpath(repo)
    while j + 1 < len(lines) and lines[j].strip() and not lines[j].startswith("goroutine "):
        fn, loc = lines[j].strip(), lines[j + 1].strip()
        j += 2
        path = loc.split(":")[0]
        if fn.startswith("panic(") or fn.startswith("runtime.") or "/go/src/" in path or "/libexec/" in path or fn.startswith("testing."):
            continue
        if fn.startswith("created by"):
            break
        if os.path.realpath(path).startswith(real + os.sep):
            return fn.rsplit("(", 1)[0].split("/")[-1]
        return None          # first non-runtime frame is the harness (or a module): not the code under test
    return None


class Check:
    """One run of one property's check."""

    def __init__(self, prop, tier, level="model_checking"):
        self.prop = prop
        self.tier = tier
        self.level = level
        self.seed = int(os.environ.get("VERIF_SEED", "1") or "1")
        self.t0 = time.time()
        self.scratch = tempfile.mkdtemp(prefix="verif-%s-" % prop)
        self.states = 0
        self.transitions = 0
        self.traces = 0            # behaviours replayed into / traces validated against the implementation
        self.evaluations = 0
        self.distinct_nontrivial = 0
        self.samples = []
        self.rule = ""
        self.assumptions = []
        self.extra = {}
        self.violations = []       # dicts: sig, text, replay
        self.known_hits = []
        self.infra = []
        self.exhaustive = None
        self.tlc_runs = []
        self.go_runs = []
        self._known = load_known()

    # ---------------------------------------------------------------- TLC
    def tlc(self, family, cfg, module=None, workers=None, timeout=600, simulate=None, depth=None,
            extra=None, dump_to=None, deadlock=False, files=None, jvm=None, tag=None, coverage=False,
            must_complete=True, seed=None):
        """Run TLC on specs/<family>/<module>.tla with <cfg> in a scratch copy.
        simulate: "num=N" string for -simulate; dump_to: file that receives stdout (dump lines included).
        files: extra {name: content-or-path} to drop into the scratch spec dir before running."""
        src = os.path.join(SPECS, family)
        work = os.path.join(self.scratch, "tlc-%s-%d" % (family, len(self.tlc_runs)))
        shutil.copytree(src, work)
        # shared modules
        common = os.path.join(SPECS, "common")
        if os.path.isdir(common):
            for fn in os.listdir(common):
                if not os.path.exists(os.path.join(work, fn)):
                    shutil.copy(os.path.join(common, fn), work)
        for name, content in (files or {}).items():
            dst = os.path.join(work, name)
            if isinstance(content, str) and os.path.exists(content) and "\n" not in content:
                shutil.copy(content, dst)
            else:
                with open(dst, "w") as f:
                    f.write(content)
        if module is None:
            module = cfg[:-4] if cfg.endswith(".cfg") else cfg
        if not cfg.endswith(".cfg"):
            cfg = cfg + ".cfg"
        out = dump_to or os.path.join(work, "tlc.out")
        cmd = ["java", "-XX:+UseParallelGC", "-Xss64m", "-Djava.io.tmpdir=" + self._tmpdir()]
        if jvm:
            cmd += jvm
        cmd += ["-cp", JAVA_CP, "tlc2.TLC", "-config", cfg, "-metadir", os.path.join(work, "meta"),
                "-workers", str(workers or min(16, os.cpu_count() or 4))]
        if not deadlock:
            cmd += ["-deadlock"]
        if simulate:
            cmd += ["-simulate", simulate]
            cmd += ["-seed", str(seed if seed is not None else self.seed)]
        if depth:
            cmd += ["-depth", str(depth)]
        if coverage:
            cmd += ["-coverage", "1"]
        if extra:
            cmd += list(extra)
        cmd += [module + ".tla"]
        res = TLCResult()
        res.out = out
        t0 = time.time()
        with open(out, "w") as fo:
            try:
                p = subprocess.run(cmd, cwd=work, stdout=fo, stderr=subprocess.STDOUT, timeout=timeout)
                rc = p.returncode
            except subprocess.TimeoutExpired:
                res.timed_out = True
                rc = -1
        res.wall = time.time() - t0
        parse_tlc_output(out, res)
        res.rc = rc
        res.ok = (rc == 0 and res.violated is None and res.error is None)
        if res.timed_out and not must_complete:
            res.ok = res.violated is None and res.error is None
        d = res.as_dict()
        d.update(family=family, cfg=cfg, module=module, tag=tag or cfg,
                 mode="simulate" if simulate else "bfs")
        self.tlc_runs.append(d)
        self.states += res.distinct
        self.transitions += res.generated
        res.work = work
        return res

    def tlc_tail(self, res, n=30):
        try:
            with open(res.out, errors="replace") as f:
                lines = [l for l in f if not l.startswith('"')]
            return "".join(lines[-n:])
        except Exception:
            return ""

    # ---------------------------------------------------------------- trace validation
    def _tmpdir(self):
        d = os.path.join(self.scratch, "tmp")
        os.makedirs(d, exist_ok=True)
        return d

    def validate_traces(self, family, module, cfg, paths, parallel=8, timeout=900, tag="trace validation"):
        """Validate recorded traces (ndjson) against specs/<family>/<module>.tla, one TLC process per trace
        (the trace is dropped into the scratch copy as trace.ndjson).  Returns one dict per trace:
        path, accepted, violated (invariant name or None), diag (text of the specification's MISMATCH line)."""
        from concurrent.futures import ThreadPoolExecutor
        src = os.path.join(SPECS, family)

        def one(k_path):
            k, path = k_path
            work = os.path.join(self.scratch, "tv-%s-%d-%d" % (family, len(self.tlc_runs), k))
            shutil.copytree(src, work)
            shutil.copy(path, os.path.join(work, "trace.ndjson"))
            out = os.path.join(work, "tlc.out")
            cmd = ["java", "-XX:+UseParallelGC", "-Xss512m", "-Xmx3g", "-Djava.io.tmpdir=" + self._tmpdir(), "-cp", JAVA_CP, "tlc2.TLC", "-config", cfg,
                   "-metadir", os.path.join(work, "meta"), "-workers", "1", module + ".tla"]
            t0 = time.time()
            to = False
            with open(out, "w") as fo:
                try:
                    rc = subprocess.run(cmd, cwd=work, stdout=fo, stderr=subprocess.STDOUT, timeout=timeout).returncode
                except subprocess.TimeoutExpired:
                    rc, to = -1, True
            res = TLCResult()
            parse_tlc_output(out, res)
            text = open(out, errors="replace").read()
            diag = ""
            i = text.find('<< "MISMATCH"')
            if i >= 0:
                diag = " ".join(text[i:i + 20000].split())[:6000]
            deviations = sorted(set(re.findall(r'<<\s*"DEVIATION",\s*"([\w:-]+)"', text)))
            rejected = ("REJECTED" in text) or ("Postcondition" in text and "is false" in text)
            violated = res.violated
            err = res.error if (res.error and not rejected and not violated) else None
            shutil.rmtree(work, ignore_errors=True)
            return dict(path=path, accepted=(rc == 0 and not rejected and not violated and not err), rejected=rejected,
                        violated=violated, error=err, timed_out=to, diag=diag, states=res.distinct, deviations=deviations,
                        wall_s=round(time.time() - t0, 1))

        with ThreadPoolExecutor(max_workers=parallel) as ex:
            results = list(ex.map(one, list(enumerate(paths))))
        self.tlc_runs.append(dict(tag=tag, family=family, module=module, mode="trace-validation", traces=len(paths),
                                  accepted=sum(1 for r in results if r["accepted"]),
                                  states=sum(r["states"] for r in results),
                                  wall_s=round(sum(r["wall_s"] for r in results), 1)))
        self.states += sum(r["states"] for r in results)
        self.transitions += sum(r["states"] for r in results)
        return results

    # ---------------------------------------------------------------- Go harness
    def prepare_harness(self):
        """Returns the directory of the harness module to build in.  For /repo that is /verif/harness itself;
        for a scratch tree (VERIF_REPO, used only to try seeded changes without touching /repo) it is a copy
        whose replace directive points at that tree."""
        hdir = HARNESS
        if REPO != "/repo":
            hdir = os.path.join(self.scratch, "harness")
            if not os.path.isdir(hdir):
                shutil.copytree(HARNESS, hdir)
                gm = open(os.path.join(hdir, "go.mod")).read().replace("=> /repo", "=> " + REPO)
                open(os.path.join(hdir, "go.mod"), "w").write(gm)
        shutil.copy(os.path.join(REPO, "go.sum"), os.path.join(hdir, "go.sum"))
        extra = os.path.join(hdir, "go.sum.extra")
        if os.path.exists(extra):
            with open(os.path.join(hdir, "go.sum"), "a") as f:
                f.write(open(extra).read())
        return hdir

    def gotest(self, pkg, run, env=None, timeout=900, tag=None, args=None, _retry=False):
        """Run one Go harness test; the test writes its JSON result to $VERIF_OUT.
        Returns the parsed result dict.  Build failures / crashes of the driver raise Infra."""
        hdir = self.prepare_harness()
        outp = os.path.join(self.scratch, "go-%d.json" % len(self.go_runs))
        logp = os.path.join(self.scratch, "go-%d.log" % len(self.go_runs))
        e = goenv(env)
        e["VERIF_OUT"] = outp
        e["VERIF_SEED"] = str(self.seed)
        e["VERIF_TIER"] = self.tier
        e["VERIF_SCRATCH"] = self.scratch
        # whatever the code under test drops into the temporary directory (p2p node keys, WAL directories of its own
        # helpers) lands in this check's scratch directory and is removed with it
        tmpd = os.path.join(self.scratch, "tmp")
        os.makedirs(tmpd, exist_ok=True)
        e["TMPDIR"] = tmpd
        e["VERIF_REPO"] = REPO
        cmd = ["go", "test", "-tags", "verif", "-count=1", "-vet=off", "-run", "^" + run + "$",
               "-timeout", "%ds" % int(timeout), "./" + pkg + "/"]
        if args:
            cmd += ["-args"] + list(args)
        t0 = time.time()
        with open(logp, "w") as fo:
            try:
                p = subprocess.run(cmd, cwd=hdir, env=e, stdout=fo, stderr=subprocess.STDOUT,
                                   timeout=timeout + 120)
                rc = p.returncode
            except subprocess.TimeoutExpired:
                rc = -9
        wall = time.time() - t0
        if not os.path.exists(outp):
            log = open(logp, errors="replace").read()
            tail = "".join(log.splitlines(True)[-40:])
            # The driver process died.  If it died of a Go panic raised INSIDE the code under test (first frame of the
            # panicking goroutine that is neither the Go runtime nor the harness lies in the repository) and the same
            # panic happens again when the same test is run a second time, this is real-code behaviour: the code took the
            # process down on an input the specification generated.  Anything else (harness bug, OOM, timeout, a crash
            # that does not repeat) stays an infrastructure error.
            where = _panic_in_repo(log, REPO)
            if where and not _retry:
                try:
                    self.gotest(pkg, run, env=env, timeout=timeout, tag=tag, args=args, _retry=True)
                except _CrashAgain as again:
                    if again.where == where:
                        msg = [l for l in log.splitlines() if l.startswith("panic:") or l.startswith("fatal error:")]
                        r = dict(evaluations=0, behaviours=0, distinct_nontrivial=0, samples=[], extra={},
                                 mismatches=[dict(sig="crash:%s:%s" % (pkg, where),
                                                  text="the code under test took the driver process down (twice, same place): %s in %s; harness %s/%s"
                                                       % ((msg[0] if msg else "panic")[:300], where, pkg, run),
                                                  detail=dict(log_tail=tail[-3000:]))],
                                 _wall_s=round(wall, 1), _rc=rc, _log=logp)
                        self.go_runs.append(dict(pkg=pkg, run=run, tag=tag or run, wall_s=round(wall, 1), evaluations=0, mismatches=1))
                        return r
                except Infra:
                    pass
                else:
                    pass
            if where and _retry:
                raise _CrashAgain(where)
            raise Infra("go harness %s/%s produced no result (rc=%s)\n%s" % (pkg, run, rc, tail))
        with open(outp) as f:
            r = json.load(f)
        r["_wall_s"] = round(wall, 1)
        r["_rc"] = rc
        r["_log"] = logp
        self.go_runs.append(dict(pkg=pkg, run=run, tag=tag or run, wall_s=round(wall, 1),
                                 evaluations=r.get("evaluations", 0), mismatches=len(r.get("mismatches", []))))
        return r

    def absorb(self, r, traces_key="behaviours"):
        """Fold a Go result into the coverage counters and violations."""
        self.evaluations += int(r.get("evaluations", 0))
        self.distinct_nontrivial += int(r.get("distinct_nontrivial", 0))
        self.traces += int(r.get(traces_key, r.get("evaluations", 0)))
        for s in (r.get("samples") or [])[:3]:
            if len(self.samples) < 8:
                self.samples.append(s)
        for m in (r.get("mismatches") or []):
            self.report(m.get("sig", "unspecified"), m.get("text", ""), m.get("detail"))
        for k, v in (r.get("extra") or {}).items():
            self.extra[k] = v

    # ---------------------------------------------------------------- verdicts
    def report(self, sig, text, detail=None):
        """Report a property-level mismatch.  Known findings are printed and do not fail."""
        if sig.startswith("infra:"):
            self.infra.append("%s: %s" % (sig, text))
            return
        for k in self._known:
            if k.get("status") == "known" and self.prop in ([k.get("property")] + list(k.get("also") or [])) and sig_match(k, sig):
                if not any(h["id"] == k.get("id") for h in self.known_hits):
                    self.known_hits.append(dict(sig=sig, text=k.get("text", text), id=k.get("id")))
                return
        if any(v["sig"] == sig for v in self.violations):
            return
        os.makedirs(os.path.join(ROOT, "replays"), exist_ok=True)
        h = hashlib.sha1(sig.encode()).hexdigest()[:10]
        rp = os.path.join(ROOT, "replays", "%s-%s.json" % (self.prop, h))
        with open(rp, "w") as f:
            json.dump(dict(property=self.prop, sig=sig, text=text, detail=detail, seed=self.seed,
                           tier=self.tier), f, indent=1, default=str)
        self.violations.append(dict(sig=sig, text=text, replay=rp))

    def finish(self):
        wall = time.time() - self.t0
        cov = dict(states=self.states, transitions=self.transitions,
                   traces_validated_against_impl=self.traces,
                   evaluations=self.evaluations, distinct_nontrivial=self.distinct_nontrivial,
                   rule=self.rule, samples=self.samples or ["(none)"],
                   tlc_runs=self.tlc_runs, go_runs=self.go_runs,
                   known_findings_hit=[h["sig"] for h in self.known_hits])
        if self.exhaustive is not None:
            cov["exhaustive"] = bool(self.exhaustive)
        cov.update(self.extra)
        ev = dict(property_id=self.prop, tier=self.tier, seed=self.seed, level=self.level,
                  coverage=cov, assumptions=self.assumptions, wall_s=round(wall, 1),
                  violations=len(self.violations))
        if self.infra:
            ev["infrastructure_errors"] = self.infra
        evdir = os.path.join(ROOT, "evidence")
        if os.path.realpath(os.environ.get("VERIF_REPO", "/repo")) != "/repo":
            # a run against another tree (seeded change in a scratch worktree) must not replace /repo's evidence
            evdir = os.path.join(tempfile.gettempdir(), "verif-evidence-other-tree")
        os.makedirs(evdir, exist_ok=True)
        with open(os.path.join(evdir, self.prop + ".json"), "w") as f:
            json.dump(ev, f, indent=1, default=str)
        for h in self.known_hits:
            print("KNOWN-FINDING: property=%s %s" % (self.prop, re.sub(r"^known: property=\S+ ", "", h["text"])))
        for v in self.violations:
            print("VIOLATION property=%s replay=%s" % (self.prop, v["replay"]))
            print("  " + v["text"][:2000])
        shutil.rmtree(self.scratch, ignore_errors=True)
        print("%s %s: states=%d transitions=%d impl_behaviours=%d evaluations=%d violations=%d known=%d wall=%.0fs" %
              (self.prop, self.tier, self.states, self.transitions, self.traces, self.evaluations,
               len(self.violations), len(self.known_hits), wall))
        if self.violations:
            return EXIT_VIOLATION
        if self.infra:
            for i in self.infra:
                print("INFRA: " + str(i)[:2000], file=sys.stderr)
            return EXIT_INFRA
        return EXIT_OK


def load_known():
    p = os.path.join(ROOT, "known_findings.json")
    if not os.path.exists(p):
        return []
    with open(p) as f:
        return json.load(f).get("findings", [])


def sig_match(k, sig):
    if "sig" in k and k["sig"] == sig:
        return True
    if "sig_regex" in k and re.fullmatch(k["sig_regex"], sig):
        return True
    return False


def run_check(prop, fn, level="model_checking"):
    """Entry point used by ./check: fn(check) performs the work."""
    tier = "quick"
    for a in sys.argv[1:]:
        if a in ("quick", "thorough"):
            tier = a
    tier = os.environ.get("VERIF_TIER", tier) if tier == "quick" and os.environ.get("VERIF_TIER") in ("quick", "thorough") and len(sys.argv) < 3 else tier
    c = Check(prop, tier, level)
    try:
        fn(c)
    except Infra as e:
        c.infra.append(str(e))
    except Exception as e:  # a bug in the machinery is never a verdict
        import traceback
        c.infra.append("exception: " + traceback.format_exc())
    return c.finish()
