#!/usr/bin/env python3
"""Seeded-defect workflow.
  seed.py verify <outdir> <name>   confirm a sub-agent's change in a scratch worktree (demo passes clean, fails
                                    with the patch, repo builds) and store it as /verif/seeded/<name>/
  seed.py run <name> [quick|thorough] [prop ...]
                                    apply seeded/<name>/patch.diff to /repo, run the checks of the property it
                                    breaks (or the listed ones), undo, and record the outcome in meta.json"""
import json, os, re, shutil, subprocess, sys, time
ROOT = os.path.dirname(os.path.dirname(os.path.abspath(__file__)))
ENV = dict(os.environ, GOFLAGS="-mod=mod", GOPROXY="off", GOSUMDB="off", GOTOOLCHAIN="local")

def sh(cmd, cwd=None, timeout=1800):
    p = subprocess.run(cmd, shell=True, cwd=cwd, env=ENV, stdout=subprocess.PIPE, stderr=subprocess.STDOUT, text=True, errors="replace", timeout=timeout)
    return p.returncode, p.stdout

def verify(outdir, name):
    demo = open(os.path.join(outdir, "demo_test.go")).read()
    first = " ".join(demo.splitlines()[:3])
    m = re.search(r"([\w./-]+_test\.go)", first)
    place = m.group(1)
    m = re.search(r"(go test .*?\./[\w./-]+/?(?:\s+-run\s+'?[\w|^$.*()-]+'?)?)", first)
    cmd = m.group(1).strip()
    wt = "/tmp/seedv-" + name
    sh("git -C /repo worktree remove --force %s" % wt)
    rc, out = sh("git -C /repo worktree add -q --detach %s HEAD" % wt)
    assert rc == 0, out
    ran = []
    try:
        shutil.copy(os.path.join(outdir, "demo_test.go"), os.path.join(wt, place))
        rc1, out1 = sh(cmd, cwd=wt)
        ran.append(dict(cmd=cmd, tree="clean", rc=rc1, tail=out1[-600:]))
        rca, outa = sh("git apply %s" % os.path.join(os.path.abspath(outdir), "patch.diff"), cwd=wt)
        if rca != 0:
            rca, outa = sh("git apply -3 %s" % os.path.join(os.path.abspath(outdir), "patch.diff"), cwd=wt)
        ran.append(dict(cmd="git apply patch.diff", rc=rca, tail=outa[-300:]))
        rcb, outb = sh("go build ./... 2>&1 | grep -v 'memsize\\|^#' | head -5", cwd=wt)
        rc2, out2 = sh(cmd, cwd=wt)
        ran.append(dict(cmd=cmd, tree="patched", rc=rc2, tail=out2[-1200:]))
        ok = (rc1 == 0 and rca == 0 and rc2 != 0 and "[build failed]" not in out2)
        if ok:
            os.remove(os.path.join(wt, place))
            rc3, out3 = sh("python3 %s %s" % (os.path.join(ROOT, "lib", "baseline.py"), wt), timeout=3600)
            ran.append(dict(cmd="pinned suite (BASELINE.json stable_pass) on the patched tree, guard off", rc=rc3, tail=out3[-400:]))
            ok = rc3 == 0
            print(out3.strip().splitlines()[0] if out3.strip() else "")
    finally:
        sh("git -C /repo worktree remove --force %s" % wt)
    print("clean rc=%s patched rc=%s apply rc=%s -> %s" % (rc1, rc2, rca, "CONFIRMED" if ok else "NOT CONFIRMED"))
    if not ok:
        for r in ran:
            print(r)
        return 1
    dst = os.path.join(ROOT, "seeded", name)
    os.makedirs(dst, exist_ok=True)
    shutil.copy(os.path.join(outdir, "patch.diff"), dst)
    shutil.copy(os.path.join(outdir, "demo_test.go"), dst)
    meta = {}
    try:
        meta = json.load(open(os.path.join(outdir, "meta.json")))
    except Exception as e:
        meta = {"summary": "(agent meta.json unreadable: %s)" % e}
    meta["demo_place"] = place
    meta["demo_cmd"] = cmd
    meta["confirmed"] = dict(at=time.strftime("%Y-%m-%d %H:%M"), repo_head=sh("git -C /repo rev-parse --short HEAD")[1].strip(), ran=ran)
    meta.setdefault("detection", {})
    json.dump(meta, open(os.path.join(dst, "meta.json"), "w"), indent=1)
    return 0

def run(name, tier, props, inplace=False):
    """inplace: patch /repo itself (git apply ... git checkout -- .), as the brief describes; default: a scratch
    worktree of /repo's HEAD named through VERIF_REPO, so that other work on /repo is not disturbed."""
    dst = os.path.join(ROOT, "seeded", name)
    meta = json.load(open(os.path.join(dst, "meta.json")))
    if not props:
        props = [meta.get("property", name.split("-")[0])]
    if inplace:
        tree = "/repo"
        rc, out = sh("git -C /repo diff --quiet")
        assert rc == 0, "/repo has modified tracked files"
    else:
        tree = "/tmp/seedrun-" + name
        sh("git -C /repo worktree remove --force %s" % tree)
        rc, out = sh("git -C /repo worktree add -q --detach %s HEAD" % tree)
        assert rc == 0, out
        # untracked hook files of /repo (build tag verif) are part of the tree the checks see
        rc, out = sh("git -C /repo ls-files --others --exclude-standard")
        for f in out.split():
            os.makedirs(os.path.dirname(os.path.join(tree, f)), exist_ok=True)
            shutil.copy(os.path.join("/repo", f), os.path.join(tree, f))
    rc, out = sh("git -C %s apply %s" % (tree, os.path.join(dst, "patch.diff")))
    if rc != 0:
        rc, out = sh("git -C %s apply -3 %s" % (tree, os.path.join(dst, "patch.diff")))
    assert rc == 0, out
    ENV["VERIF_REPO"] = tree
    try:
        for p in props:
            t0 = time.time()
            rc, out = sh("./check %s %s" % (p, tier), cwd=ROOT, timeout=7200)
            viol = [l for l in out.splitlines() if l.startswith("VIOLATION")]
            first = ""
            lines = out.splitlines()
            for i, l in enumerate(lines):
                if l.startswith("VIOLATION") and i + 1 < len(lines):
                    first = lines[i + 1].strip()[:400]
                    break
            meta.setdefault("detection", {})["%s %s" % (p, tier)] = dict(
                exit=rc, violations=len(viol), detected=(rc == 1 and len(viol) > 0), wall_s=round(time.time() - t0),
                first=first, at=time.strftime("%Y-%m-%d %H:%M"))
            print("%s: ./check %s %s -> exit %d, %d VIOLATION lines%s" % (name, p, tier, rc, len(viol), "" if rc in (0, 1) else "\n" + out[-1500:]))
            if first:
                print("   " + first[:300])
    finally:
        if inplace:
            sh("git -C /repo checkout -- .")
        else:
            sh("git -C /repo worktree remove --force %s" % tree)
    json.dump(meta, open(os.path.join(dst, "meta.json"), "w"), indent=1)
    return 0

if __name__ == "__main__":
    if sys.argv[1] == "verify":
        sys.exit(verify(sys.argv[2], sys.argv[3]))
    if sys.argv[1] == "run":
        tier = "quick"
        rest = sys.argv[3:]
        if rest and rest[0] in ("quick", "thorough"):
            tier = rest[0]; rest = rest[1:]
        inplace = "--inplace" in rest
        rest = [r for r in rest if r != "--inplace"]
        sys.exit(run(sys.argv[2], tier, rest, inplace))
