#!/usr/bin/env python3
"""Prints the markdown table of seeded changes and which check caught them (from seeded/*/meta.json)."""
import json, os, sys
ROOT = os.path.dirname(os.path.dirname(os.path.abspath(__file__)))
rows = []
for name in sorted(os.listdir(os.path.join(ROOT, "seeded"))):
    mp = os.path.join(ROOT, "seeded", name, "meta.json")
    if not os.path.exists(mp):
        continue
    m = json.load(open(mp))
    det = m.get("detection") or {}
    caught = sorted({k.split()[0] for k, v in det.items() if v.get("detected")})
    missed = sorted({k.split()[0] for k, v in det.items() if not v.get("detected")} - set(caught))
    first = ""
    for k, v in det.items():
        if v.get("detected") and v.get("first"):
            first = v["first"]
            break
    summ = (m.get("summary") or "").replace("\n", " ").replace("|", "/")
    needs = (m.get("needs") or "").replace("\n", " ").replace("|", "/")
    rows.append((name, m.get("property", name.split("-")[0]), summ[:120], needs[:120], ", ".join(caught) or "—", ", ".join(missed), first[:90].replace("|", "/")))
print("| seeded change | breaks | what was changed | needs to manifest | caught by (quick tier) | first report |")
print("|---|---|---|---|---|---|")
for r in rows:
    print("| %s | %s | %s | %s | %s%s | %s |" % (r[0], r[1], r[2], r[3], r[4], (" (not by: " + r[5] + ")") if r[5] else "", r[6]))
