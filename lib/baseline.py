#!/usr/bin/env python3
"""Run the repository's pinned test suite with the verif guard OFF and compare with
/root/.vp/BASELINE.json (stable_pass).  Exit 0 iff every stable test still passes."""
import json, os, subprocess, sys

def main():
    repo = sys.argv[1] if len(sys.argv) > 1 else "/repo"
    env = dict(os.environ, GOFLAGS="-mod=mod", GOPROXY="off", GOSUMDB="off", GOTOOLCHAIN="local")
    base = json.load(open("/root/.vp/BASELINE.json"))
    want = set(base["stable_pass"])
    p = subprocess.Popen(["go", "test", "-json", "-vet=off", "-count=1", "-timeout", "25m", "./..."],
                         cwd=repo, env=env, stdout=subprocess.PIPE, stderr=subprocess.DEVNULL, text=True)
    passed = set()
    failed = set()
    for line in p.stdout:
        try:
            ev = json.loads(line)
        except Exception:
            continue
        if "Test" not in ev:
            continue
        key = ev["Package"] + "::" + ev["Test"]
        if ev.get("Action") == "pass":
            passed.add(key)
        elif ev.get("Action") == "fail":
            failed.add(key)
    p.wait()
    missing = sorted(want - passed)
    # timing-sensitive tests can fail when the whole suite runs in parallel: retry those alone
    for attempt in range(2):
        if not missing:
            break
        bypkg = {}
        for m in missing:
            pkg, name = m.split("::", 1)
            bypkg.setdefault(pkg, set()).add(name.split("/")[0])
        for pkg, names in bypkg.items():
            rel = "./" + pkg.split("github.com/kardiachain/go-kardia/", 1)[1]
            q = subprocess.run(["go", "test", "-json", "-vet=off", "-count=1", "-run",
                                "^(" + "|".join(sorted(names)) + ")$", rel],
                               cwd=repo, env=env, stdout=subprocess.PIPE, stderr=subprocess.DEVNULL, text=True)
            for line in q.stdout.splitlines():
                try:
                    ev = json.loads(line)
                except Exception:
                    continue
                if "Test" in ev and ev.get("Action") == "pass":
                    passed.add(ev["Package"] + "::" + ev["Test"])
        missing = sorted(want - passed)
    print("baseline: stable=%d passed_now=%d failed_now=%d stable_missing=%d" %
          (len(want), len(passed), len(failed), len(missing)))
    for m in missing[:50]:
        print("  NOT PASSING:", m)
    sys.exit(1 if missing else 0)

if __name__ == "__main__":
    main()
