#!/bin/sh
# Offline setup: warm the Go build cache for the harness (with hooks enabled) and check the tools.
set -e
cd "$(dirname "$0")"
export GOFLAGS=-mod=mod GOPROXY=off GOSUMDB=off GOTOOLCHAIN=local
cp /repo/go.sum harness/go.sum
[ -f harness/go.sum.extra ] && cat harness/go.sum.extra >> harness/go.sum
(cd harness && go test -tags verif -vet=off -count=1 -run '^$' ./... >/dev/null)
java -cp /opt/veriftools/tla/tla2tools.jar tlc2.TLC -h >/dev/null 2>&1 || true
mkdir -p evidence replays
echo "setup ok"
