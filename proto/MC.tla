---- MODULE MC ----
EXTENDS MPT
\* bytes 00, 00 00, 00 01, 01, 10, 00 00 00 as nibble sequences with terminator
KeysDef == << <<0,0,16>>, <<0,0,0,0,16>>, <<0,0,0,1,16>>, <<0,1,16>>, <<1,0,16>>, <<0,0,0,0,0,0,16>> >>
====
