---- MODULE MPT ----
(* Pilot: geth-style Merkle Patricia trie structure (short / full / value nodes, terminator 16),
   insert and delete transcribed from trie/trie.go; canonical form = sorted insertion. *)
EXTENDS Integers, Sequences, FiniteSets, TLC, Json
CONSTANTS Keys,    \* sequence of keys; each key a nibble sequence ending with 16
          Vals, Depth
VARIABLES root, content, hist
NilN == [t |-> "nil"]
ValueN(v) == [t |-> "val", v |-> v]
Short(k, c) == [t |-> "short", k |-> k, c |-> c]
Full(ch) == [t |-> "full", ch |-> ch]
EmptyCh == [i \in 0..16 |-> NilN]
KIdx == 1..Len(Keys)

RECURSIVE PrefixLen(_, _)
PrefixLen(a, b) == IF a = <<>> \/ b = <<>> \/ Head(a) # Head(b) THEN 0 ELSE 1 + PrefixLen(Tail(a), Tail(b))
DropN(s, n) == SubSeq(s, n + 1, Len(s))
TakeN(s, n) == SubSeq(s, 1, n)

RECURSIVE Insert(_, _, _)
Insert(n, key, vn) ==
  IF key = <<>> THEN vn
  ELSE CASE n.t = "nil" -> Short(key, vn)
         [] n.t = "short" ->
              LET m == PrefixLen(key, n.k) IN
              IF m = Len(n.k) THEN Short(n.k, Insert(n.c, DropN(key, m), vn))
              ELSE LET ch1 == [EmptyCh EXCEPT ![n.k[m + 1]] = Insert(NilN, DropN(n.k, m + 1), n.c)]
                       ch2 == [ch1 EXCEPT ![key[m + 1]] = Insert(NilN, DropN(key, m + 1), vn)]
                   IN IF m = 0 THEN Full(ch2) ELSE Short(TakeN(key, m), Full(ch2))
         [] n.t = "full" -> Full([n.ch EXCEPT ![key[1]] = Insert(@, Tail(key), vn)])

RECURSIVE Delete(_, _)
\* returns [d |-> dirty, n |-> node]
Delete(n, key) ==
  CASE n.t = "nil" -> [d |-> FALSE, n |-> NilN]
    [] n.t = "val" -> [d |-> TRUE, n |-> NilN]
    [] n.t = "short" ->
         LET m == PrefixLen(key, n.k) IN
         IF m < Len(n.k) THEN [d |-> FALSE, n |-> n]
         ELSE IF m = Len(key) THEN [d |-> TRUE, n |-> NilN]
         ELSE LET r == Delete(n.c, DropN(key, Len(n.k))) IN
              IF ~r.d THEN [d |-> FALSE, n |-> n]
              ELSE IF r.n.t = "short" THEN [d |-> TRUE, n |-> Short(n.k \o r.n.k, r.n.c)]
              ELSE [d |-> TRUE, n |-> Short(n.k, r.n)]
    [] n.t = "full" ->
         LET r == Delete(n.ch[key[1]], Tail(key)) IN
         IF ~r.d THEN [d |-> FALSE, n |-> n]
         ELSE LET ch == [n.ch EXCEPT ![key[1]] = r.n]
                  live == {i \in 0..16 : ch[i].t # "nil"}
              IN IF r.n.t # "nil" \/ Cardinality(live) # 1 THEN [d |-> TRUE, n |-> Full(ch)]
                 ELSE LET pos == CHOOSE i \in live : TRUE IN
                      IF pos # 16 /\ ch[pos].t = "short"
                      THEN [d |-> TRUE, n |-> Short(<<pos>> \o ch[pos].k, ch[pos].c)]
                      ELSE [d |-> TRUE, n |-> Short(<<pos>>, ch[pos])]

RECURSIVE Get(_, _)
Get(n, key) ==
  CASE n.t = "nil" -> 0
    [] n.t = "val" -> IF key = <<>> THEN n.v ELSE 0
    [] n.t = "short" -> IF Len(key) < Len(n.k) \/ TakeN(key, Len(n.k)) # n.k THEN 0 ELSE Get(n.c, DropN(key, Len(n.k)))
    [] n.t = "full" -> IF key = <<>> THEN 0 ELSE Get(n.ch[key[1]], Tail(key))

\* canonical tree: insert the content in key-index order
RECURSIVE Build(_, _)
Build(c, i) == IF i = 0 THEN NilN
               ELSE LET t == Build(c, i - 1) IN IF c[i] = 0 THEN t ELSE Insert(t, Keys[i], ValueN(c[i]))
Canon(c) == Build(c, Len(Keys))

\* structure as a set of <<path, kind>> (what a NodeIterator sees)
RECURSIVE Paths(_, _)
Paths(n, p) ==
  CASE n.t = "nil" -> {}
    [] n.t = "val" -> {<<p, "leaf">>}
    [] n.t = "short" -> {<<p, "node">>} \cup Paths(n.c, p \o n.k)
    [] n.t = "full" -> {<<p, "node">>} \cup UNION {Paths(n.ch[i], p \o <<i>>) : i \in 0..16}

Init == root = NilN /\ content = [i \in KIdx |-> 0] /\ hist = <<>>
Update(i, v) == /\ root' = Insert(root, Keys[i], ValueN(v))
                /\ content' = [content EXCEPT ![i] = v]
                /\ hist' = Append(hist, [op |-> "put", k |-> i, v |-> v])
Del(i) == /\ root' = Delete(root, Keys[i]).n
          /\ content' = [content EXCEPT ![i] = 0]
          /\ hist' = Append(hist, [op |-> "del", k |-> i, v |-> 0])
Next == /\ Len(hist) < Depth
        /\ \E i \in KIdx : (\E v \in Vals : Update(i, v)) \/ Del(i)

Canonical == root = Canon(content)
GetOK == \A i \in KIdx : Get(root, Keys[i]) = content[i]
View == <<root, content>>
Dump == PrintT(ToJson([pre |-> hist, act |-> hist'[Len(hist')], content |-> content', paths |-> Paths(root', <<>>)]))
====
