---- MODULE StateDB ----
(* Pilot: observable semantics of kai/state.StateDB within one block (journal, finalise, commit). *)
EXTENDS Integers, Sequences, FiniteSets, TLC, Json
CONSTANTS Addrs, Depth
VARIABLES acct, refund, snaps, hist
\* acct[a] = [ex, bal, nonce, code, st, cst, sui, dirty, indb, dbal, dnonce, dcode, dst]
\*   ex: live object; st: current slot value; cst: committed view; sui: suicided mark;
\*   dirty: touched since last Finalise; d*: what the committed trie holds (after Commit)
Fresh == [ex |-> FALSE, bal |-> 0, nonce |-> 0, code |-> 0, st |-> 0, cst |-> 0, sui |-> FALSE, dirty |-> FALSE,
          pend |-> FALSE]
Init == acct = [a \in Addrs |-> Fresh] /\ refund = 0 /\ snaps = <<>> /\ hist = <<>>

Empty(x) == x.nonce = 0 /\ x.bal = 0 /\ x.code = 0
\* GetOrNewStateObject: create if not live (fresh object, dirty); committed view zero if something was there
Touch(x) == IF x.ex THEN x ELSE [Fresh EXCEPT !.ex = TRUE, !.dirty = TRUE, !.pend = x.pend]
Log(op, a, v) == hist' = Append(hist, [op |-> op, a |-> a, v |-> v])

AddBalance(a, n) ==
  /\ LET x == Touch(acct[a]) IN
     acct' = [acct EXCEPT ![a] = IF n = 0 THEN (IF Empty(x) THEN [x EXCEPT !.dirty = TRUE] ELSE x)
                                  ELSE [x EXCEPT !.bal = @ + n, !.dirty = TRUE]]
  /\ UNCHANGED <<refund, snaps>> /\ Log("addbal", a, n)
SubBalance(a) ==
  /\ acct[a].ex /\ acct[a].bal >= 1
  /\ acct' = [acct EXCEPT ![a].bal = @ - 1, ![a].dirty = TRUE]
  /\ UNCHANGED <<refund, snaps>> /\ Log("subbal", a, 1)
SetNonce(a, n) ==
  /\ acct' = [acct EXCEPT ![a] = [Touch(@) EXCEPT !.nonce = n, !.dirty = TRUE]]
  /\ UNCHANGED <<refund, snaps>> /\ Log("nonce", a, n)
SetCode(a, c) ==
  /\ acct' = [acct EXCEPT ![a] = [Touch(@) EXCEPT !.code = c, !.dirty = TRUE]]
  /\ UNCHANGED <<refund, snaps>> /\ Log("code", a, c)
SetState(a, v) ==
  /\ LET x == Touch(acct[a]) IN
     acct' = [acct EXCEPT ![a] = IF x.st = v THEN x ELSE [x EXCEPT !.st = v, !.dirty = TRUE]]
  /\ UNCHANGED <<refund, snaps>> /\ Log("state", a, v)
Suicide(a) ==
  /\ acct[a].ex
  /\ acct' = [acct EXCEPT ![a].sui = TRUE, ![a].bal = 0, ![a].dirty = TRUE]
  /\ UNCHANGED <<refund, snaps>> /\ Log("suicide", a, 0)
CreateAccount(a) ==
  /\ acct' = [acct EXCEPT ![a] = [Fresh EXCEPT !.ex = TRUE, !.dirty = TRUE, !.bal = IF acct[a].ex THEN acct[a].bal ELSE 0,
                                             !.pend = acct[a].pend]]
  /\ UNCHANGED <<refund, snaps>> /\ Log("create", a, 0)
AddRefund == refund' = refund + 1 /\ UNCHANGED <<acct, snaps>> /\ Log("refund", 0, 1)
Snapshot == /\ Len(snaps) < 2
            /\ snaps' = Append(snaps, [acct |-> acct, refund |-> refund])
            /\ UNCHANGED <<acct, refund>> /\ Log("snap", 0, Len(snaps) + 1)
Revert(i) == /\ i \in 1..Len(snaps)
             /\ acct' = snaps[i].acct /\ refund' = snaps[i].refund
             /\ snaps' = SubSeq(snaps, 1, i - 1) /\ Log("revert", 0, i)
Finalise(del) ==
  /\ acct' = [a \in Addrs |->
               LET x == acct[a] IN
               IF ~x.dirty \/ ~x.ex THEN [x EXCEPT !.dirty = FALSE]
               ELSE IF x.sui \/ (del /\ Empty(x)) THEN [Fresh EXCEPT !.pend = TRUE]
               ELSE [x EXCEPT !.cst = x.st, !.dirty = FALSE, !.pend = TRUE]]
  /\ refund' = 0 /\ snaps' = <<>> /\ Log("finalise", 0, IF del THEN 1 ELSE 0)

Next == /\ Len(hist) < Depth
        /\ \/ \E a \in Addrs : \/ \E n \in 0..1 : AddBalance(a, n)
                               \/ SubBalance(a) \/ \E n \in 0..1 : SetNonce(a, n)
                               \/ SetCode(a, 1) \/ \E v \in 0..1 : SetState(a, v)
                               \/ Suicide(a) \/ CreateAccount(a)
           \/ AddRefund \/ Snapshot \/ \E i \in 1..2 : Revert(i)
           \/ \E d \in BOOLEAN : Finalise(d)

Obs(x) == [ex |-> x.ex, bal |-> x.bal, nonce |-> x.nonce, code |-> x.code, st |-> x.st, cst |-> x.cst, sui |-> x.sui,
           empty |-> (~x.ex \/ Empty(x))]
View == <<acct, refund, snaps>>
Dump == PrintT(ToJson([pre |-> hist, act |-> hist'[Len(hist')], obs |-> [a \in Addrs |-> Obs(acct'[a])], refund |-> refund']))
====
