//go:build verif

package tx_pool

// VerifReset runs a pool reset against the chain's current state and waits for it.
func (pool *TxPool) VerifReset() { <-pool.requestReset(nil, nil) }
