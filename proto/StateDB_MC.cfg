CONSTANTS
  Addrs = {1, 2}
  Depth = 5
INIT Init
NEXT Next
VIEW View
ACTION_CONSTRAINT Dump
CHECK_DEADLOCK FALSE
