CONSTANTS
  Accts = {1, 2}
  MaxNonce = 2
  Prices = {1, 2}
  AccountQueue = 1
  Depth = 4
INIT Init
NEXT Next
VIEW View
INVARIANTS GapFree Affordable Disjoint
ACTION_CONSTRAINT Dump
CHECK_DEADLOCK FALSE
