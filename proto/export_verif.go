//go:build verif

package consensus

import (
	"github.com/kardiachain/go-kardia/types"
	cstypes "github.com/kardiachain/go-kardia/consensus/types"
	"github.com/kardiachain/go-kardia/lib/log"
	"github.com/kardiachain/go-kardia/lib/p2p"
	"time"
)

type VerifTimeout struct {
	Duration time.Duration
	Height   uint64
	Round    uint32
	Step     cstypes.RoundStepType
}

type verifTicker struct {
	sched func(VerifTimeout)
	tock  chan timeoutInfo
}

func (t *verifTicker) Start() error                  { return nil }
func (t *verifTicker) Stop() error                   { return nil }
func (t *verifTicker) Chan() <-chan timeoutInfo      { return t.tock }
func (t *verifTicker) SetLogger(log.Logger)          {}
func (t *verifTicker) ScheduleTimeout(ti timeoutInfo) {
	t.sched(VerifTimeout{ti.Duration, ti.Height, ti.Round, ti.Step})
}

func (cs *ConsensusState) VerifSetTicker(f func(VerifTimeout)) {
	cs.timeoutTicker = &verifTicker{f, make(chan timeoutInfo, 10)}
}
func (cs *ConsensusState) VerifFireTimeout(t VerifTimeout) {
	cs.timeoutTicker.(*verifTicker).tock <- timeoutInfo{t.Duration, t.Height, t.Round, t.Step}
}
func (cs *ConsensusState) VerifInjectPeer(m Message, peer p2p.ID) { cs.peerMsgQueue <- msgInfo{m, peer} }
func (cs *ConsensusState) VerifInjectInternal(m Message)          { cs.internalMsgQueue <- msgInfo{m, ""} }
func (cs *ConsensusState) VerifInternalLen() int                   { return len(cs.internalMsgQueue) }
func (cs *ConsensusState) VerifSetWAL(w WAL)                   { cs.wal = w }
func (cs *ConsensusState) VerifHandleMsg(m Message, peer p2p.ID) {
	cs.handleMsg(msgInfo{m, peer})
}
func (cs *ConsensusState) VerifHandleTimeout(t VerifTimeout) {
	cs.handleTimeout(timeoutInfo{t.Duration, t.Height, t.Round, t.Step}, cs.RoundState)
}
func (cs *ConsensusState) VerifDrainInternal() []Message {
	var out []Message
	for {
		select {
		case mi := <-cs.internalMsgQueue:
			out = append(out, mi.Msg)
		default:
			return out
		}
	}
}
func (cs *ConsensusState) VerifScheduleRound0() { cs.scheduleRound0(cs.GetRoundState()) }

func (cs *ConsensusState) VerifDone() <-chan struct{} { return cs.done }

// WAL helpers for the harness.
func VerifRepairWalFile(src, dst string) error { return repairWalFile(src, dst) }
func VerifTimeoutMsg(d time.Duration, h uint64, r uint32, s cstypes.RoundStepType) WALMessage {
	return timeoutInfo{d, h, r, s}
}
func VerifMsgInfo(m Message, peer p2p.ID) WALMessage { return msgInfo{m, peer} }

func (cs *ConsensusState) VerifCreateProposalBlock() (*types.Block, *types.PartSet) {
	return cs.createProposalBlock()
}
func (cs *ConsensusState) VerifValidate(b *types.Block) error {
	return cs.blockExec.ValidateBlock(cs.state, b)
}
