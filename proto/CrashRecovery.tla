---- MODULE CrashRecovery ----
(* Pilot: durable-write order of one validator per height, crash anywhere, recovery as implemented
   (no handshake, no last-sign state).  Which crash windows allow a conflicting signature? *)
EXTENDS Integers, Sequences, FiniteSets, TLC
CONSTANTS MaxH, Archive   \* Archive = TrieDirtyDisabled (flush every block)
VARIABLES pc, h, wal, store, apphash, flushed, head, cstate,   \* durable except pc,h
          restored,   \* votes of the current height known to the running node (volatile)
          published,  \* history: (height, type, value) made visible before any crash
          signedNow,  \* history: last signature request
          crashedAt   \* history: list of crash positions <<h, pc>>
vars == <<pc, h, wal, store, apphash, flushed, head, cstate, restored, published, signedNow, crashedAt>>
Types == {"prevote", "precommit"}
Steps == <<"signPV", "syncPV", "signPC", "syncPC", "saveBlock", "walEnd", "blockBatch", "trieFlush", "writeHead", "saveCState">>

Init == /\ pc = 1 /\ h = 1 /\ wal = <<[k |-> "end", h |-> 0]>> /\ store = 0 /\ apphash = {0}
        /\ flushed = {0} /\ head = 0 /\ cstate = {0} /\ restored = {} /\ published = {}
        /\ signedNow = <<>> /\ crashedAt = <<>>

Val(t) == IF \E x \in restored : x[1] = t THEN (CHOOSE x \in restored : x[1] = t)[2] ELSE "free"
\* sign a vote of type t: the restored value if WAL replay brought one back, otherwise anything
Sign(t) == \E v \in {"B", "nil"} :
             /\ (Val(t) = "free" \/ Val(t) = v)
             /\ signedNow' = <<h, t, v>>
             /\ restored' = {x \in restored : x[1] # t} \cup {<<t, v>>}
Sync(t) == LET v == Val(t) IN
             /\ wal' = Append(wal, [k |-> t, h |-> h, v |-> v])
             /\ published' = published \cup {<<h, t, v>>}

Step ==
  /\ h <= MaxH
  /\ LET s == Steps[pc] IN
     /\ CASE s = "signPV" -> Sign("prevote") /\ UNCHANGED <<wal, published, store, apphash, flushed, head, cstate>>
          [] s = "syncPV" -> Sync("prevote") /\ UNCHANGED <<signedNow, restored, store, apphash, flushed, head, cstate>>
          [] s = "signPC" -> Sign("precommit") /\ UNCHANGED <<wal, published, store, apphash, flushed, head, cstate>>
          [] s = "syncPC" -> Sync("precommit") /\ UNCHANGED <<signedNow, restored, store, apphash, flushed, head, cstate>>
          [] s = "saveBlock" -> store' = (IF store < h THEN h ELSE store) /\ UNCHANGED <<wal, published, signedNow, restored, apphash, flushed, head, cstate>>
          [] s = "walEnd" -> wal' = Append(wal, [k |-> "end", h |-> h]) /\ UNCHANGED <<published, signedNow, restored, store, apphash, flushed, head, cstate>>
          [] s = "blockBatch" -> apphash' = apphash \cup {h} /\ UNCHANGED <<wal, published, signedNow, restored, store, flushed, head, cstate>>
          [] s = "trieFlush" -> flushed' = (IF Archive THEN flushed \cup {h} ELSE flushed) /\ UNCHANGED <<wal, published, signedNow, restored, store, apphash, head, cstate>>
          [] s = "writeHead" -> head' = h /\ UNCHANGED <<wal, published, signedNow, restored, store, apphash, flushed, cstate>>
          [] s = "saveCState" -> cstate' = cstate \cup {h} /\ UNCHANGED <<wal, published, signedNow, store, apphash, flushed, head>>
     /\ IF pc = Len(Steps) THEN pc' = 1 /\ h' = h + 1 /\ restored' = {} ELSE pc' = pc + 1 /\ h' = h
  /\ UNCHANGED crashedAt

MaxOf(S) == CHOOSE x \in S : \A y \in S : y <= x
HasEnd(w, k) == \E i \in 1..Len(w) : w[i].k = "end" /\ w[i].h = k
\* process dies: volatile state lost; recovery as in mainchain/backend.go + OnStart
CrashRecover ==
  /\ h <= MaxH /\ Len(crashedAt) < 1
  /\ LET head1 == IF head \in flushed THEN head ELSE MaxOf({x \in flushed : x <= head})   \* setHeadBeyondRoot
         st == IF head1 \in cstate THEN head1 ELSE 0                                      \* Load() or genesis
         hh == st + 1
         replay == ~HasEnd(wal, hh) /\ HasEnd(wal, hh - 1)
         votes == {<<wal[i].k, wal[i].v>> : i \in {j \in 1..Len(wal) : wal[j].k \in Types /\ wal[j].h = hh}}
     IN /\ head' = head1
        /\ h' = hh /\ pc' = 1
        /\ restored' = IF replay THEN votes ELSE {}
        /\ crashedAt' = Append(crashedAt, <<h, Steps[pc], "resume at", hh, "replay", replay>>)
  /\ UNCHANGED <<wal, store, apphash, flushed, cstate, published, signedNow>>

Next == Step \/ CrashRecover
NoConflictingSignature ==
  signedNow = <<>> \/ ~(\E x \in published : x[1] = signedNow[1] /\ x[2] = signedNow[2] /\ x[3] # signedNow[3])
====
