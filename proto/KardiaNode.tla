---- MODULE KardiaNode ----
(* Pilot transcription of consensus/state.go: one input of receiveRoutine = one call of
   HandleMsg / HandleTimeout on the context c = [s |-> node state, out |-> outputs]. *)
EXTENDS Integers, Sequences, FiniteSets, TLC

CONSTANTS N,          \* number of validators, indices 1..N (the order of ValidatorSet.Validators)
          Power,      \* sequence of powers
          ProposerOf, \* [h -> [r -> index]] proposer table supplied by the trace header
          WaitForTxs  \* cfg.WaitForTxs()

Idx == 1..N
NoB == "none"      \* no block / no vote
NilB == "nil"      \* vote for nil
RECURSIVE SumP(_)
SumP(S) == IF S = {} THEN 0 ELSE LET i == CHOOSE x \in S : TRUE IN Power[i] + SumP(S \ {i})
Total == SumP(Idx)
Two3(p) == 3 * p > 2 * Total

\* steps
NewHeight == 1  NewRound == 2  Propose == 3  Prevote == 4  PrevoteWait == 5
Precommit == 6  PrecommitWait == 7  Commit == 8
PrevoteT == 1  PrecommitT == 2

\* ---------------- vote sets (no peer-maj tracking in the pilot) ----------------
EmptyVS == [i \in Idx |-> NoB]
VSum(vs) == SumP({i \in Idx : vs[i] # NoB})
VFor(vs, b) == SumP({i \in Idx : vs[i] = b})
VBlocks(vs) == {vs[i] : i \in Idx} \ {NoB}
HasMaj(vs) == \E b \in VBlocks(vs) : Two3(VFor(vs, b))
Maj(vs) == IF HasMaj(vs) THEN CHOOSE b \in VBlocks(vs) : Two3(VFor(vs, b)) ELSE NoB
HasAny(vs) == Two3(VSum(vs))
EmptyRVS == [pv |-> EmptyVS, pc |-> EmptyVS]

\* ---------------- node state ----------------
NoProposal == [has |-> FALSE, r |-> 0, pol |-> 0, bid |-> NoB]
NoParts == [has |-> FALSE, bid |-> NoB, done |-> FALSE]

InitNode(me, h) ==
  [ me |-> me, h |-> h, r |-> 1, step |-> NewHeight,
    proposal |-> NoProposal, pblock |-> NoB, pparts |-> NoParts,
    lockedR |-> 0, lockedB |-> NoB, validR |-> 0, validB |-> NoB,
    rounds |-> {1}, votes |-> [r \in {1} |-> EmptyRVS], catchup |-> <<>>,
    commitR |-> 0, lastCommit |-> EmptyVS, hasLast |-> FALSE, ttp |-> FALSE,
    storeH |-> h - 1 ]

Ctx(s) == [s |-> s, out |-> <<>>]
Emit(c, o) == [c EXCEPT !.out = Append(@, o)]
SetS(c, s) == [c EXCEPT !.s = s]

RVS(s, r) == IF r \in s.rounds THEN s.votes[r] ELSE EmptyRVS
PV(s, r) == RVS(s, r).pv
PC(s, r) == RVS(s, r).pc
IsVal(s) == s.me \in Idx
Proposer(s, r) == ProposerOf[s.h][r]

\* HeightVoteSet.SetRound(round): creates rounds hvs.round-1 .. round
SetRound(s, upto) ==
  LET new == {r \in 1..upto : r \notin s.rounds}
  IN [s EXCEPT !.rounds = @ \cup new,
               !.votes = [r \in (s.rounds \cup new) |-> IF r \in s.rounds THEN s.votes[r] ELSE EmptyRVS]]

IsProposalComplete(s) ==
  /\ s.proposal.has /\ s.pblock # NoB
  /\ \/ s.proposal.pol < 1
     \/ HasMaj(PV(s, s.proposal.pol))

ScheduleTimeout(c, h, r, step) == Emit(c, [o |-> "timeout", h |-> h, r |-> r, step |-> step])

\* signAddVote
SignAddVote(c, type, b) ==
  IF ~IsVal(c.s) THEN c
  ELSE Emit(c, [o |-> "vote", type |-> type, h |-> c.s.h, r |-> c.s.r, bid |-> b, i |-> c.s.me])

\* ---------------- finalizeCommit / updateToState ----------------
FinalizeCommit(c, h) ==
  LET s == c.s IN
  IF s.h # h \/ s.step # Commit THEN c
  ELSE LET b == Maj(PC(s, s.commitR))
           c1 == IF s.storeH < h THEN Emit(c, [o |-> "save", h |-> h, bid |-> b]) ELSE c
           c2 == Emit(c1, [o |-> "apply", h |-> h, bid |-> b])
           s2 == [InitNode(s.me, h + 1) EXCEPT !.lastCommit = PC(s, s.commitR), !.hasLast = TRUE, !.storeH = h]
       IN ScheduleTimeout(SetS(c2, s2), h + 1, 1, NewHeight)

TryFinalizeCommit(c, h) ==
  LET s == c.s
      b == Maj(PC(s, s.commitR))
  IN IF b = NoB \/ b = NilB THEN c
     ELSE IF s.pblock # b THEN c
     ELSE FinalizeCommit(c, h)

EnterCommit(c, h, cr) ==
  LET s == c.s IN
  IF s.h # h \/ Commit <= s.step THEN c
  ELSE LET b == Maj(PC(s, cr))
           s1 == IF s.lockedB = b /\ b # NoB THEN [s EXCEPT !.pblock = s.lockedB, !.pparts = [has |-> TRUE, bid |-> s.lockedB, done |-> TRUE]] ELSE s
           s2 == IF s1.pblock # b /\ ~(s1.pparts.has /\ s1.pparts.bid = b)
                 THEN [s1 EXCEPT !.pblock = NoB, !.pparts = [has |-> TRUE, bid |-> b, done |-> FALSE]] ELSE s1
           s3 == [s2 EXCEPT !.step = Commit, !.commitR = cr]
       IN TryFinalizeCommit(SetS(c, s3), h)

EnterPrecommitWait(c, h, r) ==
  LET s == c.s IN
  IF s.h # h \/ r # s.r \/ s.ttp THEN c
  ELSE LET c1 == ScheduleTimeout(c, h, r, PrecommitWait)
       IN SetS(c1, [s EXCEPT !.ttp = TRUE])

EnterPrecommit(c, h, r) ==
  LET s == c.s IN
  IF s.h # h \/ r < s.r \/ (s.r = r /\ Precommit <= s.step) THEN c
  ELSE
    LET pv == PV(s, r)
        b == Maj(pv)
        done(cc) == SetS(cc, [cc.s EXCEPT !.r = r, !.step = Precommit])
    IN IF b = NoB THEN done(SignAddVote(c, PrecommitT, NilB))
       ELSE IF b = NilB THEN
            done(SignAddVote(SetS(c, [s EXCEPT !.lockedR = 0, !.lockedB = NoB]), PrecommitT, NilB))
       ELSE IF s.lockedB = b THEN
            done(SignAddVote(SetS(c, [s EXCEPT !.lockedR = r]), PrecommitT, b))
       ELSE IF s.pblock = b THEN
            done(SignAddVote(SetS(c, [s EXCEPT !.lockedR = r, !.lockedB = b]), PrecommitT, b))
       ELSE LET s1 == [s EXCEPT !.lockedR = 0, !.lockedB = NoB]
                s2 == IF ~(s1.pparts.has /\ s1.pparts.bid = b)
                      THEN [s1 EXCEPT !.pblock = NoB, !.pparts = [has |-> TRUE, bid |-> b, done |-> FALSE]] ELSE s1
            IN done(SignAddVote(SetS(c, s2), PrecommitT, NilB))

EnterPrevoteWait(c, h, r) ==
  LET s == c.s IN
  IF s.h # h \/ r < s.r \/ (s.r = r /\ PrevoteWait <= s.step) THEN c
  ELSE LET c1 == ScheduleTimeout(c, h, r, PrevoteWait)
       IN SetS(c1, [s EXCEPT !.r = r, !.step = PrevoteWait])

DoPrevote(c) ==
  LET s == c.s IN
  IF s.lockedB # NoB THEN SignAddVote(c, PrevoteT, s.lockedB)
  ELSE IF s.pblock = NoB THEN SignAddVote(c, PrevoteT, NilB)
  ELSE SignAddVote(c, PrevoteT, s.pblock)     \* pilot: every proposed block is valid

EnterPrevote(c, h, r) ==
  LET s == c.s IN
  IF s.h # h \/ r < s.r \/ (s.r = r /\ Prevote <= s.step) THEN c
  ELSE LET c1 == DoPrevote(c)
       IN SetS(c1, [c1.s EXCEPT !.r = r, !.step = Prevote])

\* newBid: id of the block this node creates if it has to (bound from the trace)
DecideProposal(c, h, r, newBid) ==
  LET s == c.s
      b == IF s.validB # NoB THEN s.validB ELSE newBid
      c1 == Emit(c, [o |-> "proposal", h |-> h, r |-> r, pol |-> s.validR, bid |-> b, i |-> s.me])
  IN Emit(c1, [o |-> "part", h |-> h, r |-> r, bid |-> b])

EnterPropose(c, h, r, newBid) ==
  LET s == c.s IN
  IF s.h # h \/ r < s.r \/ (s.r = r /\ Propose <= s.step) THEN c
  ELSE LET c1 == ScheduleTimeout(c, h, r, Propose)
           c2 == IF IsVal(s) /\ Proposer(s, r) = s.me THEN DecideProposal(c1, h, r, newBid) ELSE c1
           c3 == SetS(c2, [c2.s EXCEPT !.r = r, !.step = Propose])
       IN IF IsProposalComplete(c3.s) THEN EnterPrevote(c3, h, c3.s.r) ELSE c3

EnterNewRound(c, h, r, newBid) ==
  LET s == c.s IN
  IF s.h # h \/ r < s.r \/ (s.r = r /\ s.step # NewHeight) THEN c
  ELSE LET s1 == [s EXCEPT !.r = r, !.step = NewRound, !.ttp = FALSE,
                           !.proposal = IF r = 1 THEN @ ELSE NoProposal,
                           !.pblock = IF r = 1 THEN @ ELSE NoB,
                           !.pparts = IF r = 1 THEN @ ELSE NoParts]
           s2 == SetRound(s1, r + 1)
           c1 == SetS(c, s2)
       IN IF WaitForTxs /\ r = 1 THEN ScheduleTimeout(c1, h, r, NewRound)
          ELSE EnterPropose(c1, h, r, newBid)

\* ---------------- inputs ----------------
SetProposal(c, p) ==
  LET s == c.s IN
  IF s.proposal.has THEN c
  ELSE IF p.h # s.h \/ p.r # s.r THEN c
  ELSE IF ~p.sigOK \/ p.i # Proposer(s, s.r) THEN c
  ELSE SetS(c, [s EXCEPT !.proposal = [has |-> TRUE, r |-> p.r, pol |-> p.pol, bid |-> p.bid],
                         !.pparts = IF s.pparts.has THEN @ ELSE [has |-> TRUE, bid |-> p.bid, done |-> FALSE]])

AddProposalBlockPart(c, m) ==
  LET s == c.s IN
  IF s.h # m.h THEN c
  ELSE IF ~s.pparts.has THEN c
  ELSE IF s.pparts.done \/ m.bid # s.pparts.bid THEN c
  ELSE
    LET s1 == [s EXCEPT !.pparts.done = TRUE, !.pblock = m.bid]
        pv == PV(s1, s1.r)
        b == Maj(pv)
        has23 == b # NoB
        s2 == IF has23 /\ b # NilB /\ s1.validR < s1.r /\ s1.pblock = b
              THEN [s1 EXCEPT !.validR = s1.r, !.validB = s1.pblock] ELSE s1
        c2 == SetS(c, s2)
    IN IF s2.step <= Propose /\ IsProposalComplete(s2)
       THEN LET c3 == EnterPrevote(c2, s2.h, s2.r)
            IN IF has23 THEN EnterPrecommit(c3, s2.h, s2.r) ELSE c3
       ELSE IF s2.step = Commit THEN TryFinalizeCommit(c2, s2.h)
       ELSE c2

\* HeightVoteSet.AddVote + VoteSet.AddVote (first vote wins, conflict reported, no peer-maj)
AddToVS(vs, v) == IF vs[v.i] = NoB THEN [added |-> TRUE, vs |-> [vs EXCEPT ![v.i] = v.bid]]
                  ELSE [added |-> FALSE, vs |-> vs]

AddVote(c, v, peer, newBid) ==
  LET s == c.s IN
  IF v.h + 1 = s.h /\ v.type = PrecommitT THEN
     IF s.step # NewHeight \/ ~s.hasLast THEN c
     ELSE LET res == AddToVS(s.lastCommit, v) IN SetS(c, [s EXCEPT !.lastCommit = res.vs])
  ELSE IF v.h # s.h THEN c
  ELSE
    LET known == v.r \in s.rounds
        ncatch == Len(SelectSeq(s.catchup, LAMBDA x : x = peer))
    IN IF ~known /\ ncatch >= 2 THEN c
       ELSE
         LET s0 == IF known THEN s
                   ELSE [s EXCEPT !.rounds = @ \cup {v.r},
                                  !.votes = [r \in (s.rounds \cup {v.r}) |-> IF r \in s.rounds THEN s.votes[r] ELSE EmptyRVS],
                                  !.catchup = Append(@, peer)]
             cur == IF v.type = PrevoteT THEN s0.votes[v.r].pv ELSE s0.votes[v.r].pc
             res == AddToVS(cur, v)
         IN IF ~res.added THEN SetS(c, s0)
            ELSE
              LET s1 == IF v.type = PrevoteT THEN [s0 EXCEPT !.votes[v.r].pv = res.vs]
                                             ELSE [s0 EXCEPT !.votes[v.r].pc = res.vs]
                  h == s1.h
              IN IF v.type = PrevoteT THEN
                   LET pv == res.vs
                       b == Maj(pv)
                       \* unlock
                       s2 == IF b # NoB /\ s1.lockedB # NoB /\ s1.lockedR < v.r /\ v.r <= s1.r /\ s1.lockedB # b
                             THEN [s1 EXCEPT !.lockedR = 0, !.lockedB = NoB] ELSE s1
                       \* valid block update
                       s3 == IF b # NoB /\ b # NilB /\ s2.validR < v.r /\ v.r = s2.r
                             THEN LET t1 == IF s2.pblock = b THEN [s2 EXCEPT !.validR = v.r, !.validB = s2.pblock]
                                            ELSE [s2 EXCEPT !.pblock = NoB]
                                  IN IF ~(t1.pparts.has /\ t1.pparts.bid = b)
                                     THEN [t1 EXCEPT !.pparts = [has |-> TRUE, bid |-> b, done |-> FALSE]] ELSE t1
                             ELSE s2
                       c3 == SetS(c, s3)
                   IN IF s3.r < v.r /\ HasAny(pv) THEN EnterNewRound(c3, h, v.r, newBid)
                      ELSE IF s3.r = v.r /\ Prevote <= s3.step THEN
                           IF b # NoB /\ (IsProposalComplete(s3) \/ b = NilB) THEN EnterPrecommit(c3, h, v.r)
                           ELSE IF HasAny(pv) THEN EnterPrevoteWait(c3, h, v.r)
                           ELSE c3
                      ELSE IF s3.proposal.has /\ 1 <= s3.proposal.pol /\ s3.proposal.pol = v.r THEN
                           IF IsProposalComplete(s3) THEN EnterPrevote(c3, h, s3.r) ELSE c3
                      ELSE c3
                 ELSE
                   LET pc == res.vs
                       b == Maj(pc)
                       c1 == SetS(c, s1)
                   IN IF b # NoB THEN
                        LET c2 == EnterNewRound(c1, h, v.r, newBid)
                            c3 == EnterPrecommit(c2, h, v.r)
                        IN IF b # NilB THEN EnterCommit(c3, h, v.r)
                           ELSE EnterPrecommitWait(c3, h, v.r)
                      ELSE IF s1.r <= v.r /\ HasAny(pc) THEN
                        EnterPrecommitWait(EnterNewRound(c1, h, v.r, newBid), h, v.r)
                      ELSE c1

HandleMsg(s, m, newBid) ==
  LET c == Ctx(s) IN
  CASE m.k = "proposal" -> SetProposal(c, m)
    [] m.k = "part" -> AddProposalBlockPart(c, m)
    [] m.k = "vote" -> AddVote(c, m, m.peer, newBid)

HandleTimeout(s, ti, newBid) ==
  LET c == Ctx(s) IN
  IF ti.h # s.h \/ ti.r < s.r \/ (ti.r = s.r /\ ti.step < s.step) THEN c
  ELSE CASE ti.step = NewHeight -> EnterNewRound(c, ti.h, 1, newBid)
         [] ti.step = NewRound -> EnterPropose(c, ti.h, 1, newBid)
         [] ti.step = Propose -> EnterPrevote(c, ti.h, ti.r)
         [] ti.step = PrevoteWait -> EnterPrecommit(c, ti.h, ti.r)
         [] ti.step = PrecommitWait -> EnterNewRound(EnterPrecommit(c, ti.h, ti.r), ti.h, ti.r + 1, newBid)
====
