---- MODULE KNTrace ----
EXTENDS Integers, Sequences, FiniteSets, TLC, Json
Trace == ndJsonDeserialize("trace.ndjson")
Hdr == Trace[1]
NN == Hdr.n
VARIABLES st, l, hw
K == INSTANCE KardiaNode WITH N <- NN, Power <- Hdr.power, ProposerOf <- Hdr.prop, WaitForTxs <- FALSE

Nodes == 1..NN
Init == /\ st = [n \in Nodes |-> K!InitNode(Hdr.me[n], 1)]
        /\ l = 2 /\ hw = 1

MaxOf(S) == CHOOSE x \in S : \A y \in S : y <= x
Proj(s) ==
  [ h |-> s.h, r |-> s.r, step |-> s.step, hasProp |-> s.proposal.has, pblock |-> s.pblock,
    pparts |-> IF s.pparts.has THEN "set" ELSE "none",
    lockedR |-> s.lockedR, lockedB |-> s.lockedB, validR |-> s.validR, validB |-> s.validB,
    commitR |-> s.commitR, ttp |-> s.ttp,
    votes |-> [r \in 1..MaxOf(s.rounds) |-> [pv |-> K!PV(s, r), pc |-> K!PC(s, r)]] ]

IsVoteOut(o) == o.o \in {"vote", "proposal", "part"}
MsgOuts(out) == SelectSeq(out, IsVoteOut)
TimeOuts(out) == SelectSeq(out, LAMBDA o : o.o = "timeout")

Step ==
  /\ l <= Len(Trace)
  /\ LET e == Trace[l]
         s == st[e.n]
         res == IF e.k = "timeout" THEN K!HandleTimeout(s, e.ti, e.newBid)
                ELSE K!HandleMsg(s, e.m, e.newBid)
     IN /\ st' = [st EXCEPT ![e.n] = res.s]
        /\ Proj(res.s) = e.post
        /\ MsgOuts(res.out) = e.out
        /\ TimeOuts(res.out) = e.touts
  /\ l' = l + 1
  /\ hw' = l

Next == Step
\* diagnostic: on stuck, print what the spec computed
Diag == IF l <= Len(Trace) THEN
          LET e == Trace[l]
              s == st[e.n]
              res == IF e.k = "timeout" THEN K!HandleTimeout(s, e.ti, e.newBid) ELSE K!HandleMsg(s, e.m, e.newBid)
          IN PrintT(<<"STUCK at line", l, "spec post", Proj(res.s), "trace post", e.post, "spec out", res.out, "trace out", e.out, e.touts>>)
        ELSE TRUE
Accepted == IF TLCGet("stats").diameter = Len(Trace) THEN TRUE ELSE PrintT(<<"REJECTED: matched prefix", TLCGet("stats").diameter - 1, "of", Len(Trace) - 1>>) /\ FALSE
====
