INIT Init
NEXT Next
POSTCONDITION Accepted
CHECK_DEADLOCK FALSE
