CONSTANTS
  NN = 4
  PowerC <- PowerDef
  PropC <- PropDef
  Byz = 4
  MaxRound = 3
  Depth = 150
  Budget = 5
INIT Init
NEXT Next
INVARIANT NeverUnlock
CHECK_DEADLOCK FALSE
