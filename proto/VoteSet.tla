---- MODULE VoteSet ----
EXTENDS Integers, Sequences, FiniteSets, TLC, Json
CONSTANTS Power,      \* sequence of voting powers, index 1..N
          Blocks,     \* set of block ids (strings), "nil" is one of them
          Peers
N == Len(Power)
Idx == 1..N
None == "none"
RECURSIVE SumP(_)
SumP(S) == IF S = {} THEN 0 ELSE LET i == CHOOSE x \in S : TRUE IN Power[i] + SumP(S \ {i})
Total == SumP(Idx)
Quorum == (Total * 2) \div 3 + 1

VARIABLES votes,    \* Idx -> [b, sv] canonical vote (b = None if absent)
          sum, maj23,
          byBlock,  \* Blocks -> [tracked, peerMaj, voters: Idx -> sv (0 = none), sum]
          peerMaj,  \* Peers -> block or None
          hist
vars == <<votes, sum, maj23, byBlock, peerMaj, hist>>

NoVote == [b |-> None, sv |-> 0]
Init == /\ votes = [i \in Idx |-> NoVote]
        /\ sum = 0 /\ maj23 = None
        /\ byBlock = [b \in Blocks |-> [tracked |-> FALSE, peerMaj |-> FALSE, voters |-> [i \in Idx |-> 0], sum |-> 0]]
        /\ peerMaj = [p \in Peers |-> None]
        /\ hist = <<>>

\* getVote: existing vote for (i, b)
Existing(i, b) == IF votes[i].b = b THEN votes[i].sv
                  ELSE IF byBlock[b].tracked THEN byBlock[b].voters[i] ELSE 0

\* result classes: "added", "dup", "nondet", "conflict_added", "conflict_dropped", "invalid"
AddValid(i, b, sv) ==
  LET ex == Existing(i, b) IN
  IF ex # 0 THEN
     /\ UNCHANGED <<votes, sum, maj23, byBlock, peerMaj>>
     /\ hist' = Append(hist, [op |-> "add", i |-> i, b |-> b, sv |-> sv, valid |-> TRUE, res |-> IF ex = sv THEN "dup" ELSE "nondet"])
  ELSE
    LET conflicting == votes[i].b # None
        replace == conflicting /\ maj23 = b
        votes1 == IF ~conflicting \/ replace THEN [votes EXCEPT ![i] = [b |-> b, sv |-> sv]] ELSE votes
        sum1 == IF ~conflicting THEN sum + Power[i] ELSE sum
        bb == byBlock[b]
        drop == conflicting /\ ~(bb.tracked /\ bb.peerMaj)
    IN IF drop THEN
         /\ votes' = votes1 /\ sum' = sum1 /\ UNCHANGED <<maj23, byBlock, peerMaj>>
         /\ hist' = Append(hist, [op |-> "add", i |-> i, b |-> b, sv |-> sv, valid |-> TRUE, res |-> "conflict_dropped"])
       ELSE
         LET orig == bb.sum
             bb1 == [bb EXCEPT !.tracked = TRUE, !.voters[i] = sv, !.sum = @ + Power[i]]
             crossed == orig < Quorum /\ Quorum <= bb1.sum /\ maj23 = None
             votes2 == IF crossed THEN [j \in Idx |-> IF bb1.voters[j] # 0 THEN [b |-> b, sv |-> bb1.voters[j]] ELSE votes1[j]] ELSE votes1
         IN /\ votes' = votes2 /\ sum' = sum1
            /\ maj23' = IF crossed THEN b ELSE maj23
            /\ byBlock' = [byBlock EXCEPT ![b] = bb1]
            /\ UNCHANGED peerMaj
            /\ hist' = Append(hist, [op |-> "add", i |-> i, b |-> b, sv |-> sv, valid |-> TRUE, res |-> IF conflicting THEN "conflict_added" ELSE "added"])

AddInvalid(i, b, kind) ==
  /\ UNCHANGED <<votes, sum, maj23, byBlock, peerMaj>>
  /\ hist' = Append(hist, [op |-> "add", i |-> i, b |-> b, sv |-> 1, valid |-> FALSE, kind |-> kind, res |-> "invalid"])

SetPeerMaj(p, b) ==
  /\ IF peerMaj[p] # None THEN
        /\ UNCHANGED <<peerMaj, byBlock>>
        /\ hist' = Append(hist, [op |-> "peermaj", p |-> p, b |-> b, res |-> IF peerMaj[p] = b THEN "ok" ELSE "err"])
     ELSE
        /\ peerMaj' = [peerMaj EXCEPT ![p] = b]
        /\ byBlock' = [byBlock EXCEPT ![b].tracked = TRUE, ![b].peerMaj = TRUE]
        /\ hist' = Append(hist, [op |-> "peermaj", p |-> p, b |-> b, res |-> "ok"])
  /\ UNCHANGED <<votes, sum, maj23>>

Next == \/ \E i \in Idx, b \in Blocks, sv \in {1, 2} : AddValid(i, b, sv)
        \/ \E i \in Idx, b \in Blocks, k \in {"sig", "addr", "round"} : AddInvalid(i, b, k)
        \/ \E p \in Peers, b \in Blocks : SetPeerMaj(p, b)

\* ---------- properties ----------
ValidVoters(b) == {i \in Idx : byBlock[b].tracked /\ byBlock[b].voters[i] # 0}
QuorumSound == maj23 # None => 3 * SumP(ValidVoters(maj23)) > 2 * Total
CountedOnce == sum = SumP({i \in Idx : votes[i].b # None})
ByBlockSum == \A b \in Blocks : byBlock[b].sum = SumP({i \in Idx : byBlock[b].voters[i] # 0})
AnySound == (sum > (Total * 2) \div 3) <=> (3 * sum > 2 * Total)
QuorumExact == \A b \in Blocks : (byBlock[b].sum >= Quorum) <=> (3 * byBlock[b].sum > 2 * Total)
MajVotesCanonical == maj23 # None => \A i \in ValidVoters(maj23) : votes[i].b = maj23

View == <<votes, sum, maj23, byBlock, peerMaj>>
Obs == [votes |-> votes, sum |-> sum, maj23 |-> maj23, byBlock |-> byBlock, peerMaj |-> peerMaj]
Dump == PrintT(ToJson([pre |-> hist, act |-> hist'[Len(hist')], post |-> [votes |-> votes', sum |-> sum', maj23 |-> maj23', byBlock |-> byBlock', peerMaj |-> peerMaj']]))
====
