---- MODULE B ----
EXTENDS Integers, FiniteSets, TLC
CONSTANTS Corr, NByz, MaxRound, Blocks, SigBindsType
Rounds == 1..MaxRound
Nil == "nil"
None == "none"
N == Cardinality(Corr) + NByz
Two3(S) == 3 * (Cardinality(S) + NByz) > 2 * N
VARIABLES pv, pc, lockedR, lockedV, pos
vars == <<pv, pc, lockedR, lockedV, pos>>
\* pos[p] = 2*r-1 after prevote at r... position counter: next allowed slot index; slot(r,prevote)=2r-1, slot(r,precommit)=2r
Init == /\ pv = [p \in Corr |-> [r \in Rounds |-> None]]
        /\ pc = [p \in Corr |-> [r \in Rounds |-> None]]
        /\ lockedR = [p \in Corr |-> 0] /\ lockedV = [p \in Corr |-> None]
        /\ pos = [p \in Corr |-> 0]
PVFor(r, v) == {q \in Corr : pv[q][r] = v}
PCFor(r, v) == {q \in Corr : pc[q][r] = v \/ (~SigBindsType /\ v # None /\ pv[q][r] = v)}
Polka(r, v) == Two3(PVFor(r, v))
CommitQ(r, v) == Two3(PCFor(r, v))
\* unlock: polka for other value at round in (lockedR, r]
CanUnlock(p, r) == lockedV[p] # None /\ \E r2 \in Rounds, w \in Blocks \cup {Nil} :
                      lockedR[p] < r2 /\ r2 <= r /\ w # lockedV[p] /\ Polka(r2, w)
Prevote(p, r, v) ==
  /\ pos[p] < 2*r - 1
  /\ \/ lockedV[p] = None /\ UNCHANGED <<lockedR, lockedV>>
     \/ lockedV[p] # None /\ v = lockedV[p] /\ UNCHANGED <<lockedR, lockedV>>
     \/ CanUnlock(p, r) /\ lockedR' = [lockedR EXCEPT ![p] = 0] /\ lockedV' = [lockedV EXCEPT ![p] = None]
  /\ pv' = [pv EXCEPT ![p][r] = v]
  /\ pos' = [pos EXCEPT ![p] = 2*r - 1]
  /\ UNCHANGED pc
Precommit(p, r, v) ==
  /\ pos[p] < 2*r
  /\ \/ /\ v = Nil   \* no polka seen, or polka nil / unknown block => maybe unlock
        /\ \/ UNCHANGED <<lockedR, lockedV>>
           \/ /\ \E w \in Blocks \cup {Nil} : Polka(r, w) /\ w # lockedV[p]
              /\ lockedR' = [lockedR EXCEPT ![p] = 0] /\ lockedV' = [lockedV EXCEPT ![p] = None]
     \/ /\ v \in Blocks /\ Polka(r, v)
        /\ lockedR' = [lockedR EXCEPT ![p] = r] /\ lockedV' = [lockedV EXCEPT ![p] = v]
  /\ pc' = [pc EXCEPT ![p][r] = v]
  /\ pos' = [pos EXCEPT ![p] = 2*r]
  /\ UNCHANGED pv
Next == \E p \in Corr, r \in Rounds, v \in Blocks \cup {Nil} : Prevote(p, r, v) \/ Precommit(p, r, v)
Agreement == \A r1, r2 \in Rounds, v1, v2 \in Blocks : CommitQ(r1, v1) /\ CommitQ(r2, v2) => v1 = v2
Sym == Permutations(Corr) \cup Permutations(Blocks)
====
