CONSTANTS
  Addrs = {1, 2, 3}
  Powers = {1, 3, 40}
  Cap = 1000000
  Depth = 4
INIT Init
NEXT Next
VIEW View
ACTION_CONSTRAINT Dump
CHECK_DEADLOCK FALSE
