---- MODULE KardiaNet ----
(* Pilot: 3 correct nodes running the KardiaNode handlers + 1 Byzantine validator (index Byz),
   one height, unordered lossy network.  Used to GENERATE behaviours for replay (MBT). *)
EXTENDS Integers, Sequences, FiniteSets, TLC, Json
CONSTANTS NN, PowerC, PropC, Byz, MaxRound, Depth, Budget
K == INSTANCE KardiaNode WITH N <- NN, Power <- PowerC, ProposerOf <- PropC, WaitForTxs <- FALSE
Corr == (1..NN) \ {Byz}
BidOf(n) == "B" \o ToString(n)          \* the block a correct proposer n creates at this height
Bids == {BidOf(n) : n \in Corr}

VARIABLES ns, net, timers, hist, everLocked, everUnlocked, budget, known
vars == <<ns, net, timers, hist, everLocked, everUnlocked, budget, known>>

NoTimer == [h |-> 0, r |-> 0, step |-> 0]
Init == /\ ns = [n \in Corr |-> K!InitNode(n, 1)]
        /\ net = {}
        /\ timers = [n \in Corr |-> [h |-> 1, r |-> 1, step |-> 1]]   \* scheduleRound0
        /\ hist = <<>>
        /\ everLocked = FALSE /\ everUnlocked = FALSE /\ budget = Budget /\ known = {}

\* messages put on the wire by a node's outputs: to everyone (including itself = internal queue)
MsgOf(o, from) ==
  IF o.o = "vote" THEN [k |-> "vote", type |-> o.type, h |-> o.h, r |-> o.r, bid |-> o.bid, i |-> o.i, peer |-> from]
  ELSE IF o.o = "proposal" THEN [k |-> "proposal", h |-> o.h, r |-> o.r, pol |-> o.pol, bid |-> o.bid, i |-> o.i, sigOK |-> TRUE, peer |-> from]
  ELSE [k |-> "part", h |-> o.h, r |-> o.r, bid |-> o.bid, peer |-> from]
RECURSIVE Wire(_, _, _)
Wire(out, from, k) ==
  IF k > Len(out) THEN {}
  ELSE (IF out[k].o \notin {"vote", "proposal", "part"} THEN {} ELSE {[to |-> t, m |-> MsgOf(out[k], from)] : t \in Corr})
       \cup Wire(out, from, k + 1)
RECURSIVE LastTimer(_, _, _)
LastTimer(out, cur, k) ==
  IF k > Len(out) THEN cur
  ELSE LastTimer(out, IF out[k].o = "timeout" THEN [h |-> out[k].h, r |-> out[k].r, step |-> out[k].step] ELSE cur, k + 1)

Apply(n, res, act) ==
  /\ ns' = [ns EXCEPT ![n] = res.s]
  /\ known' = known \cup {res.out[k].bid : k \in {j \in 1..Len(res.out) : res.out[j].o = "proposal"}}
  /\ hist' = Append(hist, act)
  /\ everLocked' = (everLocked \/ res.s.lockedB # K!NoB)
  /\ everUnlocked' = (everUnlocked \/ (ns[n].lockedB # K!NoB /\ res.s.lockedB = K!NoB /\ res.s.h = ns[n].h))

Deliver(e) ==
  /\ e \in net
  /\ ns[e.to].h = 1
  /\ LET res == K!HandleMsg(ns[e.to], e.m, BidOf(e.to))
     IN /\ Apply(e.to, res, [a |-> "deliver", n |-> e.to, m |-> e.m])
        /\ net' = (net \ {e}) \cup Wire(res.out, e.to, 1)
        /\ timers' = [timers EXCEPT ![e.to] = LastTimer(res.out, @, 1)]
        /\ UNCHANGED budget

Fire(n) ==
  /\ timers[n] # NoTimer /\ ns[n].h = 1
  /\ timers[n].r <= MaxRound
  /\ LET ti == timers[n]
         res == K!HandleTimeout(ns[n], ti, BidOf(n))
     IN /\ Apply(n, res, [a |-> "fire", n |-> n, ti |-> ti])
        /\ timers' = [timers EXCEPT ![n] = LastTimer(res.out, NoTimer, 1)]
        /\ net' = net \cup Wire(res.out, n, 1)
        /\ LET early == \E e \in net : e.to = n
           IN IF early THEN budget > 0 /\ budget' = budget - 1 ELSE UNCHANGED budget

\* Byzantine validator: any vote for a known block or nil, any round, to any single node
ByzVote(to, type, r, b) ==
  /\ ns[to].h = 1 /\ budget > 0 /\ budget' = budget - 1 /\ (b = "nil" \/ b \in known)
  /\ LET m == [k |-> "vote", type |-> type, h |-> 1, r |-> r, bid |-> b, i |-> Byz, peer |-> Byz]
         res == K!HandleMsg(ns[to], m, BidOf(to))
     IN /\ Apply(to, res, [a |-> "byzvote", n |-> to, m |-> m])
        /\ net' = net \cup Wire(res.out, to, 1)
        /\ timers' = [timers EXCEPT ![to] = LastTimer(res.out, @, 1)]

Drop(e) == e \in net /\ budget > 0 /\ budget' = budget - 1 /\ net' = net \ {e} /\ hist' = Append(hist, [a |-> "drop", n |-> e.to, m |-> e.m])
           /\ UNCHANGED <<ns, timers, everLocked, everUnlocked, known>>

Next ==
  /\ Len(hist) < Depth
  /\ \/ \E e \in net : Deliver(e)
     \/ \E n \in Corr : Fire(n)
     \/ \E to \in Corr, type \in {1, 2}, r \in 1..MaxRound, b \in Bids \cup {"nil"} : ByzVote(to, type, r, b)
     \/ \E e \in net : Drop(e)

\* steering targets (TLC is asked to violate them)
NeverUnlock == ~everUnlocked
NeverCommit == \A n \in Corr : ns[n].h = 1
Agreement == \A a, b \in Corr : (ns[a].h = 2 /\ ns[b].h = 2) => TRUE
DumpAtEnd == Len(hist) < Depth \/ PrintT(ToJson(hist))
====
