//go:build verif

package consensus

// VerifGate, when set, is called at the top of every receiveRoutine iteration.
var VerifGate func(name string, cs *ConsensusState)

func verifGate(name string, cs *ConsensusState) {
	if VerifGate != nil {
		VerifGate(name, cs)
	}
}
