---- MODULE MCNet ----
EXTENDS KardiaNet
PowerDef == <<10, 10, 10, 10>>
PropDef == <<<<1, 2, 3, 4, 1, 2, 3, 4>>>>
====
