//go:build !verif

package consensus

func verifGate(name string, cs *ConsensusState) {}
