---- MODULE TxPool ----
(* Pilot reference model of mainchain/tx_pool (geth legacy pool) for a small universe.
   A tx is (account, nonce, price); it is affordable iff price <= balance level of the account. *)
EXTENDS Integers, Sequences, FiniteSets, TLC, Json
CONSTANTS Accts, MaxNonce, Prices, AccountQueue, Depth
Nonces == 0..MaxNonce
VARIABLES pending, queue, pnonce, pnset, locals, snonce, level, hist
\* pending[a][n], queue[a][n] : price or 0 ; pnonce[a] valid iff pnset[a] (txNoncer cache)
vars == <<pending, queue, pnonce, pnset, locals, snonce, level, hist>>
Zero == [n \in Nonces |-> 0]
Init == /\ pending = [a \in Accts |-> Zero] /\ queue = [a \in Accts |-> Zero]
        /\ pnonce = [a \in Accts |-> 0] /\ pnset = [a \in Accts |-> FALSE]
        /\ locals = {} /\ snonce = [a \in Accts |-> 0] /\ level = [a \in Accts |-> 2]
        /\ hist = <<>>

PN(pn, ps, sn, a) == IF ps[a] THEN pn[a] ELSE sn[a]
Count(m) == Cardinality({n \in Nonces : m[n] # 0})
MaxS(S) == CHOOSE x \in S : \A y \in S : y <= x

\* promoteExecutables for one account; st = [p, q, pn, ps] (records of the four maps)
RECURSIVE Ready(_, _, _, _, _)
\* promote consecutive queued txs starting at k
Ready(p, q, pn, a, k) ==
  IF k > MaxNonce \/ q[a][k] = 0 THEN [p |-> p, q |-> q, pn |-> pn]
  ELSE LET price == q[a][k]
           old == p[a][k]
           q1 == [q EXCEPT ![a][k] = 0]
       IN IF old # 0 /\ ~(price > old)
          THEN Ready(p, q1, pn, a, k + 1)                        \* older pending tx is better: queued one discarded
          ELSE Ready([p EXCEPT ![a][k] = price], q1, [pn EXCEPT ![a] = k + 1], a, k + 1)

Promote(st, a, sn, lv, loc) ==
  LET q0 == [st.q EXCEPT ![a] = [n \in Nonces |-> IF n < sn[a] \/ @[n] > lv[a] THEN 0 ELSE @[n]]]
      start == IF st.ps[a] THEN st.pn[a] ELSE sn[a]
      r == Ready(st.p, q0, st.pn, a, start)
      promotedAny == r.pn # st.pn
      \* cap the queue for non-locals: keep the AccountQueue lowest nonces
      qa == r.q[a]
      keep == {n \in Nonces : qa[n] # 0 /\ Cardinality({m \in Nonces : qa[m] # 0 /\ m < n}) < AccountQueue}
      q2 == IF a \in loc THEN r.q ELSE [r.q EXCEPT ![a] = [n \in Nonces |-> IF n \in keep THEN qa[n] ELSE 0]]
  IN [p |-> r.p, q |-> q2, pn |-> r.pn, ps |-> [st.ps EXCEPT ![a] = @ \/ promotedAny]]

Add(a, n, price, local) ==
  LET known == pending[a][n] = price \/ queue[a][n] = price
      isLocal == local \/ a \in locals
      res == IF known THEN "known"
             ELSE IF n < snonce[a] THEN "noncelow"
             ELSE IF price > level[a] THEN "funds"
             ELSE IF pending[a][n] # 0 THEN (IF price > pending[a][n] THEN "ok" ELSE "underpriced")
             ELSE IF queue[a][n] # 0 /\ ~(price > queue[a][n]) THEN "underpriced"
             ELSE "ok"
  IN /\ hist' = Append(hist, [op |-> IF local THEN "local" ELSE "remote", a |-> a, n |-> n, p |-> price, res |-> res])
     /\ IF res # "ok" THEN UNCHANGED <<pending, queue, pnonce, pnset, locals, snonce, level>>
        ELSE IF pending[a][n] # 0
        THEN /\ pending' = [pending EXCEPT ![a][n] = price]
             /\ UNCHANGED <<queue, pnonce, pnset, locals, snonce, level>>
        ELSE LET q1 == [queue EXCEPT ![a][n] = price]
                 loc1 == IF local THEN locals \cup {a} ELSE locals
                 st == Promote([p |-> pending, q |-> q1, pn |-> pnonce, ps |-> pnset], a, snonce, level, loc1)
             IN /\ pending' = st.p /\ queue' = st.q /\ pnonce' = st.pn /\ pnset' = st.ps
                /\ locals' = loc1 /\ UNCHANGED <<snonce, level>>

\* demoteUnexecutables for one account on maps p, q
Demote(p, q, a, sn, lv) ==
  LET pa0 == [n \in Nonces |-> IF n < sn[a] THEN 0 ELSE p[a][n]]             \* olds
      bad == {n \in Nonces : pa0[n] # 0 /\ pa0[n] > lv[a]}                    \* unpayable
      low == IF bad = {} THEN MaxNonce + 1 ELSE CHOOSE x \in bad : \A y \in bad : x <= y
      inval == {n \in Nonces : pa0[n] # 0 /\ n > low /\ n \notin bad}          \* strict: everything above the lowest removed
      pa1 == [n \in Nonces |-> IF n \in bad \/ n \in inval THEN 0 ELSE pa0[n]]
      qa1 == [n \in Nonces |-> IF n \in inval THEN pa0[n] ELSE q[a][n]]
      gapped == Count(pa1) > 0 /\ (sn[a] > MaxNonce \/ pa1[sn[a]] = 0)
      pa2 == IF gapped THEN Zero ELSE pa1
      qa2 == IF gapped THEN [n \in Nonces |-> IF pa1[n] # 0 THEN pa1[n] ELSE qa1[n]] ELSE qa1
  IN [p |-> [p EXCEPT ![a] = pa2], q |-> [q EXCEPT ![a] = qa2]]

RECURSIVE PromoteAll(_, _, _, _, _)
PromoteAll(st, S, sn, lv, loc) == IF S = {} THEN st
   ELSE LET a == CHOOSE x \in S : TRUE IN PromoteAll(Promote(st, a, sn, lv, loc), S \ {a}, sn, lv, loc)
RECURSIVE DemoteAll(_, _, _, _, _)
DemoteAll(p, q, S, sn, lv) == IF S = {} THEN [p |-> p, q |-> q]
   ELSE LET a == CHOOSE x \in S : TRUE
            r == Demote(p, q, a, sn, lv) IN DemoteAll(r.p, r.q, S \ {a}, sn, lv)

Reset(a, n2, l2) ==
  LET sn == [snonce EXCEPT ![a] = n2]
      lv == [level EXCEPT ![a] = l2]
      withQ == {x \in Accts : Count(queue[x]) > 0}
      st0 == [p |-> pending, q |-> queue, pn |-> pnonce, ps |-> [x \in Accts |-> FALSE]]     \* noncer recreated
      st1 == PromoteAll(st0, withQ, sn, lv, locals)
      d == DemoteAll(st1.p, st1.q, {x \in Accts : Count(st1.p[x]) > 0}, sn, lv)
      pn2 == [x \in Accts |-> IF Count(d.p[x]) > 0 THEN MaxS({n \in Nonces : d.p[x][n] # 0}) + 1 ELSE 0]
      ps2 == [x \in Accts |-> Count(d.p[x]) > 0]
  IN /\ n2 >= snonce[a]
     /\ snonce' = sn /\ level' = lv
     /\ pending' = d.p /\ queue' = d.q /\ pnonce' = pn2 /\ pnset' = ps2
     /\ UNCHANGED locals
     /\ hist' = Append(hist, [op |-> "reset", a |-> a, n |-> n2, p |-> l2, res |-> "ok"])

Next == /\ Len(hist) < Depth
        /\ \/ \E a \in Accts, n \in Nonces, p \in Prices, l \in BOOLEAN : Add(a, n, p, l)
           \/ \E a \in Accts, n \in 0..(MaxNonce + 1), l \in 0..2 : Reset(a, n, l)

\* ---- the statement's invariants (evaluated on the model; the replay holds the code to the model)
GapFree == \A a \in Accts : Count(pending[a]) > 0 =>
              \A n \in Nonces : pending[a][n] # 0 => (n = snonce[a] \/ (n > snonce[a] /\ pending[a][n - 1] # 0))
Affordable == \A a \in Accts, n \in Nonces : pending[a][n] # 0 => pending[a][n] <= level[a]
Disjoint == \A a \in Accts, n \in Nonces : ~(pending[a][n] # 0 /\ queue[a][n] # 0 /\ pending[a][n] = queue[a][n])
QueueCap == \A a \in Accts : a \notin locals => Count(queue[a]) <= AccountQueue
View == <<pending, queue, pnonce, pnset, locals, snonce, level>>
Dump == PrintT(ToJson([pre |-> hist, act |-> hist'[Len(hist')], pending |-> pending', queue |-> queue',
                       nonce |-> [a \in Accts |-> PN(pnonce', pnset', snonce', a)]]))
====
