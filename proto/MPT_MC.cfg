CONSTANTS
  Keys <- KeysDef
  Vals = {1, 2}
  Depth = 7
INIT Init
NEXT Next
VIEW View
INVARIANTS Canonical GetOK
CHECK_DEADLOCK FALSE
ACTION_CONSTRAINT Dump
