---- MODULE ValidatorSet ----
(* Pilot: proposer rotation and change sets as specified (types/validator_set.go, upstream spec). *)
EXTENDS Integers, Sequences, FiniteSets, TLC, Json
CONSTANTS Addrs, Powers, Cap, Depth
VARIABLES vals,      \* sequence of [a, p, prio] sorted by power desc, address asc
          proposer,  \* address or 0
          hist
vars == <<vals, proposer, hist>>

TruncDiv(a, b) == IF a >= 0 THEN a \div b ELSE -((-a) \div b)
RECURSIVE SumPw(_)
SumPw(s) == IF s = <<>> THEN 0 ELSE Head(s).p + SumPw(Tail(s))
RECURSIVE SumPr(_)
SumPr(s) == IF s = <<>> THEN 0 ELSE Head(s).prio + SumPr(Tail(s))
TotalOf(v) == SumPw(v)
MaxS(S) == CHOOSE x \in S : \A y \in S : y <= x
MinS(S) == CHOOSE x \in S : \A y \in S : x <= y
Prios(v) == {v[i].prio : i \in 1..Len(v)}
Diff(v) == MaxS(Prios(v)) - MinS(Prios(v))

Rescale(v, diffMax) ==
  IF diffMax <= 0 THEN v
  ELSE LET d == Diff(v)
           ratio == (d + diffMax - 1) \div diffMax
       IN IF d > diffMax THEN [i \in 1..Len(v) |-> [v[i] EXCEPT !.prio = TruncDiv(@, ratio)]] ELSE v

ShiftByAvg(v) ==
  LET n == Len(v)
      sum == SumPr(v)
      avg == sum \div n          \* big.Int.Div with positive divisor = floor
  IN [i \in 1..n |-> [v[i] EXCEPT !.prio = @ - avg]]

\* validator with most priority, ties to the smaller address
Most(v) == CHOOSE i \in 1..Len(v) : \A j \in 1..Len(v) :
              v[i].prio > v[j].prio \/ (v[i].prio = v[j].prio /\ v[i].a <= v[j].a)

IncOnce(v) ==
  LET v1 == [i \in 1..Len(v) |-> [v[i] EXCEPT !.prio = @ + v[i].p]]
      m == Most(v1)
  IN [v |-> [v1 EXCEPT ![m].prio = @ - TotalOf(v)], prop |-> v1[m].a]

RECURSIVE IncTimes(_, _, _)
IncTimes(v, prop, k) == IF k = 0 THEN [v |-> v, prop |-> prop]
                        ELSE LET r == IncOnce(v) IN IncTimes(r.v, r.prop, k - 1)

IncrementOp(v, times) ==
  LET v1 == ShiftByAvg(Rescale(v, 2 * TotalOf(v))) IN IncTimes(v1, 0, times)

\* sort by power desc, address asc (insertion into a sequence)
Before(x, y) == x.p > y.p \/ (x.p = y.p /\ x.a < y.a)
RECURSIVE SortSet(_)
SortSet(S) == IF S = {} THEN <<>>
              ELSE LET m == CHOOSE x \in S : \A y \in S : x = y \/ Before(x, y)
                   IN <<m>> \o SortSet(S \ {m})
ToSet(v) == {v[i] : i \in 1..Len(v)}
Has(v, a) == \E i \in 1..Len(v) : v[i].a = a
Get(v, a) == v[CHOOSE i \in 1..Len(v) : v[i].a = a]

\* changes: set of [a, p]
UpdateOp(v, changes) ==
  LET addrs == {c.a : c \in changes}
      dup == Cardinality(addrs) # Cardinality(changes)
      bad == \E c \in changes : c.p < 0 \/ c.p > Cap
      dels == {c \in changes : c.p = 0}
      upds == {c \in changes : c.p > 0}
      unknownDel == \E c \in dels : ~Has(v, c.a)
      removed == SumPw(SortSet({[a |-> c.a, p |-> Get(v, c.a).p, prio |-> 0] : c \in {d \in dels : Has(v, d.a)}}))
      delta(c) == IF Has(v, c.a) THEN c.p - Get(v, c.a).p ELSE c.p
      \* total after all updates, before removals; overflow if any prefix (sorted by delta) exceeds Cap
      sumDelta == SumPw(SortSet({[a |-> c.a, p |-> delta(c), prio |-> 0] : c \in upds}))
      afterUpd == TotalOf(v) - removed + sumDelta
      tooBig == afterUpd > Cap      \* simplification: deltas ascending => the final prefix is the maximum when all positive
      numNew == Cardinality({c \in upds : ~Has(v, c.a)})
      wouldEmpty == numNew = 0 /\ Len(v) = Cardinality(dels)
      T == afterUpd + removed
      newPrio == -(T + (T \div 8))
      keep == {x \in ToSet(v) : x.a \notin addrs}
      changed == {[a |-> c.a, p |-> c.p, prio |-> IF Has(v, c.a) THEN Get(v, c.a).prio ELSE newPrio] : c \in upds}
      merged == SortSet(keep \cup changed)
      v2 == ShiftByAvg(Rescale(merged, 2 * TotalOf(merged)))
  IN IF changes = {} THEN [ok |-> TRUE, v |-> v]
     ELSE IF dup \/ bad \/ unknownDel \/ tooBig \/ wouldEmpty THEN [ok |-> FALSE, v |-> v]
     ELSE [ok |-> TRUE, v |-> SortSet(ToSet(v2))]

Change == [a : Addrs, p : Powers \cup {0}]
InitVals == SortSet({[a |-> a, p |-> 1, prio |-> 0] : a \in Addrs})
Init == /\ LET r == IncrementOp(ShiftByAvg(InitVals), 1) IN vals = r.v /\ proposer = r.prop
        /\ hist = <<>>

DoInc(t) == LET r == IncrementOp(vals, t)
            IN /\ vals' = r.v /\ proposer' = r.prop
               /\ hist' = Append(hist, [op |-> "inc", t |-> t, ch |-> <<>>])
DoUpd(ch) == LET r == UpdateOp(vals, ch)
             IN /\ vals' = r.v /\ UNCHANGED proposer
                /\ hist' = Append(hist, [op |-> "upd", t |-> IF r.ok THEN 1 ELSE 0, ch |-> SortSet({[a |-> c.a, p |-> c.p, prio |-> 0] : c \in ch})])
Next == /\ Len(hist) < Depth
        /\ \/ \E t \in 1..2 : DoInc(t)
           \/ \E c1 \in Change : DoUpd({c1})
           \/ \E c1, c2 \in Change : c1.a < c2.a /\ DoUpd({c1, c2})

Window == Len(vals) > 0 => Diff(vals) <= 2 * TotalOf(vals) + 2 * MaxS({vals[i].p : i \in 1..Len(vals)})
View == <<vals, proposer>>
Dump == PrintT(ToJson([pre |-> hist, act |-> hist'[Len(hist')], post |-> vals', prop |-> proposer']))
====
